//! The neutral term language (DESIGN.md 3.2): parser and printer.
use num_bigint::BigInt;
use std::fmt::Write;

#[derive(Clone, Debug, PartialEq)]
pub enum Sexp {
    Sym(String),
    Num(BigInt),
    Hex(Vec<u8>),
    L(Vec<Sexp>),
}

impl Sexp {
    pub fn sym(s: &str) -> Sexp {
        Sexp::Sym(s.to_string())
    }
    pub fn num<T: Into<BigInt>>(n: T) -> Sexp {
        Sexp::Num(n.into())
    }
    pub fn hex(b: &[u8]) -> Sexp {
        Sexp::Hex(b.to_vec())
    }
    pub fn tag(t: &str, mut args: Vec<Sexp>) -> Sexp {
        let mut v = vec![Sexp::sym(t)];
        v.append(&mut args);
        Sexp::L(v)
    }
    pub fn none() -> Sexp {
        Sexp::tag("none", vec![])
    }
    pub fn some(x: Sexp) -> Sexp {
        Sexp::tag("some", vec![x])
    }
    pub fn as_list(&self) -> Option<&[Sexp]> {
        match self {
            Sexp::L(v) => Some(v),
            _ => None,
        }
    }
    /// (tag, args) of a tagged list
    pub fn tagged(&self) -> Option<(&str, &[Sexp])> {
        match self {
            Sexp::L(v) => match v.first() {
                Some(Sexp::Sym(s)) => Some((s.as_str(), &v[1..])),
                _ => None,
            },
            _ => None,
        }
    }
    pub fn as_hex(&self) -> Option<&[u8]> {
        match self {
            Sexp::Hex(b) => Some(b),
            _ => None,
        }
    }
    pub fn as_num(&self) -> Option<&BigInt> {
        match self {
            Sexp::Num(n) => Some(n),
            _ => None,
        }
    }
    pub fn as_i64(&self) -> Option<i64> {
        self.as_num().and_then(|n| i64::try_from(n).ok())
    }
    pub fn as_u64(&self) -> Option<u64> {
        self.as_num().and_then(|n| u64::try_from(n).ok())
    }
    pub fn as_str_utf8(&self) -> Option<String> {
        self.as_hex().and_then(|b| String::from_utf8(b.to_vec()).ok())
    }
}

pub fn parse(s: &str) -> Result<Sexp, String> {
    let b = s.as_bytes();
    let mut pos = 0usize;
    let r = parse_term(b, &mut pos)?;
    Ok(r)
}

fn skip(b: &[u8], pos: &mut usize) {
    while *pos < b.len() && (b[*pos] == b' ' || b[*pos] == b'\t') {
        *pos += 1;
    }
}

fn parse_term(b: &[u8], pos: &mut usize) -> Result<Sexp, String> {
    skip(b, pos);
    if *pos >= b.len() {
        return Err("eof".into());
    }
    if b[*pos] == b'(' {
        *pos += 1;
        let mut items = Vec::new();
        loop {
            skip(b, pos);
            if *pos >= b.len() {
                return Err("unclosed".into());
            }
            if b[*pos] == b')' {
                *pos += 1;
                break;
            }
            items.push(parse_term(b, pos)?);
        }
        Ok(Sexp::L(items))
    } else {
        let st = *pos;
        while *pos < b.len() && b[*pos] != b' ' && b[*pos] != b'(' && b[*pos] != b')' {
            *pos += 1;
        }
        let tok = std::str::from_utf8(&b[st..*pos]).map_err(|e| e.to_string())?;
        let c = tok.as_bytes()[0];
        if c == b'#' {
            let h = &tok.as_bytes()[1..];
            if h.len() % 2 != 0 {
                return Err("odd hex".into());
            }
            let mut out = Vec::with_capacity(h.len() / 2);
            for i in 0..h.len() / 2 {
                let hv = |c: u8| -> Result<u8, String> {
                    match c {
                        b'0'..=b'9' => Ok(c - 48),
                        b'a'..=b'f' => Ok(c - 87),
                        _ => Err("bad hex".into()),
                    }
                };
                out.push(hv(h[2 * i])? * 16 + hv(h[2 * i + 1])?);
            }
            Ok(Sexp::Hex(out))
        } else if c.is_ascii_digit() || (c == b'-' && tok.len() > 1) {
            tok.parse::<BigInt>().map(Sexp::Num).map_err(|e| e.to_string())
        } else {
            Ok(Sexp::Sym(tok.to_string()))
        }
    }
}

pub fn print(x: &Sexp, out: &mut String) {
    match x {
        Sexp::Sym(s) => out.push_str(s),
        Sexp::Num(n) => {
            let _ = write!(out, "{n}");
        }
        Sexp::Hex(b) => {
            out.push('#');
            for x in b {
                let _ = write!(out, "{x:02x}");
            }
        }
        Sexp::L(v) => {
            out.push('(');
            for (i, y) in v.iter().enumerate() {
                if i > 0 {
                    out.push(' ');
                }
                print(y, out);
            }
            out.push(')');
        }
    }
}

pub fn to_string(x: &Sexp) -> String {
    let mut s = String::new();
    print(x, &mut s);
    s
}
