//! A universal serde target: accepts whatever the deserializer offers through deserialize_any.
//! Used to ask the schema-aware deserializer "is this byte string a complete datum?".
use serde::de::{Deserialize, Deserializer, EnumAccess, MapAccess, SeqAccess, VariantAccess, Visitor};
use std::fmt;

pub struct Universal;

impl<'de> Deserialize<'de> for Universal {
    fn deserialize<D: Deserializer<'de>>(d: D) -> Result<Self, D::Error> {
        d.deserialize_any(UV)
    }
}

struct UV;

macro_rules! prim {
    ($($f:ident : $t:ty),*) => { $( fn $f<E: serde::de::Error>(self, _v: $t) -> Result<Universal, E> { Ok(Universal) } )* }
}

impl<'de> Visitor<'de> for UV {
    type Value = Universal;
    fn expecting(&self, f: &mut fmt::Formatter) -> fmt::Result {
        f.write_str("anything")
    }
    prim!(visit_bool: bool, visit_i8: i8, visit_i16: i16, visit_i32: i32, visit_i64: i64, visit_i128: i128,
          visit_u8: u8, visit_u16: u16, visit_u32: u32, visit_u64: u64, visit_u128: u128,
          visit_f32: f32, visit_f64: f64, visit_char: char, visit_str: &str, visit_string: String,
          visit_bytes: &[u8], visit_byte_buf: Vec<u8>);
    fn visit_borrowed_str<E: serde::de::Error>(self, _v: &'de str) -> Result<Universal, E> {
        Ok(Universal)
    }
    fn visit_borrowed_bytes<E: serde::de::Error>(self, _v: &'de [u8]) -> Result<Universal, E> {
        Ok(Universal)
    }
    fn visit_none<E: serde::de::Error>(self) -> Result<Universal, E> {
        Ok(Universal)
    }
    fn visit_unit<E: serde::de::Error>(self) -> Result<Universal, E> {
        Ok(Universal)
    }
    fn visit_some<D: Deserializer<'de>>(self, d: D) -> Result<Universal, D::Error> {
        Universal::deserialize(d)
    }
    fn visit_newtype_struct<D: Deserializer<'de>>(self, d: D) -> Result<Universal, D::Error> {
        Universal::deserialize(d)
    }
    fn visit_seq<A: SeqAccess<'de>>(self, mut seq: A) -> Result<Universal, A::Error> {
        while seq.next_element::<Universal>()?.is_some() {}
        Ok(Universal)
    }
    fn visit_map<A: MapAccess<'de>>(self, mut map: A) -> Result<Universal, A::Error> {
        while map.next_entry::<Universal, Universal>()?.is_some() {}
        Ok(Universal)
    }
    fn visit_enum<A: EnumAccess<'de>>(self, data: A) -> Result<Universal, A::Error> {
        let (_, variant) = data.variant::<Universal>()?;
        variant.unit_variant()?;
        Ok(Universal)
    }
}
