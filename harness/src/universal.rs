//! A universal serde target: accepts whatever the deserializer offers through deserialize_any.
//! Used to ask the schema-aware deserializer "is this byte string a complete datum?".
use serde::de::{Deserialize, Deserializer, EnumAccess, MapAccess, SeqAccess, VariantAccess, Visitor};
use std::fmt;

pub struct Universal;

impl<'de> Deserialize<'de> for Universal {
    fn deserialize<D: Deserializer<'de>>(d: D) -> Result<Self, D::Error> {
        d.deserialize_any(UV)
    }
}

struct UV;

macro_rules! prim {
    ($($f:ident : $t:ty),*) => { $( fn $f<E: serde::de::Error>(self, _v: $t) -> Result<Universal, E> { Ok(Universal) } )* }
}

impl<'de> Visitor<'de> for UV {
    type Value = Universal;
    fn expecting(&self, f: &mut fmt::Formatter) -> fmt::Result {
        f.write_str("anything")
    }
    prim!(visit_bool: bool, visit_i8: i8, visit_i16: i16, visit_i32: i32, visit_i64: i64, visit_i128: i128,
          visit_u8: u8, visit_u16: u16, visit_u32: u32, visit_u64: u64, visit_u128: u128,
          visit_f32: f32, visit_f64: f64, visit_char: char, visit_str: &str, visit_string: String,
          visit_bytes: &[u8], visit_byte_buf: Vec<u8>);
    fn visit_borrowed_str<E: serde::de::Error>(self, _v: &'de str) -> Result<Universal, E> {
        Ok(Universal)
    }
    fn visit_borrowed_bytes<E: serde::de::Error>(self, _v: &'de [u8]) -> Result<Universal, E> {
        Ok(Universal)
    }
    fn visit_none<E: serde::de::Error>(self) -> Result<Universal, E> {
        Ok(Universal)
    }
    fn visit_unit<E: serde::de::Error>(self) -> Result<Universal, E> {
        Ok(Universal)
    }
    fn visit_some<D: Deserializer<'de>>(self, d: D) -> Result<Universal, D::Error> {
        Universal::deserialize(d)
    }
    fn visit_newtype_struct<D: Deserializer<'de>>(self, d: D) -> Result<Universal, D::Error> {
        Universal::deserialize(d)
    }
    fn visit_seq<A: SeqAccess<'de>>(self, mut seq: A) -> Result<Universal, A::Error> {
        while seq.next_element::<Universal>()?.is_some() {}
        Ok(Universal)
    }
    fn visit_map<A: MapAccess<'de>>(self, mut map: A) -> Result<Universal, A::Error> {
        while map.next_entry::<Universal, Universal>()?.is_some() {}
        Ok(Universal)
    }
    fn visit_enum<A: EnumAccess<'de>>(self, data: A) -> Result<Universal, A::Error> {
        let (_, variant) = data.variant::<Universal>()?;
        variant.unit_variant()?;
        Ok(Universal)
    }
}

/// A serde target that keeps what it is offered (through deserialize_any), for comparisons.
#[derive(Debug, Clone, PartialEq)]
pub enum Captured {
    Bool(bool),
    Int(i128),
    F32(u32),
    F64(u64),
    Char(char),
    Str(String),
    Bytes(Vec<u8>),
    Unit,
    Some(Box<Captured>),
    Seq(Vec<Captured>),
    Map(Vec<(Captured, Captured)>),
    Variant(Box<Captured>),
}

impl<'de> Deserialize<'de> for Captured {
    fn deserialize<D: Deserializer<'de>>(d: D) -> Result<Self, D::Error> {
        d.deserialize_any(CV)
    }
}

struct CV;

macro_rules! cap_int {
    ($($f:ident : $t:ty),*) => { $( fn $f<E: serde::de::Error>(self, v: $t) -> Result<Captured, E> { Ok(Captured::Int(v as i128)) } )* }
}

impl<'de> Visitor<'de> for CV {
    type Value = Captured;
    fn expecting(&self, f: &mut fmt::Formatter) -> fmt::Result {
        f.write_str("anything")
    }
    cap_int!(visit_i8: i8, visit_i16: i16, visit_i32: i32, visit_i64: i64, visit_i128: i128,
             visit_u8: u8, visit_u16: u16, visit_u32: u32, visit_u64: u64, visit_u128: u128);
    fn visit_bool<E: serde::de::Error>(self, v: bool) -> Result<Captured, E> {
        Ok(Captured::Bool(v))
    }
    fn visit_f32<E: serde::de::Error>(self, v: f32) -> Result<Captured, E> {
        Ok(Captured::F32(v.to_bits()))
    }
    fn visit_f64<E: serde::de::Error>(self, v: f64) -> Result<Captured, E> {
        Ok(Captured::F64(v.to_bits()))
    }
    fn visit_char<E: serde::de::Error>(self, v: char) -> Result<Captured, E> {
        Ok(Captured::Char(v))
    }
    fn visit_str<E: serde::de::Error>(self, v: &str) -> Result<Captured, E> {
        Ok(Captured::Str(v.to_string()))
    }
    fn visit_string<E: serde::de::Error>(self, v: String) -> Result<Captured, E> {
        Ok(Captured::Str(v))
    }
    fn visit_bytes<E: serde::de::Error>(self, v: &[u8]) -> Result<Captured, E> {
        Ok(Captured::Bytes(v.to_vec()))
    }
    fn visit_byte_buf<E: serde::de::Error>(self, v: Vec<u8>) -> Result<Captured, E> {
        Ok(Captured::Bytes(v))
    }
    fn visit_none<E: serde::de::Error>(self) -> Result<Captured, E> {
        Ok(Captured::Unit)
    }
    fn visit_unit<E: serde::de::Error>(self) -> Result<Captured, E> {
        Ok(Captured::Unit)
    }
    fn visit_some<D: Deserializer<'de>>(self, d: D) -> Result<Captured, D::Error> {
        Ok(Captured::Some(Box::new(Captured::deserialize(d)?)))
    }
    fn visit_newtype_struct<D: Deserializer<'de>>(self, d: D) -> Result<Captured, D::Error> {
        Captured::deserialize(d)
    }
    fn visit_seq<A: SeqAccess<'de>>(self, mut seq: A) -> Result<Captured, A::Error> {
        let mut out = Vec::new();
        while let Some(x) = seq.next_element::<Captured>()? {
            out.push(x);
        }
        Ok(Captured::Seq(out))
    }
    fn visit_map<A: MapAccess<'de>>(self, mut map: A) -> Result<Captured, A::Error> {
        let mut out = Vec::new();
        while let Some(kv) = map.next_entry::<Captured, Captured>()? {
            out.push(kv);
        }
        Ok(Captured::Map(out))
    }
    fn visit_enum<A: EnumAccess<'de>>(self, data: A) -> Result<Captured, A::Error> {
        let (tag, variant) = data.variant::<Captured>()?;
        variant.unit_variant()?;
        Ok(Captured::Variant(Box::new(tag)))
    }
}

/// A target that wants only every second entry of the outermost map (the fields of a record): the entries at
/// positions with index % 2 == SKIP are asked for as IgnoredAny, the others are kept.  What a struct that lacks
/// some fields of the writer's record does.
#[derive(Debug)]
pub struct Alternate<const SKIP: usize>(pub Vec<(Captured, Option<Captured>)>);

impl<'de, const SKIP: usize> Deserialize<'de> for Alternate<SKIP> {
    fn deserialize<D: Deserializer<'de>>(d: D) -> Result<Self, D::Error> {
        d.deserialize_any(AV::<SKIP>)
    }
}

struct AV<const SKIP: usize>;

impl<'de, const SKIP: usize> Visitor<'de> for AV<SKIP> {
    type Value = Alternate<SKIP>;
    fn expecting(&self, f: &mut fmt::Formatter) -> fmt::Result {
        f.write_str("a map")
    }
    fn visit_map<A: MapAccess<'de>>(self, mut map: A) -> Result<Alternate<SKIP>, A::Error> {
        let mut out = Vec::new();
        let mut i = 0usize;
        while let Some(k) = map.next_key::<Captured>()? {
            if i % 2 == SKIP {
                map.next_value::<serde::de::IgnoredAny>()?;
                out.push((k, None));
            } else {
                out.push((k, Some(map.next_value::<Captured>()?)));
            }
            i += 1;
        }
        Ok(Alternate(out))
    }
}
