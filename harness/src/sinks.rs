//! Instrumented sinks: the standard write contract with short writes and injected failures.
use std::io::{self, Write};

/// Accepts `ok_calls` write calls, then fails every call (write and flush).
pub struct FailingSink {
    pub ok_calls: usize,
    pub data: Vec<u8>,
}

impl FailingSink {
    pub fn new(ok_calls: usize) -> Self {
        FailingSink { ok_calls, data: Vec::new() }
    }
}

impl Write for FailingSink {
    fn write(&mut self, buf: &[u8]) -> io::Result<usize> {
        if self.ok_calls == 0 {
            return Err(io::Error::other("injected sink failure"));
        }
        self.ok_calls -= 1;
        self.data.extend_from_slice(buf);
        Ok(buf.len())
    }
    fn flush(&mut self) -> io::Result<()> {
        if self.ok_calls == 0 {
            return Err(io::Error::other("injected sink failure"));
        }
        Ok(())
    }
}

/// What a scripted sink does on its k-th call.
#[derive(Clone, Debug)]
pub enum Beh {
    /// accept at most n bytes (n >= 1)
    Accept(usize),
    /// fail with ErrorKind::Other
    Fail,
    /// fail with ErrorKind::Interrupted (must be retried by write_all)
    Interrupted,
}

/// A sink following a script of per-call behaviours; after the script it accepts `default` bytes
/// per call.  Records everything it accepted and the call log.
pub struct ScriptSink {
    pub script: Vec<Beh>,
    pub pos: usize,
    pub default_accept: usize,
    pub data: Vec<u8>,
    pub calls: usize,
    pub flushes: usize,
    pub fail_flush_at: Option<usize>,
}

impl ScriptSink {
    pub fn new(script: Vec<Beh>, default_accept: usize) -> Self {
        ScriptSink { script, pos: 0, default_accept, data: Vec::new(), calls: 0, flushes: 0, fail_flush_at: None }
    }
}

impl Write for ScriptSink {
    fn write(&mut self, buf: &[u8]) -> io::Result<usize> {
        self.calls += 1;
        let b = if self.pos < self.script.len() {
            let b = self.script[self.pos].clone();
            self.pos += 1;
            b
        } else {
            Beh::Accept(self.default_accept)
        };
        match b {
            Beh::Accept(n) => {
                let k = n.max(1).min(buf.len());
                self.data.extend_from_slice(&buf[..k]);
                Ok(k)
            }
            Beh::Fail => Err(io::Error::other("injected sink failure")),
            Beh::Interrupted => Err(io::Error::from(io::ErrorKind::Interrupted)),
        }
    }
    fn flush(&mut self) -> io::Result<()> {
        self.flushes += 1;
        if Some(self.flushes) == self.fail_flush_at {
            return Err(io::Error::other("injected flush failure"));
        }
        Ok(())
    }
}
