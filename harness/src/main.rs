//! avro-obs: runs the apache-avro implementation on cases written in the neutral term language
//! and prints one observation per case.  Line format: "<id> <term>" in, "<id> <term>" out.
mod container;
mod conv;
mod corpus;
mod ops;
mod settings;
mod sexp;
mod sinkrun;
mod sinks;
mod universal;

use std::io::{BufRead, Write};

/// Counting allocator: the largest single request and the peak of live bytes since the last reset.
/// Used by the `measure` wrapper (C05: no memory requested for a length declared in the data
/// beyond the configured maximum).
pub mod alloc_count {
    use std::alloc::{GlobalAlloc, Layout, System};
    use std::sync::atomic::{AtomicUsize, Ordering::Relaxed};
    pub static LIVE: AtomicUsize = AtomicUsize::new(0);
    pub static PEAK: AtomicUsize = AtomicUsize::new(0);
    pub static LARGEST: AtomicUsize = AtomicUsize::new(0);
    pub struct Counting;
    unsafe impl GlobalAlloc for Counting {
        unsafe fn alloc(&self, l: Layout) -> *mut u8 {
            let p = unsafe { System.alloc(l) };
            if !p.is_null() {
                let live = LIVE.fetch_add(l.size(), Relaxed) + l.size();
                PEAK.fetch_max(live, Relaxed);
                LARGEST.fetch_max(l.size(), Relaxed);
            }
            p
        }
        unsafe fn dealloc(&self, p: *mut u8, l: Layout) {
            LIVE.fetch_sub(l.size(), Relaxed);
            unsafe { System.dealloc(p, l) }
        }
        unsafe fn alloc_zeroed(&self, l: Layout) -> *mut u8 {
            let p = unsafe { System.alloc_zeroed(l) };
            if !p.is_null() {
                let live = LIVE.fetch_add(l.size(), Relaxed) + l.size();
                PEAK.fetch_max(live, Relaxed);
                LARGEST.fetch_max(l.size(), Relaxed);
            }
            p
        }
        unsafe fn realloc(&self, p: *mut u8, l: Layout, new_size: usize) -> *mut u8 {
            let q = unsafe { System.realloc(p, l, new_size) };
            if !q.is_null() {
                if new_size >= l.size() {
                    let live = LIVE.fetch_add(new_size - l.size(), Relaxed) + (new_size - l.size());
                    PEAK.fetch_max(live, Relaxed);
                } else {
                    LIVE.fetch_sub(l.size() - new_size, Relaxed);
                }
                LARGEST.fetch_max(new_size, Relaxed);
            }
            q
        }
    }
    pub fn reset() {
        PEAK.store(LIVE.load(Relaxed), Relaxed);
        LARGEST.store(0, Relaxed);
    }
    /// (growth of the peak over the live bytes at reset, largest single request)
    pub fn read(base: usize) -> (usize, usize) {
        (PEAK.load(Relaxed).saturating_sub(base), LARGEST.load(Relaxed))
    }
}

#[global_allocator]
static GLOBAL: alloc_count::Counting = alloc_count::Counting;

fn main() {
    // a panic inside the library is an observation, not a crash of the harness
    std::panic::set_hook(Box::new(|_| {}));
    let args: Vec<String> = std::env::args().collect();
    if args.get(1).map(|s| s.as_str()) == Some("settings") {
        // one program per process: the settings are process-wide and write-once
        let mut line = String::new();
        std::io::stdin().read_line(&mut line).expect("read");
        let (id, body) = line.trim_end().split_once(' ').expect("id");
        let obs = match sexp::parse(body) {
            Ok(p) => settings::run(&p),
            Err(e) => sexp::Sexp::tag("unparsable", vec![sexp::Sexp::hex(e.as_bytes())]),
        };
        println!("{} {}", id, sexp::to_string(&obs));
        return;
    }
    ops::init(&args[1..]);
    let stdin = std::io::stdin();
    let stdout = std::io::stdout();
    let mut out = std::io::BufWriter::new(stdout.lock());
    for line in stdin.lock().lines() {
        let line = line.expect("read stdin");
        if line.is_empty() {
            continue;
        }
        let (id, body) = match line.split_once(' ') {
            Some(p) => p,
            None => continue,
        };
        let obs = match sexp::parse(body) {
            Ok(c) => ops::run_case(&c),
            Err(e) => sexp::Sexp::tag("unparsable", vec![sexp::Sexp::hex(e.as_bytes())]),
        };
        let _ = writeln!(out, "{} {}", id, sexp::to_string(&obs));
    }
    let _ = out.flush();
}
