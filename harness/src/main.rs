//! avro-obs: runs the apache-avro implementation on cases written in the neutral term language
//! and prints one observation per case.  Line format: "<id> <term>" in, "<id> <term>" out.
mod container;
mod conv;
mod ops;
mod settings;
mod sexp;
mod sinkrun;
mod sinks;
mod universal;

use std::io::{BufRead, Write};

fn main() {
    // a panic inside the library is an observation, not a crash of the harness
    std::panic::set_hook(Box::new(|_| {}));
    let args: Vec<String> = std::env::args().collect();
    if args.get(1).map(|s| s.as_str()) == Some("settings") {
        // one program per process: the settings are process-wide and write-once
        let mut line = String::new();
        std::io::stdin().read_line(&mut line).expect("read");
        let (id, body) = line.trim_end().split_once(' ').expect("id");
        let obs = match sexp::parse(body) {
            Ok(p) => settings::run(&p),
            Err(e) => sexp::Sexp::tag("unparsable", vec![sexp::Sexp::hex(e.as_bytes())]),
        };
        println!("{} {}", id, sexp::to_string(&obs));
        return;
    }
    ops::init(&args[1..]);
    let stdin = std::io::stdin();
    let stdout = std::io::stdout();
    let mut out = std::io::BufWriter::new(stdout.lock());
    for line in stdin.lock().lines() {
        let line = line.expect("read stdin");
        if line.is_empty() {
            continue;
        }
        let (id, body) = match line.split_once(' ') {
            Some(p) => p,
            None => continue,
        };
        let obs = match sexp::parse(body) {
            Ok(c) => ops::run_case(&c),
            Err(e) => sexp::Sexp::tag("unparsable", vec![sexp::Sexp::hex(e.as_bytes())]),
        };
        let _ = writeln!(out, "{} {}", id, sexp::to_string(&obs));
    }
    let _ = out.flush();
}
