//! C19: threads racing to set / use the process-wide settings.  One program per process.
use crate::sexp::Sexp;
use apache_avro::error::Details;
use apache_avro::schema::Name;
use apache_avro::schema_equality::{SchemataEq, set_schemata_equality_comparator};
use apache_avro::validator::*;
use apache_avro::{AvroResult, Schema};
use std::sync::{Arc, Barrier};

struct NameV(u64);
impl SchemaNameValidator for NameV {
    fn validate(&self, name: &str) -> AvroResult<usize> {
        if name.starts_with(&format!("v{}-", self.0)) {
            Ok(0)
        } else {
            Err(Details::InvalidSchemaName(name.to_string(), "custom").into())
        }
    }
}
struct NsV(u64);
impl SchemaNamespaceValidator for NsV {
    fn validate(&self, ns: &str) -> AvroResult<()> {
        if ns.starts_with(&format!("v{}-", self.0)) {
            Ok(())
        } else {
            Err(Details::InvalidNamespace(ns.to_string(), "custom").into())
        }
    }
}
struct EnumV(u64);
impl EnumSymbolNameValidator for EnumV {
    fn validate(&self, s: &str) -> AvroResult<()> {
        if s.starts_with(&format!("v{}-", self.0)) {
            Ok(())
        } else {
            Err(Details::EnumSymbolName(s.to_string()).into())
        }
    }
}
struct FieldV(u64);
impl RecordFieldNameValidator for FieldV {
    fn validate(&self, s: &str) -> AvroResult<()> {
        if s.starts_with(&format!("v{}-", self.0)) {
            Ok(())
        } else {
            Err(Details::FieldName(s.to_string()).into())
        }
    }
}
#[derive(Debug)]
struct EqV(u64);
impl SchemataEq for EqV {
    fn compare(&self, a: &Schema, b: &Schema) -> bool {
        // comparator k declares fixed(k) equal to null, and nothing else
        matches!((a, b), (Schema::Fixed(f), Schema::Null) if f.size as u64 == self.0)
    }
}

const CANDIDATES: u64 = 8;

/// which validator is in force: the k in 1..=CANDIDATES whose private syntax is accepted, 0 = the default
fn probe<F: Fn(&str) -> bool>(accepts: F) -> u64 {
    for k in 1..=CANDIDATES {
        if accepts(&format!("v{k}-x")) {
            return k;
        }
    }
    if accepts("plain_name") { 0 } else { 99 }
}

fn is_mem_err(e: &apache_avro::Error) -> bool {
    matches!(e.details(), Details::MemoryAllocation { .. })
}

/// does the decoder accept a declared length n for this kind of datum?  (true = not rejected by the limit)
fn len_accepted(kind: &str, n: u64) -> Option<bool> {
    use apache_avro::reader::datum::GenericDatumReader;
    let mut input = Vec::new();
    let zz = (n << 1) as u64;
    let mut z = zz;
    loop {
        if z <= 0x7f {
            input.push(z as u8);
            break;
        }
        input.push(0x80 | (z & 0x7f) as u8);
        z >>= 7;
    }
    let schema = match kind {
        "bytes" => Schema::Bytes,
        "string" => Schema::String,
        "array" => Schema::parse_str(r#"{"type":"array","items":"null"}"#).ok()?,
        "map" => Schema::parse_str(r#"{"type":"map","values":"null"}"#).ok()?,
        _ => return None,
    };
    let r = GenericDatumReader::builder(&schema).build().ok()?;
    match r.read_value(&mut &input[..]) {
        Ok(_) => Some(true),
        Err(e) => Some(!is_mem_err(&e)),
    }
}

fn put_long(out: &mut Vec<u8>, n: i64) {
    let mut z = ((n << 1) ^ (n >> 63)) as u64;
    loop {
        if z <= 0x7f {
            out.push(z as u8);
            break;
        }
        out.push(0x80 | (z & 0x7f) as u8);
        z >>= 7;
    }
}

/// does the container reader accept blocks of these byte sizes, in this order?  (a file of one-byte fixed items,
/// null codec; true = every block was read without a memory-limit error)
fn blocks_accepted(sizes: &[u64]) -> Option<bool> {
    let schema = br#"{"type":"fixed","name":"B","size":1}"#;
    let marker = [7u8; 16];
    let mut f: Vec<u8> = b"Obj\x01".to_vec();
    put_long(&mut f, 1);
    put_long(&mut f, 11);
    f.extend_from_slice(b"avro.schema");
    put_long(&mut f, schema.len() as i64);
    f.extend_from_slice(schema);
    f.push(0);
    f.extend_from_slice(&marker);
    for &s in sizes {
        put_long(&mut f, s as i64);
        put_long(&mut f, s as i64);
        f.extend(std::iter::repeat(0x41u8).take(s as usize));
        f.extend_from_slice(&marker);
    }
    let r = apache_avro::Reader::new(&f[..]).ok()?;
    let mut n = 0u64;
    for it in r {
        match it {
            Ok(_) => n += 1,
            Err(_) => return Some(false),
        }
    }
    Some(n == sizes.iter().sum::<u64>())
}

/// Probing never declares more than this many bytes: a declared length below the limit is really
/// allocated by the decoder, so limits above the cap are only observed as "at least the cap".
const PROBE_CAP: u64 = 1 << 24;

/// the limit the decoders actually apply to a declared byte length, found by bisection in [0, cap]
fn probe_limit() -> u64 {
    let (mut lo, mut hi) = (0u64, PROBE_CAP);
    if len_accepted("bytes", hi).unwrap_or(false) {
        return hi;
    }
    while lo < hi {
        let mid = lo + (hi - lo + 1) / 2;
        if len_accepted("bytes", mid).unwrap_or(false) {
            lo = mid;
        } else {
            hi = mid - 1;
        }
    }
    lo
}

fn run_op(op: &Sexp) -> Sexp {
    let Some((t, a)) = op.tagged() else { return Sexp::tag("bad", vec![]) };
    let k = a.first().and_then(|x| x.as_u64()).unwrap_or(0);
    let acc = |r: bool| if r { Sexp::tag("accepted", vec![]) } else { Sexp::tag("rejected", vec![]) };
    match t {
        "alloc" => Sexp::tag("got", vec![Sexp::num(apache_avro::util::max_allocation_bytes(k as usize) as u64)]),
        "use-alloc" => {
            let l = probe_limit();
            if l >= PROBE_CAP {
                return Sexp::tag("limit", vec![Sexp::num(PROBE_CAP), Sexp::tag("edges", vec![])]);
            }
            // uniform enforcement: every length-driven decoder accepts l and rejects l+1
            let mut flags = Vec::new();
            for kind in ["bytes", "string"] {
                flags.push(Sexp::num(len_accepted(kind, l).unwrap_or(false) as u64));
                flags.push(Sexp::num(len_accepted(kind, l + 1).unwrap_or(true) as u64));
            }
            // counts: count * size_of::<Value>() <= limit
            let vs = std::mem::size_of::<apache_avro::types::Value>() as u64;
            let kvs = std::mem::size_of::<(String, apache_avro::types::Value)>() as u64;
            for (kind, es) in [("array", vs), ("map", kvs)] {
                let c = l / es;
                flags.push(Sexp::num(if c == 0 { 1 } else { len_accepted(kind, c).unwrap_or(false) as u64 }));
                flags.push(Sexp::num(len_accepted(kind, c + 1).unwrap_or(true) as u64));
            }
            // the container reader applies the same limit to the declared byte size of a block, also to a block that
            // would fit the buffer it already holds (blocks of growing size first)
            if l >= 8 && l <= (1 << 20) {
                let (a, b) = (l * 6 / 10 + 1, l * 7 / 10 + 1);
                // (a limit too small for the file header itself cannot be probed this way: nothing is reported)
                let probes = [
                    blocks_accepted(&[l]),
                    blocks_accepted(&[l + 1]),
                    blocks_accepted(&[a, b, l]),
                    blocks_accepted(&[a, b, l + 1]),
                    blocks_accepted(&[a, b, l + l / 10]),
                ];
                if probes.iter().all(|p| p.is_some()) {
                    for p in probes {
                        flags.push(Sexp::num(p.unwrap_or(false) as u64));
                    }
                }
            }
            Sexp::tag("limit", vec![Sexp::num(l), Sexp::tag("edges", flags)])
        }
        "hr" => Sexp::tag("got", vec![Sexp::num(apache_avro::util::set_serde_human_readable(k != 0) as u64)]),
        "set-name" => acc(set_schema_name_validator(Box::new(NameV(k))).is_ok()),
        "set-ns" => acc(set_schema_namespace_validator(Box::new(NsV(k))).is_ok()),
        "set-enum" => acc(set_enum_symbol_name_validator(Box::new(EnumV(k))).is_ok()),
        "set-field" => acc(set_record_field_name_validator(Box::new(FieldV(k))).is_ok()),
        "set-eq" => acc(set_schemata_equality_comparator(Box::new(EqV(k))).is_ok()),
        "use-name" => Sexp::tag("inforce", vec![Sexp::num(probe(|s| Name::new(s).is_ok()))]),
        "use-ns" => Sexp::tag(
            "inforce",
            vec![Sexp::num(probe(|s| {
                // the namespace validator runs when an unqualified name meets a non-empty enclosing namespace
                let ns = if s == "plain_name" { "plain.ns" } else { s };
                // (programs exercise one setting each, so the name validator is the default here)
                Name::new_with_enclosing_namespace("x", Some(ns)).is_ok()
            }))],
        ),
        "use-enum" => Sexp::tag(
            "inforce",
            vec![Sexp::num(probe(|s| {
                Schema::parse_str(&format!(r#"{{"type":"enum","name":"E","symbols":["{s}"]}}"#)).is_ok()
            }))],
        ),
        "use-field" => Sexp::tag(
            "inforce",
            vec![Sexp::num(probe(|s| {
                Schema::parse_str(&format!(r#"{{"type":"record","name":"R","fields":[{{"name":"{s}","type":"int"}}]}}"#)).is_ok()
            }))],
        ),
        "use-eq" => {
            let mut k = 0;
            for c in 1..=CANDIDATES {
                let fx = Schema::parse_str(&format!(r#"{{"type":"fixed","name":"F","size":{c}}}"#)).unwrap();
                if fx == Schema::Null {
                    k = c;
                    break;
                }
            }
            Sexp::tag("inforce", vec![Sexp::num(k)])
        }
        _ => Sexp::tag("bad", vec![]),
    }
}

/// (prog seed (thread OP...) (thread OP...) ...) -> (obs (thread R...) ...)
pub fn run(prog: &Sexp) -> Sexp {
    let Some((_, a)) = prog.tagged() else { return Sexp::tag("bad", vec![]) };
    let seed = a[0].as_u64().unwrap_or(1);
    let threads: Vec<Vec<Sexp>> = a[1..]
        .iter()
        .map(|t| t.tagged().map(|(_, ops)| ops.to_vec()).unwrap_or_default())
        .collect();
    let barrier = Arc::new(Barrier::new(threads.len()));
    let mut handles = Vec::new();
    for (ti, ops) in threads.into_iter().enumerate() {
        let b = barrier.clone();
        handles.push(std::thread::spawn(move || {
            let mut x = seed.wrapping_mul(0x9E3779B97F4A7C15).wrapping_add(ti as u64 * 0xD6E8FEB86659FD93) | 1;
            b.wait();
            let mut out = Vec::new();
            for op in &ops {
                // a pseudo-random spin so that the interleaving varies with the seed
                x ^= x << 13;
                x ^= x >> 7;
                x ^= x << 17;
                for _ in 0..(x % 2000) {
                    std::hint::spin_loop();
                }
                out.push(run_op(op));
            }
            out
        }));
    }
    let mut res = Vec::new();
    for h in handles {
        match h.join() {
            Ok(o) => res.push(Sexp::tag("thread", o)),
            Err(_) => res.push(Sexp::tag("thread-panicked", vec![])),
        }
    }
    Sexp::tag("obs", res)
}
