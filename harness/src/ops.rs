//! Case dispatch.
use crate::conv::*;
use crate::sexp::Sexp;
use apache_avro::reader::datum::GenericDatumReader;
use apache_avro::writer::datum::GenericDatumWriter;
use apache_avro::Schema;
use std::panic::{catch_unwind, AssertUnwindSafe};

/// process-wide settings given on the command line: `max_alloc=<n>`
pub fn init(args: &[String]) {
    for a in args {
        if let Some(v) = a.strip_prefix("max_alloc=") {
            let n: usize = v.parse().expect("max_alloc");
            apache_avro::util::max_allocation_bytes(n);
        }
    }
}

pub fn err() -> Sexp {
    Sexp::tag("err", vec![])
}
pub fn ok(args: Vec<Sexp>) -> Sexp {
    Sexp::tag("ok", args)
}
pub fn bad(msg: &str) -> Sexp {
    Sexp::tag("bad-case", vec![Sexp::hex(msg.as_bytes())])
}

/// run f; a panic becomes the observation (panic)
pub fn guarded<F: FnOnce() -> Sexp>(f: F) -> Sexp {
    match catch_unwind(AssertUnwindSafe(f)) {
        Ok(s) => s,
        Err(_) => Sexp::tag("panic", vec![]),
    }
}

pub fn parse_schema(x: &Sexp) -> Result<Schema, Sexp> {
    let txt = x.as_str_utf8().ok_or_else(|| bad("schema text"))?;
    match catch_unwind(AssertUnwindSafe(|| Schema::parse_str(&txt))) {
        Ok(Ok(s)) => Ok(s),
        Ok(Err(_)) => Err(Sexp::tag("schema-err", vec![])),
        Err(_) => Err(Sexp::tag("schema-panic", vec![])),
    }
}

pub fn run_case(c: &Sexp) -> Sexp {
    let Some((op, a)) = c.tagged() else { return bad("untagged") };
    if op == "measure" {
        // (measure CASE) -> (measured PEAK-GROWTH LARGEST-REQUEST RESULT)
        use std::sync::atomic::Ordering::Relaxed;
        let Some(inner) = a.first() else { return bad("measure") };
        crate::alloc_count::reset();
        let base = crate::alloc_count::LIVE.load(Relaxed);
        let r = run_case(inner);
        let (peak, largest) = crate::alloc_count::read(base);
        return Sexp::tag("measured", vec![Sexp::num(peak as u64), Sexp::num(largest as u64), r]);
    }
    match op {
        // (datum #schema-json VALUE #junk validate01)
        //   -> (obs SCHEMA VALUE-in-iteration-order ENC DEC)
        "datum" => {
            if a.len() != 4 {
                return bad("arity");
            }
            let schema = match parse_schema(&a[0]) {
                Ok(s) => s,
                Err(e) => return e,
            };
            let value = match sexp_to_value(&a[1]) {
                Ok(v) => v,
                Err(e) => return bad(&e),
            };
            let junk = a[2].as_hex().unwrap_or(&[]).to_vec();
            let validate = a[3].as_i64().unwrap_or(1) != 0;
            let mut bytes: Vec<u8> = Vec::new();
            let enc = guarded(|| {
                let w = match GenericDatumWriter::builder(&schema).validate(validate).build() {
                    Ok(w) => w,
                    Err(_) => return Sexp::tag("writer-err", vec![]),
                };
                match w.write_value_ref(&mut bytes, &value) {
                    Ok(_) => ok(vec![]),
                    Err(_) => err(),
                }
            });
            let enc_ok = matches!(enc.tagged(), Some(("ok", _)));
            let enc = if enc_ok { ok(vec![Sexp::hex(&bytes)]) } else { enc };
            let mut decoded: Option<apache_avro::types::Value> = None;
            let dec = if enc_ok {
                let mut input = bytes.clone();
                input.extend_from_slice(&junk);
                guarded(|| {
                    let r = match GenericDatumReader::builder(&schema).build() {
                        Ok(r) => r,
                        Err(_) => return Sexp::tag("reader-err", vec![]),
                    };
                    let mut slice = &input[..];
                    match r.read_value(&mut slice) {
                        Ok(v) => {
                            let o = ok(vec![value_to_sexp(&v), Sexp::hex(slice)]);
                            decoded = Some(v);
                            o
                        }
                        Err(_) => err(),
                    }
                })
            } else {
                Sexp::tag("skipped", vec![])
            };
            // the other public entry points of the same round trip: the deprecated free functions and the
            // owned-value / to-vec methods must write the same bytes and read the same value
            let alt = if validate {
                guarded(|| {
                    #[allow(deprecated)]
                    let a1 = apache_avro::to_avro_datum(&schema, value.clone());
                    let a2 = GenericDatumWriter::builder(&schema).build().and_then(|w| w.write_value_to_vec(value.clone()));
                    let mut b3: Vec<u8> = Vec::new();
                    let a3 = GenericDatumWriter::builder(&schema).build().and_then(|w| w.write_value(&mut b3, value.clone()));
                    let same = |r: &Result<Vec<u8>, apache_avro::Error>| match r {
                        Ok(b) => enc_ok && *b == bytes,
                        Err(_) => !enc_ok,
                    };
                    #[allow(deprecated)]
                    let a4 = apache_avro::to_avro_datum_schemata(&schema, vec![&schema], value.clone());
                    let w_same = same(&a1) && same(&a2) && same(&a4) && (if enc_ok { a3.is_ok() && b3 == bytes } else { a3.is_err() });
                    let r_same = if enc_ok {
                        let mut input = bytes.clone();
                        input.extend_from_slice(&junk);
                        let mut slice = &input[..];
                        #[allow(deprecated)]
                        let d1 = apache_avro::from_avro_datum(&schema, &mut slice, None);
                        let mut slice2 = &input[..];
                        #[allow(deprecated)]
                        let d2 = apache_avro::from_avro_datum_schemata(&schema, vec![&schema], &mut slice2, None);
                        match (&decoded, d1, d2) {
                            (Some(v), Ok(x), Ok(y)) => same_value(v, &x) && same_value(v, &y) && slice == &junk[..] && slice2 == &junk[..],
                            (None, Err(_), Err(_)) => true,
                            _ => false,
                        }
                    } else {
                        true
                    };
                    ok(vec![Sexp::num(w_same as u64), Sexp::num(r_same as u64)])
                })
            } else {
                Sexp::tag("skipped", vec![])
            };
            Sexp::tag("obs", vec![schema_to_sexp(&schema), value_to_sexp(&value), enc, dec, alt])
        }
        // (datum-seq #schema-json validate01 VALUE...) -> (obs SCHEMA (ok VALUE #bytes)|(err VALUE) ...)
        //   ONE GenericDatumWriter for the whole sequence: what a failed write leaves behind must not reach later data
        "datum-seq" => {
            if a.len() < 2 {
                return bad("arity");
            }
            let schema = match parse_schema(&a[0]) {
                Ok(s) => s,
                Err(e) => return e,
            };
            let validate = a[1].as_i64().unwrap_or(1) != 0;
            let mut values = Vec::new();
            for x in &a[2..] {
                match sexp_to_value(x) {
                    Ok(v) => values.push(v),
                    Err(e) => return bad(&e),
                }
            }
            guarded(|| {
                let w = match GenericDatumWriter::builder(&schema).validate(validate).build() {
                    Ok(w) => w,
                    Err(_) => return Sexp::tag("writer-err", vec![]),
                };
                let mut out = vec![schema_to_sexp(&schema)];
                for (i, v) in values.iter().enumerate() {
                    let mut bytes: Vec<u8> = Vec::new();
                    // alternate between the entry points that share the writer
                    let r = if i % 2 == 0 { w.write_value_ref(&mut bytes, v).map(|_| ()) } else { w.write_value_to_vec(v.clone()).map(|b| bytes = b) };
                    out.push(match r {
                        Ok(()) => ok(vec![value_to_sexp(v), Sexp::hex(&bytes)]),
                        Err(_) => Sexp::tag("err", vec![value_to_sexp(v)]),
                    });
                }
                Sexp::tag("obs", out)
            })
        }
        // (cheader2 #schema-A #schema-B) -> (obs SCHEMA-B (ok SCHEMA-READ-BACK)|(err))
        //   two container writers in one process, A first; the header of B's file must carry B
        "cheader2" => {
            if a.len() != 2 {
                return bad("arity");
            }
            let sa = match parse_schema(&a[0]) {
                Ok(s) => s,
                Err(e) => return e,
            };
            let sb = match parse_schema(&a[1]) {
                Ok(s) => s,
                Err(e) => return e,
            };
            let back = guarded(|| {
                let mut wa = match apache_avro::Writer::builder().schema(&sa).writer(Vec::<u8>::new()).build() {
                    Ok(w) => w,
                    Err(_) => return Sexp::tag("writer-err", vec![]),
                };
                if wa.flush().is_err() {
                    return err();
                }
                let mut wb = match apache_avro::Writer::builder().schema(&sb).writer(Vec::<u8>::new()).build() {
                    Ok(w) => w,
                    Err(_) => return Sexp::tag("writer-err", vec![]),
                };
                if wb.flush().is_err() {
                    return err();
                }
                let file = match wb.into_inner() {
                    Ok(f) => f,
                    Err(_) => return err(),
                };
                match apache_avro::Reader::new(&file[..]) {
                    Ok(r) => ok(vec![schema_to_sexp(r.writer_schema())]),
                    Err(_) => err(),
                }
            });
            Sexp::tag("obs", vec![schema_to_sexp(&sb), back])
        }
        // (decode #schema-json #bytes) -> (obs SCHEMA DEC)
        "decode" => {
            if a.len() != 2 {
                return bad("arity");
            }
            let schema = match parse_schema(&a[0]) {
                Ok(s) => s,
                Err(e) => return e,
            };
            let input = a[1].as_hex().unwrap_or(&[]).to_vec();
            let dec = guarded(|| {
                let r = match GenericDatumReader::builder(&schema).build() {
                    Ok(r) => r,
                    Err(_) => return Sexp::tag("reader-err", vec![]),
                };
                let mut slice = &input[..];
                match r.read_value(&mut slice) {
                    Ok(v) => ok(vec![value_to_sexp(&v), Sexp::hex(slice)]),
                    Err(_) => err(),
                }
            });
            Sexp::tag("obs", vec![schema_to_sexp(&schema), dec])
        }
        // (rabin #bytes) -> (ok #digest)
        "rabin" => {
            use apache_avro::rabin::Rabin;
            use md5::Digest;
            let b = a.first().and_then(|x| x.as_hex()).unwrap_or(&[]);
            // fed in two pieces to exercise the incremental update
            let mut h = Rabin::new();
            let mid = b.len() / 2;
            h.update(&b[..mid]);
            h.update(&b[mid..]);
            let d = h.finalize();
            ok(vec![Sexp::hex(&d[..])])
        }
        // (fingerprint #schema-json) -> (ok #pcf #rabin #md5 #sha256 #so-header)
        "fingerprint" => {
            use apache_avro::headers::{HeaderBuilder, RabinFingerprintHeader};
            use apache_avro::rabin::Rabin;
            let schema = match parse_schema(&a[0]) {
                Ok(s) => s,
                Err(e) => return e,
            };
            guarded(|| {
                let pcf = match schema.canonical_form() {
                    c => c,
                };
                let r = schema.fingerprint::<Rabin>();
                let m = schema.fingerprint::<md5::Md5>();
                let s2 = schema.fingerprint::<sha2::Sha256>();
                let hdr = RabinFingerprintHeader::from_schema(&schema).build_header();
                ok(vec![
                    Sexp::hex(pcf.as_bytes()),
                    Sexp::hex(&r.bytes),
                    Sexp::hex(&m.bytes),
                    Sexp::hex(&s2.bytes),
                    Sexp::hex(&hdr),
                ])
            })
        }
        // (codec NAME LEVEL #data) -> (obs #compressed (ok #decompressed)|(err)|(panic))
        // (codec-d NAME #bytes) -> (ok LEN #first-bytes CRC)|(err)|(panic)   decompression of arbitrary bytes
        "codec" | "codec-d" => {
            use apache_avro::Codec;
            let name = match &a[0] {
                Sexp::Sym(s) => s.clone(),
                _ => return bad("codec"),
            };
            let level = if op == "codec" { a[1].as_u64().unwrap_or(0) as u8 } else { 0 };
            let codec = match name.as_str() {
                "null" => Codec::Null,
                "deflate" => {
                    use miniz_oxide::deflate::CompressionLevel as L;
                    let l = match level {
                        0 => L::NoCompression,
                        1 => L::BestSpeed,
                        9 => L::BestCompression,
                        10 => L::UberCompression,
                        _ => L::DefaultLevel,
                    };
                    Codec::Deflate(apache_avro::DeflateSettings::new(l))
                }
                "snappy" => Codec::Snappy,
                "bzip2" => Codec::Bzip2(apache_avro::Bzip2Settings::new(level.clamp(1, 9))),
                "xz" => Codec::Xz(apache_avro::XzSettings::new(level.min(9))),
                "zstandard" => Codec::Zstandard(apache_avro::ZstandardSettings::new(level.min(22))),
                _ => return bad("codec name"),
            };
            if op == "codec" {
                // payload: #hex, or (rep BYTE COUNT) for long runs
                let data = match a[2].tagged() {
                    Some(("rep", r)) if r.len() == 2 => {
                        vec![r[0].as_u64().unwrap_or(0) as u8; r[1].as_u64().unwrap_or(0) as usize]
                    }
                    _ => a[2].as_hex().unwrap_or(&[]).to_vec(),
                };
                let mut buf = data.clone();
                let c = catch_unwind(AssertUnwindSafe(|| codec.compress(&mut buf)));
                match c {
                    Ok(Ok(())) => {}
                    Ok(Err(_)) => return Sexp::tag("obs", vec![err()]),
                    Err(_) => return Sexp::tag("obs", vec![Sexp::tag("panic", vec![])]),
                }
                let compressed = buf.clone();
                let long = data.len() > 1_000_000;
                let d = guarded(|| match codec.decompress(&mut buf) {
                    // a long run is reported by length and equality only
                    Ok(()) if long => ok(vec![Sexp::num(buf.len() as u64), Sexp::num((buf == data) as i64)]),
                    Ok(()) => ok(vec![Sexp::hex(&buf)]),
                    Err(_) => err(),
                });
                // statelessness of the codec: a decompression that fails part-way (the compressed block cut in half)
                // must not change what the next, intact block decompresses to
                let again = if compressed.len() >= 2 {
                    guarded(|| {
                        let mut cut = compressed[..compressed.len() / 2].to_vec();
                        let first = codec.decompress(&mut cut).is_ok();
                        let mut full = compressed.clone();
                        let second = codec.decompress(&mut full).map(|()| full == data).unwrap_or(false);
                        ok(vec![Sexp::num(first as u64), Sexp::num(second as u64)])
                    })
                } else {
                    Sexp::tag("skipped", vec![])
                };
                Sexp::tag("obs", vec![Sexp::hex(&compressed), d, again])
            } else {
                let mut buf = a[1].as_hex().unwrap_or(&[]).to_vec();
                guarded(|| match codec.decompress(&mut buf) {
                    Ok(()) => {
                        let mut h = crc32fast::Hasher::new();
                        h.update(&buf);
                        ok(vec![Sexp::num(buf.len() as u64), Sexp::hex(&buf[..buf.len().min(64)]), Sexp::num(h.finalize() as u64)])
                    }
                    Err(_) => err(),
                })
            }
        }
        // (serde TYPE SEED [BLOCKSIZE]) -> see corpus.rs
        "serde" => crate::corpus::serde_case(a),
        // (parse-list #text ...) -> (ok SCHEMA ...) | (err) | (panic)
        "parse-list" => {
            let mut texts = Vec::new();
            for x in a {
                match x.as_str_utf8() {
                    Some(t) => texts.push(t),
                    None => return Sexp::tag("not-utf8", vec![]),
                }
            }
            guarded(|| match Schema::parse_list(texts.iter().map(|t| t.as_str())) {
                Ok(v) => ok(v.iter().map(schema_to_sexp).collect()),
                Err(_) => err(),
            })
        }
        // (parse-with-list #main #other ...) -> (ok MAIN OTHER...) | (err) | (panic) : Schema::parse_str_with_list
        "parse-with-list" => {
            let mut texts = Vec::new();
            for x in a {
                match x.as_str_utf8() {
                    Some(t) => texts.push(t),
                    None => return Sexp::tag("not-utf8", vec![]),
                }
            }
            if texts.is_empty() {
                return bad("arity");
            }
            guarded(|| match Schema::parse_str_with_list(&texts[0], texts[1..].iter().map(|t| t.as_str())) {
                Ok((m, v)) => {
                    let mut out = vec![schema_to_sexp(&m)];
                    out.extend(v.iter().map(schema_to_sexp));
                    ok(out)
                }
                Err(_) => err(),
            })
        }
        // (parse-text #text) -> (not-json) | (obs JSON (ok SCHEMA)|(err)|(panic))
        "parse-text" => {
            let Some(txt) = a[0].as_str_utf8() else { return Sexp::tag("not-utf8", vec![]) };
            let value: serde_json::Value = match serde_json::from_str(&txt) {
                Ok(v) => v,
                Err(_) => {
                    // the parser must agree that this is not a schema
                    let r = guarded(|| match Schema::parse_str(&txt) {
                        Ok(_) => ok(vec![]),
                        Err(_) => err(),
                    });
                    return Sexp::tag("not-json", vec![r]);
                }
            };
            let r = guarded(|| match Schema::parse_str(&txt) {
                Ok(s) => ok(vec![schema_to_sexp(&s)]),
                Err(_) => err(),
            });
            Sexp::tag("obs", vec![crate::conv::json_to_sexp(&value), r])
        }
        // (schema-rt #schema-text) -> (obs SCHEMA #json1 (ok SCHEMA2 #json2)|(err)|(panic) #pcf|(panic) DEBUG-ok01)
        //   parse, serialise to JSON, parse that again, serialise again; canonical form; Debug printing
        "schema-rt" => {
            let schema = match parse_schema(&a[0]) {
                Ok(s) => s,
                Err(e) => return e,
            };
            let json1 = match catch_unwind(AssertUnwindSafe(|| serde_json::to_string(&schema))) {
                Ok(Ok(j)) => j,
                Ok(Err(_)) => return Sexp::tag("obs", vec![schema_to_sexp(&schema), Sexp::tag("ser-err", vec![])]),
                Err(_) => return Sexp::tag("obs", vec![schema_to_sexp(&schema), Sexp::tag("panic", vec![])]),
            };
            let again = guarded(|| match Schema::parse_str(&json1) {
                Ok(s2) => match serde_json::to_string(&s2) {
                    Ok(j2) => ok(vec![schema_to_sexp(&s2), Sexp::hex(j2.as_bytes()), Sexp::num((s2 == schema) as i64)]),
                    Err(_) => Sexp::tag("ser-err", vec![]),
                },
                Err(_) => err(),
            });
            let pcf = guarded(|| Sexp::hex(schema.canonical_form().as_bytes()));
            let dbg = guarded(|| Sexp::num(format!("{schema:?}").len() as i64));
            let names = guarded(|| match apache_avro::schema::ResolvedSchema::try_from(&schema) {
                Ok(_) => ok(vec![]),
                Err(_) => err(),
            });
            Sexp::tag(
                "obs",
                vec![schema_to_sexp(&schema), Sexp::hex(json1.as_bytes()), again, pcf, dbg, names],
            )
        }
        // (so-history #schema-json (w VALUE sink-ok01)...) ->
        //   (obs SCHEMA #expected-header (emitted #msg (ok VALUE #rest)|(err)) | (err) ...)
        "so-history" => {
            use apache_avro::{GenericSingleObjectReader, GenericSingleObjectWriter};
            let schema = match parse_schema(&a[0]) {
                Ok(s) => s,
                Err(e) => return e,
            };
            guarded(|| {
                let mut w = match GenericSingleObjectWriter::new_with_capacity(&schema, 64) {
                    Ok(w) => w,
                    Err(_) => return Sexp::tag("writer-err", vec![]),
                };
                let r = match GenericSingleObjectReader::builder().schema(schema.clone()).build() {
                    Ok(r) => r,
                    Err(_) => return Sexp::tag("reader-err", vec![]),
                };
                let hdr = {
                    use apache_avro::headers::{HeaderBuilder, RabinFingerprintHeader};
                    RabinFingerprintHeader::from_schema(&schema).build_header()
                };
                let mut out = vec![schema_to_sexp(&schema), Sexp::hex(&hdr)];
                for op in &a[1..] {
                    let Some((_, p)) = op.tagged() else { return bad("op") };
                    let value = match sexp_to_value(&p[0]) {
                        Ok(v) => v,
                        Err(e) => return bad(&e),
                    };
                    let sink_ok = p[1].as_i64().unwrap_or(1) != 0;
                    let res = if sink_ok {
                        let mut sink: Vec<u8> = Vec::new();
                        w.write_value_ref(&value, &mut sink).map(|n| (n, sink))
                    } else {
                        let mut sink = crate::sinks::FailingSink::new(0);
                        w.write_value_ref(&value, &mut sink).map(|n| (n, vec![]))
                    };
                    match res {
                        Ok((n, sink)) => {
                            let mut slice = &sink[..];
                            let rd = match r.read_value(&mut slice) {
                                Ok(v) => ok(vec![value_to_sexp(&v), Sexp::hex(slice)]),
                                Err(_) => err(),
                            };
                            out.push(Sexp::tag(
                                "emitted",
                                vec![Sexp::hex(&sink), Sexp::num(n as u64), value_to_sexp(&value), rd],
                            ));
                        }
                        Err(_) => out.push(Sexp::tag("err", vec![value_to_sexp(&value)])),
                    }
                }
                Sexp::tag("obs", out)
            })
        }
        // (so-read #schema-json #message) -> (ok VALUE #rest) | (err)
        "so-read" => {
            use apache_avro::GenericSingleObjectReader;
            let schema = match parse_schema(&a[0]) {
                Ok(s) => s,
                Err(e) => return e,
            };
            let msg = a[1].as_hex().unwrap_or(&[]).to_vec();
            guarded(|| {
                let r = match GenericSingleObjectReader::builder().schema(schema.clone()).build() {
                    Ok(r) => r,
                    Err(_) => return Sexp::tag("reader-err", vec![]),
                };
                let mut slice = &msg[..];
                match r.read_value(&mut slice) {
                    Ok(v) => ok(vec![value_to_sexp(&v), Sexp::hex(slice)]),
                    Err(_) => err(),
                }
            })
        }
        // (cfile #schema-json codec block_size #marker OP...) with OP =
        //   (append V) (append-unvalidated V) (flush) (meta #k #v) (reset) (finish) (drop) (reopen)
        // -> (obs SCHEMA (results r...) #sink)
        "cfile" => crate::container::cfile(a),
        // (cread #file) -> (obs (ok SCHEMA (meta (kv #k #v)...) | (open-err)) (items (ok V)|(err) ...))
        "cread" => crate::container::cread(a),
        // (decode2 #schema-json #bytes) ->
        //   (obs SCHEMA DEC VALID REENC REDEC DESER) : generic decode, Value::validate of the result,
        //   re-encode, decode of the re-encoding, and the schema-aware deserializer on the same bytes
        "decode2" => {
            if a.len() != 2 {
                return bad("arity");
            }
            let schema = match parse_schema(&a[0]) {
                Ok(s) => s,
                Err(e) => return e,
            };
            let input = a[1].as_hex().unwrap_or(&[]).to_vec();
            let mut decoded: Option<apache_avro::types::Value> = None;
            let dec = guarded(|| {
                let r = match GenericDatumReader::builder(&schema).build() {
                    Ok(r) => r,
                    Err(_) => return Sexp::tag("reader-err", vec![]),
                };
                let mut slice = &input[..];
                match r.read_value(&mut slice) {
                    Ok(v) => {
                        let o = ok(vec![value_to_sexp(&v), Sexp::hex(slice)]);
                        decoded = Some(v);
                        o
                    }
                    Err(_) => err(),
                }
            });
            let (valid, reenc, redec) = match &decoded {
                None => (Sexp::tag("skipped", vec![]), Sexp::tag("skipped", vec![]), Sexp::tag("skipped", vec![])),
                Some(v) => {
                    let valid = guarded(|| Sexp::num(v.validate(&schema) as i64));
                    let mut bytes: Vec<u8> = Vec::new();
                    let reenc = guarded(|| {
                        let w = match GenericDatumWriter::builder(&schema).validate(false).build() {
                            Ok(w) => w,
                            Err(_) => return Sexp::tag("writer-err", vec![]),
                        };
                        match w.write_value_ref(&mut bytes, v) {
                            Ok(_) => ok(vec![]),
                            Err(_) => err(),
                        }
                    });
                    let reenc_ok = matches!(reenc.tagged(), Some(("ok", _)));
                    let redec = if reenc_ok {
                        guarded(|| {
                            let r = GenericDatumReader::builder(&schema).build().unwrap();
                            let mut slice = &bytes[..];
                            match r.read_value(&mut slice) {
                                Ok(v2) => ok(vec![value_to_sexp(&v2), Sexp::hex(slice)]),
                                Err(_) => err(),
                            }
                        })
                    } else {
                        Sexp::tag("skipped", vec![])
                    };
                    (valid, if reenc_ok { ok(vec![Sexp::hex(&bytes)]) } else { reenc }, redec)
                }
            };
            let deser = guarded(|| {
                let r = match GenericDatumReader::builder(&schema).build() {
                    Ok(r) => r,
                    Err(_) => return Sexp::tag("reader-err", vec![]),
                };
                let mut slice = &input[..];
                match r.read_deser::<crate::universal::Universal>(&mut slice) {
                    Ok(_) => ok(vec![Sexp::hex(slice)]),
                    Err(_) => err(),
                }
            });
            // the same bytes read into a target that keeps nothing (serde::de::IgnoredAny): skipping a
            // datum must still find all of it
            let ignored = guarded(|| {
                let r = match GenericDatumReader::builder(&schema).build() {
                    Ok(r) => r,
                    Err(_) => return Sexp::tag("reader-err", vec![]),
                };
                let mut slice = &input[..];
                match r.read_deser::<serde::de::IgnoredAny>(&mut slice) {
                    Ok(_) => ok(vec![Sexp::hex(slice)]),
                    Err(_) => err(),
                }
            });
            // a target that wants only every second field of a top-level record (a struct lacking the others): the
            // kept fields must be what a full capture holds at those positions, and the same bytes must be consumed
            let partial = if matches!(schema, apache_avro::Schema::Record(_)) {
                guarded(|| {
                    use crate::universal::{Alternate, Captured};
                    let r = match GenericDatumReader::builder(&schema).build() {
                        Ok(r) => r,
                        Err(_) => return Sexp::tag("reader-err", vec![]),
                    };
                    let mut s0 = &input[..];
                    let full = match r.read_deser::<Captured>(&mut s0) {
                        Ok(Captured::Map(m)) => m,
                        Ok(_) => return Sexp::tag("not-a-map", vec![]),
                        Err(_) => return Sexp::tag("full-err", vec![]),
                    };
                    fn judge(full: &[(Captured, Captured)], got: &[(Captured, Option<Captured>)], rest: &[u8], rest0: &[u8]) -> Sexp {
                        let same = full.len() == got.len()
                            && full.iter().zip(got).all(|((k, v), (k2, v2))| k == k2 && v2.as_ref().is_none_or(|x| x == v));
                        ok(vec![Sexp::num(same as u64), Sexp::num((rest == rest0) as u64)])
                    }
                    let mut s1 = &input[..];
                    let a0 = match r.read_deser::<Alternate<0>>(&mut s1) {
                        Ok(a) => judge(&full, &a.0, s1, s0),
                        Err(_) => err(),
                    };
                    let mut s2 = &input[..];
                    let a1 = match r.read_deser::<Alternate<1>>(&mut s2) {
                        Ok(a) => judge(&full, &a.0, s2, s0),
                        Err(_) => err(),
                    };
                    Sexp::tag("partial", vec![a0, a1])
                })
            } else {
                Sexp::tag("skipped", vec![])
            };
            Sexp::tag("obs", vec![schema_to_sexp(&schema), dec, valid, reenc, redec, deser, ignored, partial])
        }
        // (vw #schema-json VALUE) -> (obs SCHEMA VALUE valid01 RESOLVE DATUM DEC SO CONTAINER)
        //   validation, resolution, and the three validating write paths on one value
        "vw" => {
            use apache_avro::{GenericSingleObjectWriter, Writer};
            if a.len() != 2 {
                return bad("arity");
            }
            let schema = match parse_schema(&a[0]) {
                Ok(s) => s,
                Err(e) => return e,
            };
            let value = match sexp_to_value(&a[1]) {
                Ok(v) => v,
                Err(e) => return bad(&e),
            };
            let vdump = value_to_sexp(&value);
            let valid = guarded(|| Sexp::num(value.validate(&schema) as i64));
            let resolved = guarded(|| match value.clone().resolve(&schema) {
                Ok(v) => ok(vec![value_to_sexp(&v)]),
                Err(_) => err(),
            });
            let mut bytes: Vec<u8> = Vec::new();
            let datum = guarded(|| {
                let w = match GenericDatumWriter::builder(&schema).build() {
                    Ok(w) => w,
                    Err(_) => return Sexp::tag("writer-err", vec![]),
                };
                match w.write_value_ref(&mut bytes, &value) {
                    Ok(_) => ok(vec![]),
                    Err(_) => err(),
                }
            });
            let datum_ok = matches!(datum.tagged(), Some(("ok", _)));
            let datum = Sexp::tag(if datum_ok { "ok" } else { "err" }, vec![Sexp::hex(&bytes)]);
            let dec = if datum_ok {
                guarded(|| {
                    let r = GenericDatumReader::builder(&schema).build().unwrap();
                    let mut slice = &bytes[..];
                    match r.read_value(&mut slice) {
                        Ok(v) => ok(vec![value_to_sexp(&v), Sexp::hex(slice)]),
                        Err(_) => err(),
                    }
                })
            } else {
                Sexp::tag("skipped", vec![])
            };
            let mut so_bytes: Vec<u8> = Vec::new();
            let so = guarded(|| {
                let mut w = match GenericSingleObjectWriter::new_with_capacity(&schema, 16) {
                    Ok(w) => w,
                    Err(_) => return Sexp::tag("writer-err", vec![]),
                };
                match w.write_value_ref(&value, &mut so_bytes) {
                    Ok(_) => ok(vec![]),
                    Err(_) => err(),
                }
            });
            let so = Sexp::tag(if matches!(so.tagged(), Some(("ok", _))) { "ok" } else { "err" }, vec![Sexp::hex(&so_bytes)]);
            let sink = crate::container::SharedSink(std::rc::Rc::new(std::cell::RefCell::new(Vec::new())));
            let cont = guarded(|| {
                let mut w = match Writer::builder().schema(&schema).writer(sink.clone()).marker([7u8; 16]).build() {
                    Ok(w) => w,
                    Err(_) => return Sexp::tag("writer-err", vec![]),
                };
                let r = w.append_value_ref(&value);
                let pending_before_flush = sink.0.borrow().len();
                let _ = w.flush();
                match r {
                    Ok(_) => ok(vec![Sexp::num(pending_before_flush as u64)]),
                    Err(_) => err(),
                }
            });
            let file = sink.0.borrow().clone();
            // values read back from the container (if any)
            let cread = guarded(|| {
                if file.is_empty() {
                    return Sexp::tag("items", vec![]);
                }
                match apache_avro::Reader::new(&file[..]) {
                    Ok(r) => Sexp::tag(
                        "items",
                        r.map(|x| match x {
                            Ok(v) => ok(vec![value_to_sexp(&v)]),
                            Err(_) => err(),
                        })
                        .collect(),
                    ),
                    Err(_) => Sexp::tag("open-err", vec![]),
                }
            });
            Sexp::tag(
                "obs",
                vec![schema_to_sexp(&schema), vdump, valid, resolved, datum, dec, so, cont, cread],
            )
        }
        // (read2 #W-json #R-json VALUE) -> (obs WS RS VALUE ENC READ VALID IDEM CANREAD CANREAD-REV MUTUAL MUTUAL-REV)
        "read2" => {
            use apache_avro::schema_compatibility::{Compatibility, SchemaCompatibility};
            if a.len() != 3 {
                return bad("arity");
            }
            let ws = match parse_schema(&a[0]) {
                Ok(s) => s,
                Err(e) => return Sexp::tag("w-schema", vec![e]),
            };
            let rs = match parse_schema(&a[1]) {
                Ok(s) => s,
                Err(e) => return Sexp::tag("r-schema", vec![e]),
            };
            let value = match sexp_to_value(&a[2]) {
                Ok(v) => v,
                Err(e) => return bad(&e),
            };
            let mut bytes: Vec<u8> = Vec::new();
            let enc = guarded(|| {
                let w = match GenericDatumWriter::builder(&ws).build() {
                    Ok(w) => w,
                    Err(_) => return Sexp::tag("writer-err", vec![]),
                };
                match w.write_value_ref(&mut bytes, &value) {
                    Ok(_) => ok(vec![]),
                    Err(_) => err(),
                }
            });
            let enc_ok = matches!(enc.tagged(), Some(("ok", _)));
            let mut result: Option<apache_avro::types::Value> = None;
            let read = if enc_ok {
                guarded(|| {
                    let r = match GenericDatumReader::builder(&ws).reader_schema(&rs).build() {
                        Ok(r) => r,
                        Err(_) => return Sexp::tag("reader-err", vec![]),
                    };
                    let mut slice = &bytes[..];
                    match r.read_value(&mut slice) {
                        Ok(v) => {
                            let o = ok(vec![value_to_sexp(&v), Sexp::hex(slice)]);
                            result = Some(v);
                            o
                        }
                        Err(_) => err(),
                    }
                })
            } else {
                Sexp::tag("skipped", vec![])
            };
            let (valid, idem) = match &result {
                Some(v) => (
                    guarded(|| Sexp::num(v.validate(&rs) as i64)),
                    guarded(|| match v.clone().resolve(&rs) {
                        Ok(v2) => ok(vec![value_to_sexp(&v2)]),
                        Err(_) => err(),
                    }),
                ),
                None => (Sexp::tag("skipped", vec![]), Sexp::tag("skipped", vec![])),
            };
            // the same datum through the object container: Writer with W, Reader with reader_schema(R)
            let cread = if enc_ok {
                guarded(|| {
                    let mut w = match apache_avro::Writer::builder()
                        .schema(&ws)
                        .writer(Vec::<u8>::new())
                        .build()
                    {
                        Ok(w) => w,
                        Err(_) => return Sexp::tag("writer-err", vec![]),
                    };
                    if w.append_value_ref(&value).is_err() {
                        return Sexp::tag("append-err", vec![]);
                    }
                    let file = match w.into_inner() {
                        Ok(f) => f,
                        Err(_) => return Sexp::tag("finish-err", vec![]),
                    };
                    let r = match apache_avro::Reader::builder(&file[..]).reader_schema(&rs).build() {
                        Ok(r) => r,
                        Err(_) => return Sexp::tag("reader-err", vec![]),
                    };
                    let mut items = Vec::new();
                    for x in r {
                        match x {
                            Ok(v) => items.push(ok(vec![value_to_sexp(&v)])),
                            Err(_) => {
                                items.push(err());
                                break;
                            }
                        }
                    }
                    Sexp::tag("items", items)
                })
            } else {
                Sexp::tag("skipped", vec![])
            };
            let comp = |x: Result<Compatibility, _>| match x {
                Ok(Compatibility::Full) => Sexp::sym("full"),
                Ok(Compatibility::Partial) => Sexp::sym("partial"),
                Err::<_, apache_avro::error::CompatibilityError>(_) => Sexp::sym("incompatible"),
            };
            let cr = guarded(|| comp(SchemaCompatibility::can_read(&ws, &rs)));
            let cr_rev = guarded(|| comp(SchemaCompatibility::can_read(&rs, &ws)));
            let mu = guarded(|| comp(SchemaCompatibility::mutual_read(&ws, &rs)));
            let mu_rev = guarded(|| comp(SchemaCompatibility::mutual_read(&rs, &ws)));
            let self_w = guarded(|| comp(SchemaCompatibility::can_read(&ws, &ws)));
            Sexp::tag(
                "obs",
                vec![
                    schema_to_sexp(&ws),
                    schema_to_sexp(&rs),
                    value_to_sexp(&value),
                    if enc_ok { ok(vec![Sexp::hex(&bytes)]) } else { enc },
                    read,
                    valid,
                    idem,
                    cr,
                    cr_rev,
                    mu,
                    mu_rev,
                    self_w,
                    cread,
                ],
            )
        }
        "sinkrun" => crate::sinkrun::sinkrun(a),
        "sizes" => Sexp::tag(
            "sizes",
            vec![
                Sexp::num(std::mem::size_of::<apache_avro::types::Value>() as u64),
                Sexp::num(std::mem::size_of::<(String, apache_avro::types::Value)>() as u64),
            ],
        ),
        _ => bad("unknown op"),
    }
}
