//! C13: write paths against scripted sinks.
use crate::container::codec_of;
use crate::conv::*;
use crate::ops::{bad, err, guarded, ok, parse_schema};
use crate::sexp::Sexp;
use crate::sinks::{Beh, ScriptSink};
use apache_avro::writer::datum::GenericDatumWriter;
use apache_avro::{GenericSingleObjectWriter, Writer};
use serde::Serialize;
use std::cell::RefCell;
use std::io::Write;
use std::rc::Rc;

/// a scripted sink that stays observable after the writer is dropped; logs every call
#[derive(Clone)]
pub struct Shared(pub Rc<RefCell<ScriptSink>>, pub Rc<RefCell<Vec<usize>>>);
impl Write for Shared {
    fn write(&mut self, buf: &[u8]) -> std::io::Result<usize> {
        self.1.borrow_mut().push(buf.len());
        self.0.borrow_mut().write(buf)
    }
    fn flush(&mut self) -> std::io::Result<()> {
        self.0.borrow_mut().flush()
    }
}

fn parse_script(x: &Sexp) -> Result<(Vec<Beh>, usize, Option<usize>), String> {
    // (script default flushfail-or-0 (a n) (f) (i) ...)
    let (_, p) = x.tagged().ok_or("script")?;
    let default = p.first().and_then(|n| n.as_u64()).ok_or("default")? as usize;
    let ff = p.get(1).and_then(|n| n.as_u64()).ok_or("flushfail")? as usize;
    let mut v = Vec::new();
    for b in &p[2..] {
        let (t, a) = b.tagged().ok_or("beh")?;
        v.push(match t {
            "a" => Beh::Accept(a.first().and_then(|n| n.as_u64()).ok_or("a n")? as usize),
            "f" => Beh::Fail,
            "i" => Beh::Interrupted,
            _ => return Err("beh tag".into()),
        });
    }
    Ok((v, default, if ff == 0 { None } else { Some(ff) }))
}

#[derive(Serialize)]
struct SerRec {
    a: i64,
    s: String,
    l: Vec<String>,
    m: std::collections::BTreeMap<String, i32>,
    o: Option<f64>,
}
const SER_SCHEMA: &str = r#"{"type":"record","name":"SerRec","fields":[{"name":"a","type":"long"},{"name":"s","type":"string"},{"name":"l","type":{"type":"array","items":"string"}},{"name":"m","type":{"type":"map","values":"int"}},{"name":"o","type":["null","double"]}]}"#;

/// struct field order is the reverse of the schema's: the serializer has to hold fields back
#[derive(Serialize)]
struct SerOut {
    e: Option<String>,
    d: String,
    c: Vec<i32>,
    b: String,
    a: i64,
}
const SER_OUT_SCHEMA: &str = r#"{"type":"record","name":"SerOut","fields":[{"name":"a","type":"long"},{"name":"b","type":"string"},{"name":"c","type":{"type":"array","items":"int"}},{"name":"d","type":"string"},{"name":"e","type":["null","string"]}]}"#;

fn ser_out_value(n: u64) -> SerOut {
    SerOut {
        e: if n % 3 == 0 { None } else { Some("e".repeat((n % 7) as usize)) },
        d: "dd".repeat((n % 9) as usize + 1),
        c: (0..(n % 6)).map(|i| (i as i32) * 1000).collect(),
        b: "b".repeat((n % 11) as usize + 2),
        a: n as i64 * 77,
    }
}

fn ser_value(n: u64) -> SerRec {
    SerRec {
        a: n as i64 * 1_000_003,
        s: "s".repeat((n % 40) as usize),
        l: (0..(n % 5)).map(|i| format!("item{i}")).collect(),
        m: (0..(n % 4)).map(|i| (format!("k{i}"), i as i32)).collect(),
        o: if n % 2 == 0 { None } else { Some(n as f64 / 3.0) },
    }
}

/// (sinkrun SCENARIO SCRIPT) -> (obs (results ...) #accepted (calls n...) flushes)
pub fn sinkrun(a: &[Sexp]) -> Sexp {
    if a.len() != 2 {
        return bad("arity");
    }
    let (script, default, ff) = match parse_script(&a[1]) {
        Ok(s) => s,
        Err(e) => return bad(&e),
    };
    let mut ss = ScriptSink::new(script, default);
    ss.fail_flush_at = ff;
    let sink = Shared(Rc::new(RefCell::new(ss)), Rc::new(RefCell::new(Vec::new())));
    let Some((t, p)) = a[0].tagged() else { return bad("scenario") };
    let mut results: Vec<Sexp> = Vec::new();
    // sink length after each operation of a single-object scenario
    let mut marks: Vec<usize> = Vec::new();
    let res_n = |r: Result<usize, apache_avro::Error>| match r {
        Ok(n) => ok(vec![Sexp::num(n as u64)]),
        Err(_) => err(),
    };
    let out = guarded(|| {
        match t {
            "datum" => {
                let schema = match parse_schema(&p[0]) {
                    Ok(s) => s,
                    Err(e) => return e,
                };
                let v = match sexp_to_value(&p[1]) {
                    Ok(v) => v,
                    Err(e) => return bad(&e),
                };
                let w = GenericDatumWriter::builder(&schema).build().unwrap();
                let mut s = sink.clone();
                results.push(res_n(w.write_value_ref(&mut s, &v)));
            }
            "datum-ser" => {
                let schema = apache_avro::Schema::parse_str(SER_SCHEMA).unwrap();
                let n = p[0].as_u64().unwrap_or(0);
                let bs = p.get(1).and_then(|x| x.as_u64()).map(|x| x as usize);
                let w = GenericDatumWriter::builder(&schema).maybe_target_block_size(bs).build().unwrap();
                let mut s = sink.clone();
                results.push(res_n(w.write_ser(&mut s, &ser_value(n))));
            }
            "so-typed" => {
                // (so-typed N...) : SpecificSingleObjectWriter::<SerRec>::write_ref for each N on one sink (header, then the
                // serializer's pieces); write_avro_datum_ref for the datum alone when N is odd
                impl apache_avro::AvroSchema for SerRec {
                    fn get_schema() -> apache_avro::Schema {
                        apache_avro::Schema::parse_str(SER_SCHEMA).unwrap()
                    }
                }
                let w = apache_avro::SpecificSingleObjectWriter::<SerRec>::new().unwrap();
                let mut s = sink.clone();
                for nx in p {
                    let n = nx.as_u64().unwrap_or(0);
                    results.push(res_n(w.write_ref(&ser_value(n), &mut s)));
                    marks.push(sink.0.borrow().data.len());
                }
            }
            "datum-ser2" => {
                let schema = apache_avro::Schema::parse_str(SER_OUT_SCHEMA).unwrap();
                let n = p[0].as_u64().unwrap_or(0);
                let w = GenericDatumWriter::builder(&schema).build().unwrap();
                let mut s = sink.clone();
                results.push(res_n(w.write_ser(&mut s, &ser_out_value(n))));
            }
            "so" => {
                let schema = match parse_schema(&p[0]) {
                    Ok(s) => s,
                    Err(e) => return e,
                };
                let mut w = GenericSingleObjectWriter::new_with_capacity(&schema, 16).unwrap();
                let mut s = sink.clone();
                for vx in &p[1..] {
                    let v = match sexp_to_value(vx) {
                        Ok(v) => v,
                        Err(e) => return bad(&e),
                    };
                    results.push(res_n(w.write_value_ref(&v, &mut s)));
                    marks.push(sink.0.borrow().data.len());
                }
            }
            "container" => {
                // (container #schema codec block_size #marker OP...)
                let schema = match parse_schema(&p[0]) {
                    Ok(s) => s,
                    Err(e) => return e,
                };
                let codec = match &p[1] {
                    Sexp::Sym(s) => match codec_of(s) {
                        Some(c) => c,
                        None => return bad("codec"),
                    },
                    _ => return bad("codec"),
                };
                let bsz = p[2].as_u64().unwrap_or(16000) as usize;
                let mut marker = [0u8; 16];
                marker.copy_from_slice(p[3].as_hex().unwrap_or(&[0u8; 16]));
                let mut w = Some(
                    Writer::builder()
                        .schema(&schema)
                        .writer(sink.clone())
                        .codec(codec)
                        .block_size(bsz)
                        .marker(marker)
                        .build()
                        .unwrap(),
                );
                for op in &p[4..] {
                    let Some((ot, oa)) = op.tagged() else { return bad("op") };
                    match ot {
                        "append" => {
                            let v = match sexp_to_value(&oa[0]) {
                                Ok(v) => v,
                                Err(e) => return bad(&e),
                            };
                            if let Some(w) = w.as_mut() {
                                results.push(res_n(w.append_value_ref(&v)));
                            }
                        }
                        "append-ser" => {
                            if let Some(w) = w.as_mut() {
                                results.push(res_n(w.append_ser(ser_value(oa[0].as_u64().unwrap_or(0)))));
                            }
                        }
                        "flush" => {
                            if let Some(w) = w.as_mut() {
                                results.push(res_n(w.flush()));
                            }
                        }
                        "finish" => {
                            if let Some(wr) = w.take() {
                                results.push(match wr.into_inner() {
                                    Ok(_) => ok(vec![]),
                                    Err(_) => err(),
                                });
                            }
                        }
                        "drop" => {
                            drop(w.take());
                            results.push(ok(vec![]));
                        }
                        _ => return bad("container op"),
                    }
                }
                drop(w);
            }
            _ => return bad("scenario tag"),
        }
        Sexp::tag("done", vec![])
    });
    if !matches!(out.tagged(), Some(("done", _))) {
        return Sexp::tag("obs", vec![out, Sexp::tag("results", results)]);
    }
    let data = sink.0.borrow().data.clone();
    let calls: Vec<Sexp> = sink.1.borrow().iter().map(|n| Sexp::num(*n as u64)).collect();
    let flushes = sink.0.borrow().flushes;
    Sexp::tag(
        "obs",
        vec![
            Sexp::tag("done", vec![]),
            Sexp::tag("results", results),
            Sexp::hex(&data),
            Sexp::tag("calls", calls),
            Sexp::num(flushes as u64),
            Sexp::tag("marks", marks.iter().map(|n| Sexp::num(*n as u64)).collect()),
        ],
    )
}
