//! Conversions between the neutral terms and apache_avro data.
use crate::sexp::Sexp;
use apache_avro::schema::{
    Alias, DecimalSchema, EnumSchema, FixedSchema, InnerDecimalSchema, Name, RecordField,
    RecordSchema, Schema, UuidSchema,
};
use apache_avro::types::Value;
use apache_avro::{Days, Decimal, Duration, Millis, Months};
use bigdecimal::BigDecimal;
use num_bigint::BigInt;
use std::collections::{BTreeMap, HashMap};

pub fn json_to_sexp(j: &serde_json::Value) -> Sexp {
    use serde_json::Value as J;
    match j {
        J::Null => Sexp::tag("jnull", vec![]),
        J::Bool(b) => Sexp::tag("jbool", vec![Sexp::num(*b as i64)]),
        J::Number(n) => {
            if let Some(u) = n.as_u64() {
                Sexp::tag("jint", vec![Sexp::num(u)])
            } else if let Some(i) = n.as_i64() {
                Sexp::tag("jint", vec![Sexp::num(i)])
            } else {
                Sexp::tag("jfloat", vec![Sexp::num(n.as_f64().unwrap().to_bits())])
            }
        }
        J::String(s) => Sexp::tag("jstr", vec![Sexp::hex(s.as_bytes())]),
        J::Array(a) => Sexp::tag("jarr", a.iter().map(json_to_sexp).collect()),
        J::Object(o) => Sexp::tag(
            "jobj",
            o.iter()
                .map(|(k, v)| Sexp::tag("kv", vec![Sexp::hex(k.as_bytes()), json_to_sexp(v)]))
                .collect(),
        ),
    }
}

fn opt_str(o: &Option<String>) -> Sexp {
    match o {
        None => Sexp::none(),
        Some(s) => Sexp::some(Sexp::hex(s.as_bytes())),
    }
}

pub fn name_to_sexp(n: &Name) -> Sexp {
    let ns = match n.namespace() {
        None => Sexp::none(),
        Some(s) => Sexp::some(Sexp::hex(s.as_bytes())),
    };
    Sexp::tag("name", vec![ns, Sexp::hex(n.name().as_bytes())])
}

fn alias_to_sexp(a: &Alias) -> Sexp {
    let ns = match a.namespace() {
        None => Sexp::none(),
        Some(s) => Sexp::some(Sexp::hex(s.as_bytes())),
    };
    Sexp::tag("name", vec![ns, Sexp::hex(a.name().as_bytes())])
}

fn aliases_to_sexp(a: &Option<Vec<Alias>>) -> Sexp {
    match a {
        None => Sexp::none(),
        Some(v) => Sexp::tag("some", v.iter().map(alias_to_sexp).collect()),
    }
}

fn attrs_to_sexp(a: &BTreeMap<String, serde_json::Value>) -> Sexp {
    Sexp::tag(
        "attrs",
        a.iter()
            .map(|(k, v)| Sexp::tag("kv", vec![Sexp::hex(k.as_bytes()), json_to_sexp(v)]))
            .collect(),
    )
}

fn fixed_to_sexp(f: &FixedSchema) -> Sexp {
    Sexp::tag(
        "fixed",
        vec![
            name_to_sexp(&f.name),
            aliases_to_sexp(&f.aliases),
            opt_str(&f.doc),
            Sexp::num(f.size as u64),
            attrs_to_sexp(&f.attributes),
        ],
    )
}

fn field_to_sexp(f: &RecordField) -> Sexp {
    Sexp::tag(
        "field",
        vec![
            Sexp::hex(f.name.as_bytes()),
            opt_str(&f.doc),
            Sexp::tag("aliases", f.aliases.iter().map(|a| Sexp::hex(a.as_bytes())).collect()),
            match &f.default {
                None => Sexp::none(),
                Some(j) => Sexp::some(json_to_sexp(j)),
            },
            schema_to_sexp(&f.schema),
            attrs_to_sexp(&f.custom_attributes),
        ],
    )
}

pub fn schema_to_sexp(s: &Schema) -> Sexp {
    let t0 = |t: &str| Sexp::tag(t, vec![]);
    match s {
        Schema::Null => t0("null"),
        Schema::Boolean => t0("boolean"),
        Schema::Int => t0("int"),
        Schema::Long => t0("long"),
        Schema::Float => t0("float"),
        Schema::Double => t0("double"),
        Schema::Bytes => t0("bytes"),
        Schema::String => t0("string"),
        Schema::Array(a) => Sexp::tag("array", vec![schema_to_sexp(&a.items), attrs_to_sexp(&a.attributes)]),
        Schema::Map(m) => Sexp::tag("map", vec![schema_to_sexp(&m.types), attrs_to_sexp(&m.attributes)]),
        Schema::Union(u) => Sexp::tag("union", u.variants().iter().map(schema_to_sexp).collect()),
        Schema::Record(RecordSchema { name, aliases, doc, fields, attributes, .. }) => Sexp::tag(
            "record",
            vec![
                name_to_sexp(name),
                aliases_to_sexp(aliases),
                opt_str(doc),
                Sexp::tag("fields", fields.iter().map(field_to_sexp).collect()),
                attrs_to_sexp(attributes),
            ],
        ),
        Schema::Enum(EnumSchema { name, aliases, doc, symbols, default, attributes }) => Sexp::tag(
            "enum",
            vec![
                name_to_sexp(name),
                aliases_to_sexp(aliases),
                opt_str(doc),
                Sexp::tag("symbols", symbols.iter().map(|x| Sexp::hex(x.as_bytes())).collect()),
                opt_str(default),
                attrs_to_sexp(attributes),
            ],
        ),
        Schema::Fixed(f) => fixed_to_sexp(f),
        Schema::Decimal(DecimalSchema { precision, scale, inner }) => Sexp::tag(
            "decimal",
            vec![
                Sexp::num(*precision as u64),
                Sexp::num(*scale as u64),
                match inner {
                    InnerDecimalSchema::Bytes => t0("bytes"),
                    InnerDecimalSchema::Fixed(f) => fixed_to_sexp(f),
                },
            ],
        ),
        Schema::BigDecimal => t0("bigdecimal"),
        Schema::Uuid(u) => Sexp::tag(
            "uuid",
            vec![match u {
                UuidSchema::String => t0("string"),
                UuidSchema::Bytes => t0("bytes"),
                UuidSchema::Fixed(f) => fixed_to_sexp(f),
            }],
        ),
        Schema::Date => t0("date"),
        Schema::TimeMillis => t0("time-millis"),
        Schema::TimeMicros => t0("time-micros"),
        Schema::TimestampMillis => t0("timestamp-millis"),
        Schema::TimestampMicros => t0("timestamp-micros"),
        Schema::TimestampNanos => t0("timestamp-nanos"),
        Schema::LocalTimestampMillis => t0("local-timestamp-millis"),
        Schema::LocalTimestampMicros => t0("local-timestamp-micros"),
        Schema::LocalTimestampNanos => t0("local-timestamp-nanos"),
        Schema::Duration(f) => Sexp::tag("duration", vec![fixed_to_sexp(f)]),
        Schema::Ref { name } => Sexp::tag("ref", vec![name_to_sexp(name)]),
    }
}

/// Decimal -> its len-byte two's-complement representation (empty when len = 0)
pub fn decimal_bytes(d: &Decimal) -> Vec<u8> {
    <Vec<u8>>::try_from(d).unwrap_or_default()
}

pub fn value_to_sexp(v: &Value) -> Sexp {
    let z1 = |t: &str, z: i64| Sexp::tag(t, vec![Sexp::num(z)]);
    match v {
        Value::Null => Sexp::tag("null", vec![]),
        Value::Boolean(b) => z1("boolean", *b as i64),
        Value::Int(i) => z1("int", *i as i64),
        Value::Long(i) => z1("long", *i),
        Value::Float(x) => Sexp::tag("float", vec![Sexp::num(x.to_bits())]),
        Value::Double(x) => Sexp::tag("double", vec![Sexp::num(x.to_bits())]),
        Value::Bytes(b) => Sexp::tag("bytes", vec![Sexp::hex(b)]),
        Value::String(s) => Sexp::tag("string", vec![Sexp::hex(s.as_bytes())]),
        Value::Fixed(n, b) => Sexp::tag("fixed", vec![Sexp::num(*n as u64), Sexp::hex(b)]),
        Value::Enum(i, s) => Sexp::tag("enum", vec![Sexp::num(*i), Sexp::hex(s.as_bytes())]),
        Value::Union(i, x) => Sexp::tag("union", vec![Sexp::num(*i), value_to_sexp(x)]),
        Value::Array(l) => Sexp::tag("array", l.iter().map(value_to_sexp).collect()),
        Value::Map(m) => Sexp::tag(
            "map",
            m.iter()
                .map(|(k, x)| Sexp::tag("kv", vec![Sexp::hex(k.as_bytes()), value_to_sexp(x)]))
                .collect(),
        ),
        Value::Record(l) => Sexp::tag(
            "record",
            l.iter()
                .map(|(k, x)| Sexp::tag("kv", vec![Sexp::hex(k.as_bytes()), value_to_sexp(x)]))
                .collect(),
        ),
        Value::Date(i) => z1("date", *i as i64),
        Value::Decimal(d) => Sexp::tag("decimal", vec![Sexp::hex(&decimal_bytes(d))]),
        Value::BigDecimal(b) => {
            let (u, sc) = b.as_bigint_and_exponent();
            Sexp::tag("bigdecimal", vec![Sexp::hex(&u.to_signed_bytes_be()), Sexp::num(sc)])
        }
        Value::TimeMillis(i) => z1("time-millis", *i as i64),
        Value::TimeMicros(i) => z1("time-micros", *i),
        Value::TimestampMillis(i) => z1("timestamp-millis", *i),
        Value::TimestampMicros(i) => z1("timestamp-micros", *i),
        Value::TimestampNanos(i) => z1("timestamp-nanos", *i),
        Value::LocalTimestampMillis(i) => z1("local-timestamp-millis", *i),
        Value::LocalTimestampMicros(i) => z1("local-timestamp-micros", *i),
        Value::LocalTimestampNanos(i) => z1("local-timestamp-nanos", *i),
        Value::Duration(d) => Sexp::tag(
            "duration",
            vec![
                Sexp::num(u32::from(d.months())),
                Sexp::num(u32::from(d.days())),
                Sexp::num(u32::from(d.millis())),
            ],
        ),
        Value::Uuid(u) => Sexp::tag("uuid", vec![Sexp::hex(u.as_bytes())]),
    }
}

pub fn sexp_to_value(x: &Sexp) -> Result<Value, String> {
    let (t, a) = x.tagged().ok_or("value: not tagged")?;
    let i64_1 = || a.first().and_then(|n| n.as_i64()).ok_or(format!("{t}: i64 expected"));
    let i32_1 = || i64_1().and_then(|z| i32::try_from(z).map_err(|e| e.to_string()));
    let hex_at = |i: usize| a.get(i).and_then(|n| n.as_hex()).ok_or(format!("{t}: hex expected"));
    let str_at = |i: usize| a.get(i).and_then(|n| n.as_str_utf8()).ok_or(format!("{t}: utf8 expected"));
    let kvs = || -> Result<Vec<(String, Value)>, String> {
        a.iter()
            .map(|kv| {
                let (_, p) = kv.tagged().ok_or("kv expected")?;
                let k = p.first().and_then(|n| n.as_str_utf8()).ok_or("kv key")?;
                let v = sexp_to_value(p.get(1).ok_or("kv value")?)?;
                Ok((k, v))
            })
            .collect()
    };
    Ok(match t {
        "null" => Value::Null,
        "boolean" => Value::Boolean(i64_1()? != 0),
        "int" => Value::Int(i32_1()?),
        "long" => Value::Long(i64_1()?),
        "float" => Value::Float(f32::from_bits(a[0].as_u64().ok_or("float bits")? as u32)),
        "double" => Value::Double(f64::from_bits(a[0].as_u64().ok_or("double bits")?)),
        "bytes" => Value::Bytes(hex_at(0)?.to_vec()),
        "string" => Value::String(str_at(0)?),
        "fixed" => Value::Fixed(a[0].as_u64().ok_or("fixed n")? as usize, hex_at(1)?.to_vec()),
        "enum" => Value::Enum(a[0].as_u64().ok_or("enum i")? as u32, str_at(1)?),
        "union" => Value::Union(
            a[0].as_u64().ok_or("union i")? as u32,
            Box::new(sexp_to_value(a.get(1).ok_or("union v")?)?),
        ),
        "array" => Value::Array(a.iter().map(sexp_to_value).collect::<Result<_, _>>()?),
        "map" => Value::Map(kvs()?.into_iter().collect::<HashMap<_, _>>()),
        "record" => Value::Record(kvs()?),
        "date" => Value::Date(i32_1()?),
        "decimal" => Value::Decimal(Decimal::from(hex_at(0)?)),
        "bigdecimal" => Value::BigDecimal(BigDecimal::new(
            BigInt::from_signed_bytes_be(hex_at(0)?),
            a.get(1).and_then(|n| n.as_i64()).ok_or("scale")?,
        )),
        "time-millis" => Value::TimeMillis(i32_1()?),
        "time-micros" => Value::TimeMicros(i64_1()?),
        "timestamp-millis" => Value::TimestampMillis(i64_1()?),
        "timestamp-micros" => Value::TimestampMicros(i64_1()?),
        "timestamp-nanos" => Value::TimestampNanos(i64_1()?),
        "local-timestamp-millis" => Value::LocalTimestampMillis(i64_1()?),
        "local-timestamp-micros" => Value::LocalTimestampMicros(i64_1()?),
        "local-timestamp-nanos" => Value::LocalTimestampNanos(i64_1()?),
        "duration" => {
            let g = |i: usize| a.get(i).and_then(|n| n.as_u64()).ok_or("duration field").map(|x| x as u32);
            Value::Duration(Duration::new(Months::new(g(0)?), Days::new(g(1)?), Millis::new(g(2)?)))
        }
        "uuid" => Value::Uuid(uuid::Uuid::from_slice(hex_at(0)?).map_err(|e| e.to_string())?),
        _ => return Err(format!("unknown value tag {t}")),
    })
}

/// Structural equality of two values with floats compared by bit pattern (NaN equals the same NaN) and
/// maps compared by key.
pub fn same_value(a: &Value, b: &Value) -> bool {
    match (a, b) {
        (Value::Float(x), Value::Float(y)) => x.to_bits() == y.to_bits(),
        (Value::Double(x), Value::Double(y)) => x.to_bits() == y.to_bits(),
        (Value::Union(i, x), Value::Union(j, y)) => i == j && same_value(x, y),
        (Value::Array(x), Value::Array(y)) => x.len() == y.len() && x.iter().zip(y).all(|(p, q)| same_value(p, q)),
        (Value::Map(x), Value::Map(y)) => {
            x.len() == y.len() && x.iter().all(|(k, p)| y.get(k).is_some_and(|q| same_value(p, q)))
        }
        (Value::Record(x), Value::Record(y)) => {
            x.len() == y.len() && x.iter().zip(y).all(|((k, p), (l, q))| k == l && same_value(p, q))
        }
        _ => a == b,
    }
}
