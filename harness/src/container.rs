//! Container-file cases: writer histories and reading (possibly damaged) files.
use crate::conv::*;
use crate::ops::{bad, err, guarded, ok, parse_schema};
use crate::sexp::Sexp;
use apache_avro::writer::Clearable;
use apache_avro::{Codec, Reader, Schema, Writer};
use std::cell::RefCell;
use std::io::Write;
use std::rc::Rc;

/// A sink that stays observable after the writer is consumed or dropped.
#[derive(Clone)]
pub struct SharedSink(pub Rc<RefCell<Vec<u8>>>);
impl Write for SharedSink {
    fn write(&mut self, buf: &[u8]) -> std::io::Result<usize> {
        self.0.borrow_mut().extend_from_slice(buf);
        Ok(buf.len())
    }
    fn flush(&mut self) -> std::io::Result<()> {
        Ok(())
    }
}
impl Clearable for SharedSink {
    fn clear(&mut self) {
        self.0.borrow_mut().clear();
    }
}

pub fn codec_of(name: &str) -> Option<Codec> {
    // "name:level" selects an explicit compression level (written to the header for bzip2 / xz / zstandard)
    if let Some((base, lv)) = name.split_once(':') {
        let lv: u8 = lv.parse().ok()?;
        return Some(match base {
            "deflate" => {
                use miniz_oxide::deflate::CompressionLevel as L;
                Codec::Deflate(apache_avro::DeflateSettings::new(match lv {
                    0 => L::NoCompression,
                    1 => L::BestSpeed,
                    9 => L::BestCompression,
                    10 => L::UberCompression,
                    _ => L::DefaultLevel,
                }))
            }
            "bzip2" => Codec::Bzip2(apache_avro::Bzip2Settings::new(lv.clamp(1, 9))),
            "xz" => Codec::Xz(apache_avro::XzSettings::new(lv.min(9))),
            "zstandard" => Codec::Zstandard(apache_avro::ZstandardSettings::new(lv.min(22))),
            _ => return None,
        });
    }
    Some(match name {
        "null" => Codec::Null,
        "deflate" => Codec::Deflate(Default::default()),
        "snappy" => Codec::Snappy,
        "bzip2" => Codec::Bzip2(Default::default()),
        "xz" => Codec::Xz(Default::default()),
        "zstandard" => Codec::Zstandard(Default::default()),
        _ => return None,
    })
}

/// serde counterparts of the record family of C03 (schema P: a long, s string, n ["null","long"])
#[derive(serde::Serialize)]
struct SerP {
    a: i64,
    s: String,
    n: Option<i64>,
}
/// second field of the wrong type: the first field is encoded before the error is detected
#[derive(serde::Serialize)]
struct BadP {
    a: i64,
    s: i64,
}

fn res(r: Result<(), ()>) -> Sexp {
    match r {
        Ok(()) => ok(vec![]),
        Err(()) => err(),
    }
}

pub fn cfile(a: &[Sexp]) -> Sexp {
    if a.len() < 4 {
        return bad("arity");
    }
    let schema = match parse_schema(&a[0]) {
        Ok(s) => s,
        Err(e) => return e,
    };
    let codec_name = match &a[1] {
        Sexp::Sym(s) => s.clone(),
        _ => return bad("codec"),
    };
    let Some(codec) = codec_of(&codec_name) else { return bad("codec name") };
    let block_size = a[2].as_u64().unwrap_or(16000) as usize;
    let marker_v = a[3].as_hex().unwrap_or(&[]).to_vec();
    if marker_v.len() != 16 {
        return bad("marker");
    }
    let mut marker = [0u8; 16];
    marker.copy_from_slice(&marker_v);
    let ops = &a[4..];
    guarded(move || run_history(&schema, codec, block_size, marker, ops))
}

fn run_history(schema: &Schema, codec: Codec, block_size: usize, marker: [u8; 16], ops: &[Sexp]) -> Sexp {
    let sink = SharedSink(Rc::new(RefCell::new(Vec::new())));
    let mut results: Vec<Sexp> = Vec::new();
    let mut writer: Option<Writer<SharedSink>> = match Writer::builder()
        .schema(schema)
        .writer(sink.clone())
        .codec(codec)
        .block_size(block_size)
        .marker(marker)
        .build()
    {
        Ok(w) => Some(w),
        Err(_) => return Sexp::tag("writer-err", vec![]),
    };
    // the marker in force (reset draws a new random one: recovered from the sink afterwards)
    let mut cur_marker = marker;
    for op in ops {
        let Some((t, p)) = op.tagged() else { return bad("op") };
        match t {
            "append" | "append-unvalidated" | "append-owned" | "append-unvalidated-owned" => {
                let v = match sexp_to_value(&p[0]) {
                    Ok(v) => v,
                    Err(e) => return bad(&e),
                };
                let Some(w) = writer.as_mut() else { results.push(Sexp::tag("no-writer", vec![])); continue };
                let r = match t {
                    "append" => w.append_value_ref(&v),
                    "append-owned" => w.append_value(v.clone()),
                    "append-unvalidated-owned" => w.unvalidated_append_value(v.clone()),
                    _ => w.unvalidated_append_value_ref(&v),
                };
                results.push(match r {
                    Ok(_) => ok(vec![value_to_sexp(&v)]),
                    Err(_) => Sexp::tag("err", vec![value_to_sexp(&v)]),
                });
            }
            "append-ser" => {
                // (append-ser a #s n|(none)) : Writer::append_ser of a struct matching schema P
                let Some(w) = writer.as_mut() else { results.push(Sexp::tag("no-writer", vec![])); continue };
                let a = p[0].as_i64().unwrap_or(0);
                let st = p[1].as_str_utf8().unwrap_or_default();
                let n = p.get(2).and_then(|x| x.as_i64());
                let v = apache_avro::types::Value::Record(vec![
                    ("a".into(), apache_avro::types::Value::Long(a)),
                    ("s".into(), apache_avro::types::Value::String(st.clone())),
                    (
                        "n".into(),
                        match n {
                            Some(k) => apache_avro::types::Value::Union(1, Box::new(apache_avro::types::Value::Long(k))),
                            None => apache_avro::types::Value::Union(0, Box::new(apache_avro::types::Value::Null)),
                        },
                    ),
                ]);
                results.push(match w.append_ser(SerP { a, s: st, n }) {
                    Ok(_) => ok(vec![value_to_sexp(&v)]),
                    Err(_) => Sexp::tag("err", vec![value_to_sexp(&v)]),
                });
            }
            "append-ser-bad" => {
                let Some(w) = writer.as_mut() else { results.push(Sexp::tag("no-writer", vec![])); continue };
                let a = p[0].as_i64().unwrap_or(0);
                results.push(match w.append_ser(BadP { a, s: a }) {
                    Ok(_) => ok(vec![]),
                    Err(_) => err(),
                });
            }
            "extend-ser" => {
                // (extend-ser (a #s n|) ...) : Writer::extend_ser of structs matching schema P
                let Some(w) = writer.as_mut() else { results.push(Sexp::tag("no-writer", vec![])); continue };
                let mut structs = Vec::new();
                let mut shown = Vec::new();
                for x in p {
                    let Some((_, q)) = x.tagged() else { return bad("extend-ser item") };
                    let a = q.first().and_then(|y| y.as_i64()).unwrap_or(0);
                    let st = q.get(1).and_then(|y| y.as_str_utf8()).unwrap_or_default();
                    let n = q.get(2).and_then(|y| y.as_i64());
                    shown.push(value_to_sexp(&apache_avro::types::Value::Record(vec![
                        ("a".into(), apache_avro::types::Value::Long(a)),
                        ("s".into(), apache_avro::types::Value::String(st.clone())),
                        (
                            "n".into(),
                            match n {
                                Some(k) => apache_avro::types::Value::Union(1, Box::new(apache_avro::types::Value::Long(k))),
                                None => apache_avro::types::Value::Union(0, Box::new(apache_avro::types::Value::Null)),
                            },
                        ),
                    ])));
                    structs.push(SerP { a, s: st, n });
                }
                results.push(match w.extend_ser(structs) {
                    Ok(_) => ok(shown),
                    Err(_) => Sexp::tag("err", shown),
                });
            }
            "extend" | "extend-iter" => {
                // (extend V...) : Writer::extend_from_slice / Writer::extend (validate each value, then flush)
                let Some(w) = writer.as_mut() else { results.push(Sexp::tag("no-writer", vec![])); continue };
                let mut vs = Vec::new();
                for x in p {
                    match sexp_to_value(x) {
                        Ok(v) => vs.push(v),
                        Err(e) => return bad(&e),
                    }
                }
                let shown: Vec<Sexp> = vs.iter().map(value_to_sexp).collect();
                let r = if t == "extend" { w.extend_from_slice(&vs) } else { w.extend(vs.clone()) };
                results.push(match r {
                    Ok(_) => ok(shown),
                    Err(_) => Sexp::tag("err", shown),
                });
            }
            "flush" => {
                let Some(w) = writer.as_mut() else { results.push(Sexp::tag("no-writer", vec![])); continue };
                results.push(res(w.flush().map(|_| ()).map_err(|_| ())));
            }
            "meta" => {
                let Some(w) = writer.as_mut() else { results.push(Sexp::tag("no-writer", vec![])); continue };
                let k = p[0].as_str_utf8().unwrap_or_default();
                let v = p[1].as_hex().unwrap_or(&[]).to_vec();
                results.push(res(w.add_user_metadata(k, v).map_err(|_| ())));
            }
            "reset" => {
                let Some(w) = writer.as_mut() else { results.push(Sexp::tag("no-writer", vec![])); continue };
                w.reset();
                results.push(ok(vec![]));
            }
            "finish" => {
                let Some(w) = writer.take() else { results.push(Sexp::tag("no-writer", vec![])); continue };
                results.push(res(w.into_inner().map(|_| ()).map_err(|_| ())));
                recover_marker(&sink, &mut cur_marker);
            }
            "drop" => {
                if writer.take().is_none() {
                    results.push(Sexp::tag("no-writer", vec![]));
                    continue;
                }
                results.push(ok(vec![]));
                recover_marker(&sink, &mut cur_marker);
            }
            "reopen" => {
                if writer.is_some() {
                    results.push(Sexp::tag("still-open", vec![]));
                    continue;
                }
                // Writer::append_to_with_codec is exactly this builder call (with the default
                // block size); the configured block size is kept so that one model parameter fits
                match Writer::builder()
                    .schema(schema)
                    .writer(sink.clone())
                    .codec(codec)
                    .block_size(block_size)
                    .marker(cur_marker)
                    .has_header(true)
                    .build()
                {
                    Ok(w) => {
                        writer = Some(w);
                        results.push(ok(vec![]));
                    }
                    Err(_) => results.push(err()),
                }
            }
            _ => return bad("unknown op"),
        }
    }
    drop(writer);
    let bytes = sink.0.borrow().clone();
    Sexp::tag(
        "obs",
        vec![schema_to_sexp(schema), Sexp::tag("results", results), Sexp::hex(&bytes)],
    )
}

/// after a finish the last 16 bytes of a non-empty file are the marker in force
fn recover_marker(sink: &SharedSink, cur: &mut [u8; 16]) {
    let b = sink.0.borrow();
    if b.len() > 16 {
        cur.copy_from_slice(&b[b.len() - 16..]);
    }
}

pub fn cread(a: &[Sexp]) -> Sexp {
    let file = a.first().and_then(|x| x.as_hex()).unwrap_or(&[]).to_vec();
    guarded(move || {
        let reader = match Reader::new(&file[..]) {
            Ok(r) => r,
            Err(_) => return Sexp::tag("obs", vec![Sexp::tag("open-err", vec![]), Sexp::tag("items", vec![])]),
        };
        let schema = schema_to_sexp(reader.writer_schema());
        let mut meta: Vec<(String, Vec<u8>)> =
            reader.user_metadata().iter().map(|(k, v)| (k.clone(), v.clone())).collect();
        meta.sort();
        let meta = Sexp::tag(
            "meta",
            meta.iter().map(|(k, v)| Sexp::tag("kv", vec![Sexp::hex(k.as_bytes()), Sexp::hex(v)])).collect(),
        );
        let mut items = Vec::new();
        let mut n = 0usize;
        for it in reader {
            // only the first 1000 items are kept (the harness must not allocate for a hostile count)
            if n < 1000 {
                match it {
                    Ok(v) => items.push(ok(vec![value_to_sexp(&v)])),
                    Err(_) => items.push(err()),
                }
            } else if it.is_err() {
                items.push(err());
            }
            n += 1;
            // a block of zero-width items may announce any count in a few bytes: stop collecting
            if n > 50_000 {
                items.push(Sexp::tag("runaway", vec![]));
                break;
            }
        }
        // the same file through the deserializing iterator (Reader::into_deser_iter, block.rs read_next_deser):
        // how many items it delivers before the first error, how it ends, and whether anything follows an error
        let deser = match Reader::new(&file[..]) {
            Err(_) => Sexp::tag("open-err", vec![]),
            Ok(r) => {
                let (mut good, mut late, mut end, mut m) = (0u64, 0u64, "clean", 0usize);
                for it in r.into_deser_iter::<crate::universal::Universal>() {
                    match it {
                        Ok(_) if end == "clean" => good += 1,
                        Ok(_) => late += 1,
                        Err(_) => end = "err",
                    }
                    m += 1;
                    if m > 50_000 {
                        end = "runaway";
                        break;
                    }
                }
                Sexp::tag("deser", vec![Sexp::num(good), Sexp::Sym(end.into()), Sexp::num(late)])
            }
        };
        Sexp::tag("obs", vec![ok(vec![schema, meta]), Sexp::tag("items", items), deser])
    })
}
