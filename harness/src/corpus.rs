//! A corpus of Rust types for C16 / C17: each is derived (Serialize, Deserialize, AvroSchema), has a
//! generator driven by a small PRNG, and is run through: derived schema (twice, JSON round trip),
//! schema-aware serializer -> schema-aware deserializer, generic decoder, to_value + generic
//! encoder, container file.
use crate::conv::{schema_to_sexp, value_to_sexp};
use crate::ops::{err, guarded, ok};
use crate::sexp::Sexp;
use apache_avro::{
    AvroSchema, Schema,
    reader::datum::GenericDatumReader,
    writer::datum::GenericDatumWriter,
};
use serde::{Deserialize, Serialize, de::DeserializeOwned};
use std::collections::HashMap;

pub struct Rng(u64);
impl Rng {
    pub fn new(seed: u64) -> Self {
        Rng(seed.wrapping_mul(0x9E3779B97F4A7C15) ^ 0xD1B54A32D192ED03)
    }
    pub fn next(&mut self) -> u64 {
        // splitmix64
        self.0 = self.0.wrapping_add(0x9E3779B97F4A7C15);
        let mut z = self.0;
        z = (z ^ (z >> 30)).wrapping_mul(0xBF58476D1CE4E5B9);
        z = (z ^ (z >> 27)).wrapping_mul(0x94D049BB133111EB);
        z ^ (z >> 31)
    }
    pub fn below(&mut self, n: u64) -> u64 {
        if n == 0 { 0 } else { self.next() % n }
    }
    fn i64(&mut self) -> i64 {
        match self.below(6) {
            0 => 0,
            1 => -1,
            2 => i64::MAX,
            3 => i64::MIN,
            4 => (self.next() % 1000) as i64 - 500,
            _ => self.next() as i64,
        }
    }
    fn string(&mut self) -> String {
        let pool = ["", "a", "hello", "é€😀", "with \"quotes\"", "nul\u{0}byte", "a longer string with some spaces in it"];
        pool[self.below(pool.len() as u64) as usize].to_string()
    }
    fn f64(&mut self) -> f64 {
        match self.below(6) {
            0 => 0.0,
            1 => -0.0,
            2 => 1.5,
            3 => f64::MAX,
            4 => f64::MIN_POSITIVE,
            _ => (self.next() as i64 as f64) / 1024.0,
        }
    }
    fn len(&mut self) -> usize {
        [0usize, 1, 2, 3, 7, 20][self.below(6) as usize]
    }
}

pub trait Gen: Sized {
    fn gen_value(r: &mut Rng, depth: u32) -> Self;
}

#[derive(Debug, Serialize, Deserialize, AvroSchema, Clone, PartialEq)]
pub struct Scalars {
    b: bool,
    i8_: i8,
    i16_: i16,
    i32_: i32,
    i64_: i64,
    u8_: u8,
    u16_: u16,
    u32_: u32,
    f32_: f32,
    f64_: f64,
    c: char,
    s: String,
    o: Option<i32>,
}
impl Gen for Scalars {
    fn gen_value(r: &mut Rng, _d: u32) -> Self {
        Scalars {
            b: r.below(2) == 1,
            i8_: r.i64() as i8,
            i16_: r.i64() as i16,
            i32_: r.i64() as i32,
            i64_: r.i64(),
            u8_: r.next() as u8,
            u16_: r.next() as u16,
            u32_: r.next() as u32,
            f32_: r.f64() as f32,
            f64_: r.f64(),
            c: ['a', 'é', '€', '😀', '\u{0}'][r.below(5) as usize],
            s: r.string(),
            o: if r.below(2) == 0 { None } else { Some(r.i64() as i32) },
        }
    }
}

#[derive(Debug, Serialize, Deserialize, AvroSchema, Clone, PartialEq)]
pub struct Inner {
    id: i64,
    name: String,
}
impl Gen for Inner {
    fn gen_value(r: &mut Rng, _d: u32) -> Self {
        Inner { id: r.i64(), name: r.string() }
    }
}

#[derive(Debug, Serialize, Deserialize, AvroSchema, Clone, PartialEq)]
pub enum Suit {
    Hearts,
    Spades,
    Clubs,
}
impl Gen for Suit {
    fn gen_value(r: &mut Rng, _d: u32) -> Self {
        [Suit::Hearts, Suit::Spades, Suit::Clubs][r.below(3) as usize].clone()
    }
}

#[derive(Debug, Serialize, Deserialize, AvroSchema, Clone, PartialEq)]
pub struct Nested {
    inner: Inner,
    list: Vec<Inner>,
    numbers: Vec<i64>,
    map: HashMap<String, i64>,
    hmap: HashMap<String, Inner>,
    opt: Option<Inner>,
    suit: Suit,
    suits: Vec<Suit>,
    nested_lists: Vec<Vec<i32>>,
    opt_list: Option<Vec<String>>,
}
impl Gen for Nested {
    fn gen_value(r: &mut Rng, d: u32) -> Self {
        let n1 = r.len();
        let n2 = r.len();
        let n3 = r.len().min(3);
        let n4 = r.len().min(3);
        let n5 = r.len().min(7);
        let n6 = r.len().min(3);
        Nested {
            inner: Inner::gen_value(r, d),
            list: (0..n1).map(|_| Inner::gen_value(r, d)).collect(),
            numbers: (0..n2).map(|_| r.i64()).collect(),
            map: (0..n3).map(|i| (format!("k{i}"), r.i64())).collect(),
            hmap: (0..n4).map(|i| (format!("h{i}"), Inner::gen_value(r, d))).collect(),
            opt: if r.below(2) == 0 { None } else { Some(Inner::gen_value(r, d)) },
            suit: Suit::gen_value(r, d),
            suits: (0..n5).map(|_| Suit::gen_value(r, d)).collect(),
            nested_lists: (0..n6).map(|_| { let m = r.len().min(3); (0..m).map(|_| r.i64() as i32).collect() }).collect(),
            opt_list: if r.below(2) == 0 { None } else { let m = r.len().min(3); Some((0..m).map(|_| r.string()).collect()) },
        }
    }
}

#[derive(Debug, Serialize, Deserialize, AvroSchema, Clone, PartialEq)]
#[serde(rename_all = "camelCase")]
#[avro(namespace = "com.example.corpus", doc = "renames, aliases, defaults, skipped fields")]
pub struct Renamed {
    first_field: i32,
    #[serde(rename = "second")]
    second_field: String,
    #[serde(alias = "old_third")]
    third_field: bool,
    #[serde(default)]
    #[avro(default = "7")]
    with_default: i64,
    #[serde(skip)]
    skipped: i32,
    #[avro(doc = "a documented field")]
    documented: Option<String>,
}
impl Gen for Renamed {
    fn gen_value(r: &mut Rng, _d: u32) -> Self {
        Renamed {
            first_field: r.i64() as i32,
            second_field: r.string(),
            third_field: r.below(2) == 1,
            with_default: r.i64(),
            skipped: 0,
            documented: if r.below(2) == 0 { None } else { Some(r.string()) },
        }
    }
}

#[derive(Debug, Serialize, Deserialize, AvroSchema, Clone, PartialEq)]
pub struct Node {
    value: i32,
    label: String,
    next: Option<Box<Node>>,
    children: Vec<Node>,
}
impl Gen for Node {
    fn gen_value(r: &mut Rng, d: u32) -> Self {
        let nc = if d >= 3 { 0 } else { r.below(3) as usize };
        Node {
            value: r.i64() as i32,
            label: r.string(),
            next: if d >= 4 || r.below(2) == 0 { None } else { Some(Box::new(Node::gen_value(r, d + 1))) },
            children: (0..nc).map(|_| Node::gen_value(r, d + 1)).collect(),
        }
    }
}

#[derive(Debug, Serialize, Deserialize, AvroSchema, Clone, PartialEq)]
pub struct Wrap<T: apache_avro::AvroSchemaComponent> {
    x: T,
    xs: Vec<T>,
}
impl<T: Gen + apache_avro::AvroSchemaComponent> Gen for Wrap<T> {
    fn gen_value(r: &mut Rng, d: u32) -> Self {
        let n = r.len().min(3);
        Wrap { x: T::gen_value(r, d), xs: (0..n).map(|_| T::gen_value(r, d)).collect() }
    }
}

#[derive(Debug, Serialize, Deserialize, AvroSchema, Clone, PartialEq)]
pub enum Shape {
    Empty,
    Circle(f64),
    Rect { w: i32, h: i32 },
    Pair(i32, String),
}
impl Gen for Shape {
    fn gen_value(r: &mut Rng, _d: u32) -> Self {
        match r.below(4) {
            0 => Shape::Empty,
            1 => Shape::Circle(r.f64()),
            2 => Shape::Rect { w: r.i64() as i32, h: r.i64() as i32 },
            _ => Shape::Pair(r.i64() as i32, r.string()),
        }
    }
}

#[derive(Debug, Serialize, Deserialize, AvroSchema, Clone, PartialEq)]
pub struct WithShapes {
    shape: Shape,
    label: String,
}
impl Gen for WithShapes {
    fn gen_value(r: &mut Rng, d: u32) -> Self {
        WithShapes { shape: Shape::gen_value(r, d), label: r.string() }
    }
}

/// the same data enum in two fields
#[derive(Debug, Serialize, Deserialize, AvroSchema, Clone, PartialEq)]
pub struct TwoShapes {
    a: Shape,
    b: Vec<Shape>,
}
impl Gen for TwoShapes {
    fn gen_value(r: &mut Rng, d: u32) -> Self {
        let n = r.len().min(3);
        TwoShapes { a: Shape::gen_value(r, d), b: (0..n).map(|_| Shape::gen_value(r, d)).collect() }
    }
}

/// an optional data enum
#[derive(Debug, Serialize, Deserialize, AvroSchema, Clone, PartialEq)]
pub struct OptShape {
    maybe: Option<Shape>,
}
impl Gen for OptShape {
    fn gen_value(r: &mut Rng, d: u32) -> Self {
        OptShape { maybe: if r.below(2) == 0 { None } else { Some(Shape::gen_value(r, d)) } }
    }
}

/// the same unit enum and the same record in several fields (references after the first use)
#[derive(Debug, Serialize, Deserialize, AvroSchema, Clone, PartialEq)]
#[avro(namespace = "ns.reuse")]
pub struct Reuse {
    s1: Suit,
    s2: Suit,
    i1: Inner,
    i2: Option<Inner>,
    many: Vec<Inner>,
    by_name: HashMap<String, Suit>,
}
impl Gen for Reuse {
    fn gen_value(r: &mut Rng, d: u32) -> Self {
        let n = r.len().min(3);
        let m = r.len().min(3);
        Reuse {
            s1: Suit::gen_value(r, d),
            s2: Suit::gen_value(r, d),
            i1: Inner::gen_value(r, d),
            i2: if r.below(2) == 0 { None } else { Some(Inner::gen_value(r, d)) },
            many: (0..n).map(|_| Inner::gen_value(r, d)).collect(),
            by_name: (0..m).map(|i| (format!("k{i}"), Suit::gen_value(r, d))).collect(),
        }
    }
}

/// zero-width items: unit values and records without fields in arrays, maps and options
#[derive(Debug, Serialize, Deserialize, AvroSchema, Clone, PartialEq)]
pub struct Nothing {}
impl Gen for Nothing {
    fn gen_value(_r: &mut Rng, _d: u32) -> Self {
        Nothing {}
    }
}
#[derive(Debug, Serialize, Deserialize, AvroSchema, Clone, PartialEq)]
pub struct Units {
    before: i32,
    units: Vec<()>,
    empties: Vec<Nothing>,
    by_key: HashMap<String, Nothing>,
    maybe: Option<Nothing>,
    after: String,
}
impl Gen for Units {
    fn gen_value(r: &mut Rng, _d: u32) -> Self {
        let a = r.len();
        let b = r.len();
        let c = r.len().min(3);
        Units {
            before: r.i64() as i32,
            units: vec![(); a],
            empties: vec![Nothing {}; b],
            by_key: (0..c).map(|i| (format!("k{i}"), Nothing {})).collect(),
            maybe: if r.below(2) == 0 { None } else { Some(Nothing {}) },
            after: r.string(),
        }
    }
}

/// a record with exactly one field, for 1-tuples and 1-arrays (which are transparent)
#[derive(Debug, Serialize, Deserialize, AvroSchema, Clone, PartialEq)]
pub struct Single {
    only: i64,
}
impl Gen for Single {
    fn gen_value(r: &mut Rng, _d: u32) -> Self {
        Single { only: r.i64() }
    }
}
#[derive(Debug, Serialize, Deserialize, AvroSchema, Clone, PartialEq)]
pub struct Link {
    next: Option<Box<Link>>,
}
impl Gen for Link {
    fn gen_value(r: &mut Rng, d: u32) -> Self {
        Link { next: if d >= 4 || r.below(3) == 0 { None } else { Some(Box::new(Link::gen_value(r, d + 1))) } }
    }
}
impl<T: Gen> Gen for (T,) {
    fn gen_value(r: &mut Rng, d: u32) -> Self {
        (T::gen_value(r, d),)
    }
}
impl<A: Gen, B: Gen> Gen for (A, B) {
    fn gen_value(r: &mut Rng, d: u32) -> Self {
        (A::gen_value(r, d), B::gen_value(r, d))
    }
}
impl<T: Gen> Gen for [T; 1] {
    fn gen_value(r: &mut Rng, d: u32) -> Self {
        [T::gen_value(r, d)]
    }
}
impl<T: Gen> Gen for [T; 3] {
    fn gen_value(r: &mut Rng, d: u32) -> Self {
        [T::gen_value(r, d), T::gen_value(r, d), T::gen_value(r, d)]
    }
}
impl<T: Gen> Gen for Vec<T> {
    fn gen_value(r: &mut Rng, d: u32) -> Self {
        let n = r.len().min(7);
        (0..n).map(|_| T::gen_value(r, d)).collect()
    }
}
impl Gen for () {
    fn gen_value(_r: &mut Rng, _d: u32) -> Self {}
}
impl Gen for i32 {
    fn gen_value(r: &mut Rng, _d: u32) -> Self {
        r.i64() as i32
    }
}

// ---- an enum with more symbols than fit a one-byte zig-zag index (64 and above need two bytes)
#[derive(Debug, Serialize, Deserialize, AvroSchema, Clone, PartialEq)]
pub enum Many { V000, V001, V002, V003, V004, V005, V006, V007, V008, V009, V010, V011, V012, V013, V014, V015, V016, V017, V018, V019, V020, V021, V022, V023, V024, V025, V026, V027, V028, V029, V030, V031, V032, V033, V034, V035, V036, V037, V038, V039, V040, V041, V042, V043, V044, V045, V046, V047, V048, V049, V050, V051, V052, V053, V054, V055, V056, V057, V058, V059, V060, V061, V062, V063, V064, V065, V066, V067, V068, V069, V070, V071, V072, V073, V074, V075, V076, V077, V078, V079, V080, V081, V082, V083, V084, V085, V086, V087, V088, V089, V090, V091, V092, V093, V094, V095, V096, V097, V098, V099, V100, V101, V102, V103, V104, V105, V106, V107, V108, V109, V110, V111, V112, V113, V114, V115, V116, V117, V118, V119, V120, V121, V122, V123, V124, V125, V126, V127, V128, V129 }
const MANY_ALL: [Many; 130] = [Many::V000, Many::V001, Many::V002, Many::V003, Many::V004, Many::V005, Many::V006, Many::V007, Many::V008, Many::V009, Many::V010, Many::V011, Many::V012, Many::V013, Many::V014, Many::V015, Many::V016, Many::V017, Many::V018, Many::V019, Many::V020, Many::V021, Many::V022, Many::V023, Many::V024, Many::V025, Many::V026, Many::V027, Many::V028, Many::V029, Many::V030, Many::V031, Many::V032, Many::V033, Many::V034, Many::V035, Many::V036, Many::V037, Many::V038, Many::V039, Many::V040, Many::V041, Many::V042, Many::V043, Many::V044, Many::V045, Many::V046, Many::V047, Many::V048, Many::V049, Many::V050, Many::V051, Many::V052, Many::V053, Many::V054, Many::V055, Many::V056, Many::V057, Many::V058, Many::V059, Many::V060, Many::V061, Many::V062, Many::V063, Many::V064, Many::V065, Many::V066, Many::V067, Many::V068, Many::V069, Many::V070, Many::V071, Many::V072, Many::V073, Many::V074, Many::V075, Many::V076, Many::V077, Many::V078, Many::V079, Many::V080, Many::V081, Many::V082, Many::V083, Many::V084, Many::V085, Many::V086, Many::V087, Many::V088, Many::V089, Many::V090, Many::V091, Many::V092, Many::V093, Many::V094, Many::V095, Many::V096, Many::V097, Many::V098, Many::V099, Many::V100, Many::V101, Many::V102, Many::V103, Many::V104, Many::V105, Many::V106, Many::V107, Many::V108, Many::V109, Many::V110, Many::V111, Many::V112, Many::V113, Many::V114, Many::V115, Many::V116, Many::V117, Many::V118, Many::V119, Many::V120, Many::V121, Many::V122, Many::V123, Many::V124, Many::V125, Many::V126, Many::V127, Many::V128, Many::V129];
impl Gen for Many {
    fn gen_value(r: &mut Rng, _d: u32) -> Self {
        // the boundaries of the index encoding first
        let k = match r.below(4) {
            0 => [0usize, 1, 62, 63, 64, 65, 126, 127, 128, 129][r.below(10) as usize],
            _ => r.below(130) as usize,
        };
        MANY_ALL[k].clone()
    }
}

#[derive(Debug, Serialize, Deserialize, AvroSchema, Clone, PartialEq)]
pub struct WithMany {
    one: Many,
    maybe: Option<Many>,
    list: Vec<Many>,
    map: HashMap<String, Many>,
    tail: i32,
}
impl Gen for WithMany {
    fn gen_value(r: &mut Rng, d: u32) -> Self {
        WithMany {
            one: Many::gen_value(r, d),
            maybe: if r.below(3) == 0 { None } else { Some(Many::gen_value(r, d)) },
            list: (0..r.len()).map(|_| Many::gen_value(r, d)).collect(),
            map: (0..r.len().min(3)).map(|i| (format!("k{i}"), Many::gen_value(r, d))).collect(),
            tail: r.i64() as i32,
        }
    }
}

// ---- fields that serde omits for some values (skip_serializing_if): the serializer writes the schema default,
// written in the schema as an integer literal for floats, as a string, a boolean, a null
fn zero_f64(x: &f64) -> bool {
    *x == 0.0
}
fn zero_f32(x: &f32) -> bool {
    *x == 0.0
}
fn zero_i64(x: &i64) -> bool {
    *x == 0
}
fn is_empty_s(x: &str) -> bool {
    x.is_empty()
}
fn is_false(x: &bool) -> bool {
    !*x
}
#[derive(Debug, Serialize, Deserialize, AvroSchema, Clone, PartialEq)]
pub struct Skipping {
    id: i32,
    #[serde(default, skip_serializing_if = "zero_f64")]
    #[avro(default = "0")]
    ratio: f64,
    #[serde(default, skip_serializing_if = "zero_f32")]
    #[avro(default = "0")]
    small: f32,
    #[serde(default, skip_serializing_if = "zero_i64")]
    #[avro(default = "0")]
    count: i64,
    #[serde(default, skip_serializing_if = "is_empty_s")]
    #[avro(default = r#""""#)]
    note: String,
    #[serde(default, skip_serializing_if = "is_false")]
    #[avro(default = "false")]
    flag: bool,
    #[serde(default, skip_serializing_if = "Option::is_none")]
    #[avro(default = "null")]
    opt: Option<i32>,
    last: String,
}
impl Gen for Skipping {
    fn gen_value(r: &mut Rng, _d: u32) -> Self {
        Skipping {
            id: r.i64() as i32,
            ratio: if r.below(2) == 0 { 0.0 } else { 1.5 },
            small: if r.below(2) == 0 { 0.0 } else { 2.5 },
            count: if r.below(2) == 0 { 0 } else { r.i64() },
            note: if r.below(2) == 0 { String::new() } else { r.string() },
            flag: r.below(2) == 1,
            opt: if r.below(2) == 0 { None } else { Some(r.i64() as i32) },
            last: r.string(),
        }
    }
}

// ---- every serde case rule that yields Avro-legal names, on field names with digits and runs of capitals
macro_rules! cased {
    ($t:ident, $rule:literal) => {
        #[derive(Debug, Serialize, Deserialize, AvroSchema, Clone, PartialEq)]
        #[serde(rename_all = $rule)]
        pub struct $t {
            plain: i32,
            two_words: String,
            with_2_digits: i64,
            x: bool,
            trailing_: i32,
        }
        impl Gen for $t {
            fn gen_value(r: &mut Rng, _d: u32) -> Self {
                $t { plain: r.i64() as i32, two_words: r.string(), with_2_digits: r.i64(), x: r.below(2) == 1, trailing_: r.i64() as i32 }
            }
        }
    };
}
cased!(CasePascal, "PascalCase");
cased!(CaseLower, "lowercase");
cased!(CaseUpper, "UPPERCASE");
cased!(CaseSnake, "snake_case");
cased!(CaseScreaming, "SCREAMING_SNAKE_CASE");
cased!(CaseCamel, "camelCase");

#[derive(Debug, Serialize, Deserialize, AvroSchema, Clone, PartialEq)]
#[serde(rename_all = "lowercase")]
pub enum LowerUnits {
    FirstOne,
    HTTPServer,
    X2,
}
impl Gen for LowerUnits {
    fn gen_value(r: &mut Rng, _d: u32) -> Self {
        [LowerUnits::FirstOne, LowerUnits::HTTPServer, LowerUnits::X2][r.below(3) as usize].clone()
    }
}
#[derive(Debug, Serialize, Deserialize, AvroSchema, Clone, PartialEq)]
#[serde(rename_all = "snake_case")]
pub enum SnakeUnits {
    FirstOne,
    HTTPServer,
    X2,
}
impl Gen for SnakeUnits {
    fn gen_value(r: &mut Rng, _d: u32) -> Self {
        [SnakeUnits::FirstOne, SnakeUnits::HTTPServer, SnakeUnits::X2][r.below(3) as usize].clone()
    }
}

// ---- serde rename rules on enums: a container-wide rule for the fields of struct variants, overridden by a
// variant's own rule; renamed variants
#[derive(Debug, Serialize, Deserialize, AvroSchema, Clone, PartialEq)]
#[serde(rename_all_fields = "SCREAMING_SNAKE_CASE")]
pub enum RenameRules {
    #[serde(rename_all = "camelCase")]
    First { first_value: i32, other_one: String },
    Second { second_value: i64, more_of_it: bool },
    #[serde(rename = "Third_one")]
    Third { plain_name: String },
    Unit,
}
impl Gen for RenameRules {
    fn gen_value(r: &mut Rng, _d: u32) -> Self {
        match r.below(4) {
            0 => RenameRules::First { first_value: r.i64() as i32, other_one: r.string() },
            1 => RenameRules::Second { second_value: r.i64(), more_of_it: r.below(2) == 1 },
            2 => RenameRules::Third { plain_name: r.string() },
            _ => RenameRules::Unit,
        }
    }
}

#[derive(Debug, Serialize, Deserialize, AvroSchema, Clone, PartialEq)]
#[serde(rename_all = "SCREAMING_SNAKE_CASE")]
pub enum KebabUnits {
    FirstOne,
    SecondOne,
    #[serde(rename = "explicit_name")]
    ThirdOne,
}
impl Gen for KebabUnits {
    fn gen_value(r: &mut Rng, _d: u32) -> Self {
        [KebabUnits::FirstOne, KebabUnits::SecondOne, KebabUnits::ThirdOne][r.below(3) as usize].clone()
    }
}

#[derive(Debug, Serialize, Deserialize, AvroSchema, Clone, PartialEq)]
#[serde(rename_all = "SCREAMING_SNAKE_CASE")]
pub struct WithRules {
    the_rules: RenameRules,
    a_unit: KebabUnits,
    many_units: Vec<KebabUnits>,
}
impl Gen for WithRules {
    fn gen_value(r: &mut Rng, d: u32) -> Self {
        WithRules { the_rules: RenameRules::gen_value(r, d), a_unit: KebabUnits::gen_value(r, d), many_units: (0..r.len()).map(|_| KebabUnits::gen_value(r, d)).collect() }
    }
}

// ---- struct field order differs from the schema's field order: the record serializer has to hold
// fields back (ser_schema/record).  The schema is given by hand, not derived.
macro_rules! hand_schema {
    ($t:ty, $json:expr) => {
        impl AvroSchema for $t {
            fn get_schema() -> Schema {
                Schema::parse_str($json).expect("hand-written schema of the corpus")
            }
        }
    };
}

// ---- byte strings offered through serialize_bytes (serde_bytes) to a union holding both a fixed and bytes
#[derive(Debug, Serialize, Deserialize, Clone, PartialEq)]
pub struct Blobs {
    #[serde(with = "serde_bytes")]
    payload: Vec<u8>,
    seq: i64,
    #[serde(with = "serde_bytes")]
    raw: Vec<u8>,
}
hand_schema!(Blobs, r#"{"type":"record","name":"Blobs","fields":[{"name":"payload","type":["null",{"type":"fixed","name":"Quad","size":4},"bytes"]},{"name":"seq","type":"long"},{"name":"raw","type":"bytes"}]}"#);
impl Gen for Blobs {
    fn gen_value(r: &mut Rng, _d: u32) -> Self {
        let n = [0usize, 3, 4, 4, 5, 16][r.below(6) as usize];
        Blobs {
            payload: (0..n).map(|_| r.next() as u8).collect(),
            seq: r.i64(),
            raw: (0..r.len()).map(|_| r.next() as u8).collect(),
        }
    }
}
/// the same with the bytes branch first
#[derive(Debug, Serialize, Deserialize, Clone, PartialEq)]
pub struct Blobs2 {
    #[serde(with = "serde_bytes")]
    payload: Vec<u8>,
    seq: i64,
}
hand_schema!(Blobs2, r#"{"type":"record","name":"Blobs2","fields":[{"name":"payload","type":["bytes","null",{"type":"fixed","name":"Quad","size":4}]},{"name":"seq","type":"long"}]}"#);
impl Gen for Blobs2 {
    fn gen_value(r: &mut Rng, _d: u32) -> Self {
        let n = [0usize, 3, 4, 4, 5][r.below(5) as usize];
        Blobs2 { payload: (0..n).map(|_| r.next() as u8).collect(), seq: r.i64() }
    }
}

/// fully reversed
#[derive(Debug, Serialize, Deserialize, Clone, PartialEq)]
pub struct Reversed {
    tags: Vec<String>,
    label: String,
    x: i64,
}
hand_schema!(Reversed, r#"{"type":"record","name":"Reversed","fields":[{"name":"x","type":"long"},{"name":"label","type":"string"},{"name":"tags","type":{"type":"array","items":"string"}}]}"#);
impl Gen for Reversed {
    fn gen_value(r: &mut Rng, _d: u32) -> Self {
        Reversed { tags: (0..r.len()).map(|_| r.string()).collect(), label: r.string(), x: r.i64() }
    }
}

/// reversed, and every schema field has a default (a held-back field must not be replaced by it)
#[derive(Debug, Serialize, Deserialize, Clone, PartialEq)]
pub struct ReversedDefaults {
    tags: Vec<String>,
    label: String,
    x: i64,
}
hand_schema!(ReversedDefaults, r#"{"type":"record","name":"ReversedDefaults","fields":[{"name":"x","type":"long","default":-7},{"name":"label","type":"string","default":"dflt"},{"name":"tags","type":{"type":"array","items":"string"},"default":["d"]}]}"#);
impl Gen for ReversedDefaults {
    fn gen_value(r: &mut Rng, _d: u32) -> Self {
        ReversedDefaults { tags: (0..r.len()).map(|_| r.string()).collect(), label: r.string(), x: r.i64() }
    }
}

/// interleaved: schema order a b c d e
#[derive(Debug, Serialize, Deserialize, Clone, PartialEq)]
pub struct Interleaved {
    b: i32,
    d: String,
    c: Option<i64>,
    a: bool,
    e: Vec<i32>,
}
hand_schema!(Interleaved, r#"{"type":"record","name":"Interleaved","fields":[{"name":"a","type":"boolean"},{"name":"b","type":"int"},{"name":"c","type":["null","long"]},{"name":"d","type":"string"},{"name":"e","type":{"type":"array","items":"int"}}]}"#);
impl Gen for Interleaved {
    fn gen_value(r: &mut Rng, _d: u32) -> Self {
        Interleaved {
            b: r.i64() as i32,
            d: r.string(),
            c: if r.below(2) == 0 { None } else { Some(r.i64()) },
            a: r.below(2) == 1,
            e: (0..r.len()).map(|_| r.i64() as i32).collect(),
        }
    }
}

/// rotated by one, with a nested out-of-order record inside a list
#[derive(Debug, Serialize, Deserialize, Clone, PartialEq)]
pub struct Rotated {
    label: String,
    inner: Vec<Reversed>,
    x: i64,
}
hand_schema!(Rotated, r#"{"type":"record","name":"Rotated","fields":[{"name":"x","type":"long"},{"name":"label","type":"string"},{"name":"inner","type":{"type":"array","items":{"type":"record","name":"Reversed","fields":[{"name":"x","type":"long"},{"name":"label","type":"string"},{"name":"tags","type":{"type":"array","items":"string"}}]}}}]}"#);
impl Gen for Rotated {
    fn gen_value(r: &mut Rng, d: u32) -> Self {
        Rotated { label: r.string(), inner: (0..r.len().min(3)).map(|_| Reversed::gen_value(r, d + 1)).collect(), x: r.i64() }
    }
}

fn same_f<T: PartialEq + std::fmt::Debug>(a: &T, b: &T) -> bool {
    // NaN-free generators: PartialEq is enough
    a == b
}

fn run_type<T>(seed: u64, bs: Option<usize>) -> Sexp
where
    T: Serialize + DeserializeOwned + AvroSchema + PartialEq + std::fmt::Debug + Gen,
{
    let schema: Schema = match std::panic::catch_unwind(T::get_schema) {
        Ok(s) => s,
        Err(_) => return Sexp::tag("schema-panic", vec![]),
    };
    let schema_again: Schema = T::get_schema();
    let json = serde_json::to_string(&schema).unwrap_or_default();
    let reparsed_equal = Schema::parse_str(&json).map(|s| s == schema).unwrap_or(false);
    let mut rng = Rng::new(seed);
    let value = T::gen_value(&mut rng, 0);
    let mut bytes: Vec<u8> = Vec::new();
    let ser = guarded(|| {
        let w = match GenericDatumWriter::builder(&schema).maybe_target_block_size(bs).build() {
            Ok(w) => w,
            Err(_) => return Sexp::tag("writer-err", vec![]),
        };
        match w.write_ser(&mut bytes, &value) {
            Ok(n) => ok(vec![Sexp::num(n as u64)]),
            Err(_) => err(),
        }
    });
    // schema-aware deserializer
    let deser = guarded(|| {
        let r = match GenericDatumReader::builder(&schema).build() {
            Ok(r) => r,
            Err(_) => return Sexp::tag("reader-err", vec![]),
        };
        let mut slice = &bytes[..];
        match r.read_deser::<T>(&mut slice) {
            Ok(back) => ok(vec![Sexp::num(same_f(&back, &value) as i64), Sexp::hex(slice)]),
            Err(_) => err(),
        }
    });
    // generic decoder
    let generic = guarded(|| {
        let r = match GenericDatumReader::builder(&schema).build() {
            Ok(r) => r,
            Err(_) => return Sexp::tag("reader-err", vec![]),
        };
        let mut slice = &bytes[..];
        match r.read_value(&mut slice) {
            Ok(v) => ok(vec![value_to_sexp(&v), Sexp::hex(slice), Sexp::num(v.validate(&schema) as i64)]),
            Err(_) => err(),
        }
    });
    // schema-less generic value, resolved against the schema and encoded
    let tov = guarded(|| match apache_avro::to_value(&value) {
        Ok(v) => {
            let mut b2 = Vec::new();
            let enc = match GenericDatumWriter::builder(&schema).build() {
                Ok(w) => match v.clone().resolve(&schema) {
                    Ok(rv) => match w.write_value_ref(&mut b2, &rv) {
                        Ok(_) => ok(vec![Sexp::hex(&b2)]),
                        Err(_) => err(),
                    },
                    Err(_) => Sexp::tag("resolve-err", vec![]),
                },
                Err(_) => Sexp::tag("writer-err", vec![]),
            };
            ok(vec![value_to_sexp(&v), enc])
        }
        Err(_) => err(),
    });
    // container file
    let container = guarded(|| {
        let mut w = match apache_avro::Writer::builder().schema(&schema).writer(Vec::<u8>::new()).build() {
            Ok(w) => w,
            Err(_) => return Sexp::tag("writer-err", vec![]),
        };
        if w.append_ser(&value).is_err() {
            return Sexp::tag("append-err", vec![]);
        }
        let file = match w.into_inner() {
            Ok(f) => f,
            Err(_) => return Sexp::tag("finish-err", vec![]),
        };
        let r = match apache_avro::Reader::new(&file[..]) {
            Ok(r) => r,
            Err(_) => return Sexp::tag("reader-err", vec![]),
        };
        let mut out = Vec::new();
        for x in r.into_deser_iter::<T>() {
            match x {
                Ok(b) => out.push(Sexp::num(same_f(&b, &value) as i64)),
                Err(_) => out.push(err()),
            }
        }
        Sexp::tag("items", out)
    });
    // the other typed entry points (only without a target block size, where the bytes must be the same):
    // SpecificSingleObjectWriter / Reader, from_value on the generically decoded value, write_avro_datum_ref
    let extra = if bs.is_none() && matches!(ser.tagged(), Some(("ok", _))) {
        guarded(|| {
            let flag = |b: bool| Sexp::num(b as i64);
            let so = match apache_avro::SpecificSingleObjectWriter::<T>::new() {
                Err(_) => Sexp::tag("writer-err", vec![]),
                Ok(w) => {
                    let mut msg: Vec<u8> = Vec::new();
                    match w.write_ref(&value, &mut msg) {
                        Err(_) => err(),
                        Ok(n) => {
                            let hdr = {
                                use apache_avro::headers::{HeaderBuilder, RabinFingerprintHeader};
                                RabinFingerprintHeader::from_schema(&schema).build_header()
                            };
                            let framed = msg.len() >= 10 && msg[0] == 0xC3 && msg[1] == 0x01 && msg[..10] == hdr[..] && msg[10..] == bytes[..];
                            let back = apache_avro::SpecificSingleObjectReader::<T>::new()
                                .and_then(|r| r.read(&mut &msg[..]))
                                .map(|b| same_f(&b, &value));
                            let generic_back = apache_avro::GenericSingleObjectReader::builder()
                                .schema(schema.clone())
                                .build()
                                .and_then(|r| r.read_value(&mut &msg[..]))
                                .is_ok();
                            ok(vec![flag(n == msg.len()), flag(framed), flag(matches!(back, Ok(true))), flag(generic_back)])
                        }
                    }
                }
            };
            let fromv = {
                let r = GenericDatumReader::builder(&schema).build().and_then(|r| r.read_value(&mut &bytes[..]));
                match r {
                    Ok(v) => match apache_avro::from_value::<T>(&v) {
                        Ok(b) => flag(same_f(&b, &value)),
                        Err(_) => err(),
                    },
                    Err(_) => Sexp::tag("decode-err", vec![]),
                }
            };
            let wadr = match apache_avro::schema::ResolvedSchema::try_from(&schema) {
                Err(_) => Sexp::tag("resolve-err", vec![]),
                Ok(rs) => {
                    let mut b2: Vec<u8> = Vec::new();
                    match apache_avro::write_avro_datum_ref(&schema, rs.get_names(), &value, &mut b2) {
                        Ok(n) => ok(vec![flag(n == b2.len()), flag(b2 == bytes)]),
                        Err(_) => err(),
                    }
                }
            };
            // a typed writer built for an explicit schema (the type's own schema published under another namespace):
            // the header must be the fingerprint of THAT schema, and the reader for that schema must read the message
            let so_explicit = match &schema {
                Schema::Record(_) => {
                    let mut js: serde_json::Value = serde_json::from_str(&json).unwrap_or(serde_json::Value::Null);
                    if let Some(m) = js.as_object_mut() {
                        m.insert("namespace".into(), serde_json::Value::String("published.elsewhere".into()));
                    }
                    match Schema::parse_str(&js.to_string()) {
                        Err(_) => Sexp::tag("schema-err", vec![]),
                        Ok(s2) => {
                            use apache_avro::headers::{HeaderBuilder, RabinFingerprintHeader};
                            let want = RabinFingerprintHeader::from_schema(&s2).build_header();
                            let differs = want != RabinFingerprintHeader::from_schema(&schema).build_header();
                            match apache_avro::SpecificSingleObjectWriter::<T>::builder().resolved(s2.clone()).map(|b| b.build()) {
                                Err(_) => Sexp::tag("writer-err", vec![]),
                                Ok(w) => {
                                    let mut msg: Vec<u8> = Vec::new();
                                    match w.write_ref(&value, &mut msg) {
                                        Err(_) => err(),
                                        Ok(_) => {
                                            let header_ok = msg.len() >= want.len() && msg[..want.len()] == want[..];
                                            let reads = apache_avro::GenericSingleObjectReader::builder()
                                                .schema(s2.clone())
                                                .build()
                                                .and_then(|r| r.read_value(&mut &msg[..]))
                                                .is_ok();
                                            ok(vec![flag(differs), flag(header_ok), flag(reads)])
                                        }
                                    }
                                }
                            }
                        }
                    }
                }
                _ => Sexp::tag("skipped", vec![]),
            };
            Sexp::tag("extra", vec![so, fromv, wadr, so_explicit])
        })
    } else {
        Sexp::tag("skipped", vec![])
    };
    Sexp::tag(
        "obs",
        vec![
            schema_to_sexp(&schema),
            Sexp::num((schema == schema_again) as i64),
            Sexp::hex(json.as_bytes()),
            Sexp::num(reparsed_equal as i64),
            Sexp::hex(&bytes),
            ser,
            deser,
            generic,
            tov,
            container,
            extra,
        ],
    )
}

pub const TYPES: &[&str] = &[
    "scalars", "inner", "suit", "nested", "renamed", "node", "wrap-inner", "wrap-suit", "shape", "with-shapes", "two-shapes", "opt-shape", "reuse",
];

/// (serde TYPE SEED BLOCKSIZE|none)
pub fn serde_case(a: &[Sexp]) -> Sexp {
    let name = match a.first() {
        Some(Sexp::Sym(s)) => s.clone(),
        _ => return Sexp::tag("bad-case", vec![]),
    };
    let seed = a.get(1).and_then(|x| x.as_u64()).unwrap_or(0);
    let bs = a.get(2).and_then(|x| x.as_u64()).map(|x| x as usize);
    match name.as_str() {
        "scalars" => run_type::<Scalars>(seed, bs),
        "inner" => run_type::<Inner>(seed, bs),
        "suit" => run_type::<Suit>(seed, bs),
        "nested" => run_type::<Nested>(seed, bs),
        "renamed" => run_type::<Renamed>(seed, bs),
        "node" => run_type::<Node>(seed, bs),
        "wrap-inner" => run_type::<Wrap<Inner>>(seed, bs),
        "wrap-suit" => run_type::<Wrap<Suit>>(seed, bs),
        "shape" => run_type::<Shape>(seed, bs),
        "with-shapes" => run_type::<WithShapes>(seed, bs),
        "two-shapes" => run_type::<TwoShapes>(seed, bs),
        "opt-shape" => run_type::<OptShape>(seed, bs),
        "reuse" => run_type::<Reuse>(seed, bs),
        "units" => run_type::<Units>(seed, bs),
        "vec-unit" => run_type::<Vec<()>>(seed, bs),
        "vec-nothing" => run_type::<Vec<Nothing>>(seed, bs),
        "one-tuple-single" => run_type::<(Single,)>(seed, bs),
        "one-array-single" => run_type::<[Single; 1]>(seed, bs),
        "one-tuple-link" => run_type::<(Link,)>(seed, bs),
        "one-tuple-inner" => run_type::<(Inner,)>(seed, bs),
        "pair" => run_type::<(Inner, Suit)>(seed, bs),
        "array3" => run_type::<[Single; 3]>(seed, bs),
        "one-tuple-int" => run_type::<(i32,)>(seed, bs),
        "case-pascal" => run_type::<CasePascal>(seed, bs),
        "case-lower" => run_type::<CaseLower>(seed, bs),
        "case-upper" => run_type::<CaseUpper>(seed, bs),
        "case-snake" => run_type::<CaseSnake>(seed, bs),
        "case-screaming" => run_type::<CaseScreaming>(seed, bs),
        "case-camel" => run_type::<CaseCamel>(seed, bs),
        "lower-units" => run_type::<LowerUnits>(seed, bs),
        "snake-units" => run_type::<SnakeUnits>(seed, bs),
        "skipping" => run_type::<Skipping>(seed, bs),
        "many" => run_type::<Many>(seed, bs),
        "with-many" => run_type::<WithMany>(seed, bs),
        "rename-rules" => run_type::<RenameRules>(seed, bs),
        "kebab-units" => run_type::<KebabUnits>(seed, bs),
        "with-rules" => run_type::<WithRules>(seed, bs),
        "blobs" => run_type::<Blobs>(seed, bs),
        "blobs2" => run_type::<Blobs2>(seed, bs),
        "reversed" => run_type::<Reversed>(seed, bs),
        "reversed-defaults" => run_type::<ReversedDefaults>(seed, bs),
        "interleaved" => run_type::<Interleaved>(seed, bs),
        "rotated" => run_type::<Rotated>(seed, bs),
        _ => Sexp::tag("bad-case", vec![]),
    }
}
