"""C11 - the schema parser is total and accepts exactly well-formed schemas.
Theorems: coq/Props/C11.v.  Check: arbitrary strings, arbitrary JSON, mutated schemas and generated well-formed schemas
through Schema::parse_str; every accepted schema through canonical form, serialisation, reference resolution, Debug."""
import json
import framework as fw
from rng import Rng
from sx import parse, show, hx, unhx, tag
import schematext
import sj

PROP = 'C11'
THEOREMS = ['C11_names_grammar', 'C11_union_rules', 'C11_enum_rules', 'C11_fixed_rules', 'C11_record_rules',
            'C11_default_conforms', 'C11_duplicate_definition_refuted', 'C11_unresolvable_reference_refuted', 'C11_union_bigdecimal_refuted', 'C11_examples']
RULE = ('texts: arbitrary strings, arbitrary JSON, generated well-formed schema texts and 2 JSON-level mutations of each '
        '(dropped / retyped / added keys, wrong JSON kinds, extreme numbers, duplicated elements). non-trivial = distinct '
        'mutated texts the parser accepts or rejects in agreement with the model')

def gen(tier, seed):
    rng = Rng(seed)
    n = 500 if tier == 'quick' else 15000
    texts, meta = {}, {}
    texts['k0'] = '{"type":"record","name":"R","fields":[{"name":"a","type":{"type":"fixed","name":"F","size":1}},{"name":"b","type":{"type":"fixed","name":"F","size":2}}]}'
    meta['k0'] = 'mutant'
    texts['k1'] = '[{"type":"fixed","name":"F","size":1},{"type":"record","name":"R","namespace":"ns","fields":[{"name":"b","type":".F"}]}]'
    meta['k1'] = 'valid'
    # field names and aliases share one lookup table in the parser: duplicate names around aliases, directly and nested
    fld = lambda name, aliases=None: dict({'name': name, 'type': 'int'}, **({'aliases': aliases} if aliases is not None else {}))
    shapes = [
        [fld('id'), fld('key', ['id']), fld('id')], [fld('id'), fld('id', ['key'])], [fld('key', ['id']), fld('x'), fld('key')],
        [fld('id'), fld('a', ['id']), fld('b', ['id']), fld('id')], [fld('id', ['id2']), fld('k', ['id2', 'id']), fld('id')],
        [fld('a'), fld('b', ['a']), fld('c', ['b']), fld('b')], [fld('a', ['a']), fld('a')],
    ]
    for q, fs in enumerate(shapes):
        rec = {'type': 'record', 'name': 'Dup%d' % q, 'fields': fs}
        texts['ka%d' % q] = json.dumps(rec); meta['ka%d' % q] = 'mutant'
        texts['kb%d' % q] = json.dumps({'type': 'record', 'name': 'Outer', 'fields': [{'name': 'o', 'type': {'type': 'array', 'items': rec}}]})
        meta['kb%d' % q] = 'mutant'
    # the name grammar [A-Za-z_][A-Za-z0-9_]* (dot-separated for full names): letters and digits outside ASCII, signs,
    # empty segments - as type names, namespaces, aliases, references, field names and enum symbols
    odd = ['Caf\u00e9', 'ns.R\u00e9sum\u00e9', 'a\u0661', 'x\u540d\u524d', '\u00e9a', 'a-b', 'a b', '9a', 'a.9b', 'a.', '.a.', 'a..b', 'a\u00b2', 'a\u00aa',
           'ok_1', 'a.b_2.C3', '_', 'a\u200b', 'A\u0301']
    q = 0
    for nm_ in odd:
        for js in ({'type': 'fixed', 'name': nm_, 'size': 1}, {'type': 'enum', 'name': nm_, 'symbols': ['A']},
                   {'type': 'record', 'name': nm_, 'fields': []}, {'type': 'fixed', 'name': 'F', 'namespace': nm_, 'size': 1},
                   {'type': 'fixed', 'name': 'F', 'aliases': [nm_], 'size': 1},
                   {'type': 'record', 'name': 'R', 'fields': [{'name': 'f', 'type': {'type': 'fixed', 'name': 'G', 'size': 1}}, {'name': 'g', 'type': nm_}]},
                   {'type': 'record', 'name': 'R', 'fields': [{'name': nm_, 'type': 'int'}]},
                   {'type': 'record', 'name': 'R', 'fields': [{'name': 'f', 'type': 'int', 'aliases': [nm_]}]},
                   {'type': 'enum', 'name': 'E', 'symbols': ['A', nm_]}):
            texts['kn%d' % q] = json.dumps(js, ensure_ascii=False); meta['kn%d' % q] = 'mutant'; q += 1
    # unions: no two unnamed branches of the same underlying type, a logical type counting as its underlying type
    lg = lambda base, name, **kw: dict({'type': base, 'logicalType': name}, **kw)
    same = [('bytes', lg('bytes', 'uuid')), ('bytes', lg('bytes', 'decimal', precision=4)), ('bytes', lg('bytes', 'big-decimal')),
            ('string', lg('string', 'uuid')), ('int', lg('int', 'date')), ('int', lg('int', 'time-millis')), ('long', lg('long', 'time-micros')),
            ('long', lg('long', 'timestamp-millis')), ('long', lg('long', 'timestamp-micros')), ('long', lg('long', 'timestamp-nanos')),
            ('long', lg('long', 'local-timestamp-millis')), ('long', lg('long', 'local-timestamp-micros')), ('long', lg('long', 'local-timestamp-nanos')),
            (lg('bytes', 'uuid'), lg('bytes', 'decimal', precision=4)), (lg('int', 'date'), lg('int', 'time-millis')),
            (lg('long', 'time-micros'), lg('long', 'timestamp-nanos')), ({'type': 'array', 'items': 'int'}, {'type': 'array', 'items': 'string'}),
            ({'type': 'map', 'values': 'int'}, {'type': 'map', 'values': 'string'}), ('null', 'null'), (['int'], 'string')]
    for q, (a, b) in enumerate(same):
        for order in ((a, b), (b, a)):
            texts['ku%d_%d' % (q, order is not (a, b))] = json.dumps(list(order) if q < len(same) - 1 else [order[0], order[1]])
            meta['ku%d_%d' % (q, order is not (a, b))] = 'mutant'
        texts['kv%d' % q] = json.dumps({'type': 'record', 'name': 'U', 'fields': [{'name': 'f', 'type': {'type': 'array', 'items': ['null', a, b]}}]})
        meta['kv%d' % q] = 'mutant'
    for i in range(n):
        r = rng.fork(i)
        js = schematext.gen_schema_json(r, max_depth=r.choice([1, 2, 2, 3]), weird=False)
        texts['v%d' % i] = schematext.dumps(js, r)
        meta['v%d' % i] = 'valid'
        for q in range(2):
            j2, how = sj.mutate(r, js)
            try:
                texts['m%d_%d' % (i, q)] = schematext.dumps(j2, r)
            except Exception:
                continue
            meta['m%d_%d' % (i, q)] = 'mutant'
        texts['j%d' % i] = sj.junk_text(r)
        meta['j%d' % i] = 'junk'
    return texts, meta

def defined_names(s, out):
    """full names defined in a schema term (each occurrence)"""
    if isinstance(s, str):
        return out
    t = tag(s)
    def nm(n):
        return (unhx(n[1][1]).decode() + '.' if tag(n[1]) == 'some' else '') + unhx(n[2]).decode()
    if t in ('record', 'enum', 'fixed'):
        out.append(nm(s[1]))
    if t == 'record':
        for f in s[4][1:]:
            defined_names(f[5], out)
    elif t in ('array', 'map'):
        defined_names(s[1], out)
    elif t == 'union':
        for b in s[1:]:
            defined_names(b, out)
    elif t == 'decimal':
        defined_names(s[3], out)
    elif t in ('uuid', 'duration'):
        defined_names(s[1], out)
    return out

def dup_fields(s, out):
    """records of a schema term in which two fields have the same name"""
    if isinstance(s, str):
        return out
    t = tag(s)
    if t == 'record':
        names = [f[1] for f in s[4][1:]]
        if len(set(names)) != len(names):
            out.append(unhx(s[1][2]).decode())
        for f in s[4][1:]:
            dup_fields(f[5], out)
    elif t in ('array', 'map'):
        dup_fields(s[1], out)
    elif t == 'union':
        for b in s[1:]:
            dup_fields(b, out)
    return out

import re as _re
_SEG = _re.compile(r'^[A-Za-z_][A-Za-z0-9_]*$')

def bad_names(s, out):
    """names of a schema term outside the grammar: type names and namespaces (dot-separated segments), field names, enum symbols"""
    if isinstance(s, str):
        return out
    t = tag(s)
    def full(n):
        return ([unhx(n[1][1]).decode('utf-8', 'replace')] if tag(n[1]) == 'some' else []) + [unhx(n[2]).decode('utf-8', 'replace')]
    def check_name(n):
        for part in full(n):
            for seg in part.split('.'):
                if not _SEG.match(seg):
                    out.append('.'.join(full(n)))
                    return
    if t in ('record', 'enum', 'fixed'):
        check_name(s[1])
    if t == 'ref':
        check_name(s[1])
    if t == 'record':
        for f in s[4][1:]:
            fn = unhx(f[1]).decode('utf-8', 'replace')
            if not _SEG.match(fn):
                out.append('field ' + fn)
            bad_names(f[5], out)
    elif t == 'enum':
        for sym in s[4][1:]:
            sn = unhx(sym).decode('utf-8', 'replace')
            if not _SEG.match(sn):
                out.append('symbol ' + sn)
    elif t in ('array', 'map'):
        bad_names(s[1], out)
    elif t == 'union':
        for b in s[1:]:
            bad_names(b, out)
    elif t == 'decimal':
        bad_names(s[3], out)
    elif t in ('uuid', 'duration'):
        bad_names(s[1], out)
    return out

_BASE = {'date': 'int', 'time-millis': 'int', 'time-micros': 'long', 'timestamp-millis': 'long', 'timestamp-micros': 'long', 'timestamp-nanos': 'long',
         'local-timestamp-millis': 'long', 'local-timestamp-micros': 'long', 'local-timestamp-nanos': 'long', 'big-decimal': 'bytes'}

def base_kind(s):
    """underlying unnamed type of a schema term, None for named types and references"""
    t = s if isinstance(s, str) else tag(s)
    if t in ('record', 'enum', 'fixed', 'ref', 'duration'):
        return None
    if t == 'decimal':
        return 'bytes' if tag(s[3]) == 'bytes' else None
    if t == 'uuid':
        return tag(s[1]) if tag(s[1]) in ('string', 'bytes') else None
    if t == 'bigdecimal':
        return 'bytes'
    return _BASE.get(t, t)

def dup_union_kinds(s, out, ignore=()):
    if isinstance(s, str):
        return out
    t = tag(s)
    if t == 'union':
        kinds = [k for k in (base_kind(b) for b in s[1:] if tag(b) not in ignore) if k is not None]
        d = sorted({k for k in kinds if kinds.count(k) > 1})
        if d:
            out.append(d)
        for b in s[1:]:
            dup_union_kinds(b, out, ignore)
    elif t == 'record':
        for f in s[4][1:]:
            dup_union_kinds(f[5], out, ignore)
    elif t in ('array', 'map'):
        dup_union_kinds(s[1], out, ignore)
    return out

def strip_defaults(js):
    if isinstance(js, list):
        return [strip_defaults(x) for x in js]
    if isinstance(js, dict):
        return {k: strip_defaults(v) for k, v in js.items() if not (k == 'default' and 'name' in js and 'symbols' not in js)}
    return js

def judge(run, texts, meta, parsed, rt, model):
    # rejected generated schemas, parsed again without their field defaults
    retry = {}
    for cid, txt in texts.items():
        o = parsed[cid]
        if meta[cid] == 'valid' and tag(o) == 'obs' and tag(o[2]) == 'err':
            try:
                retry[cid] = json.dumps(strip_defaults(json.loads(txt)))
            except Exception:
                pass
    r2 = sj.run_impl('parse-text', retry) if retry else {}
    nodefault_ok = {cid for cid, o in r2.items() if tag(o) == 'obs' and tag(o[2]) == 'ok'}
    for cid, txt in texts.items():
        run.evaluations += 1
        o = parsed[cid]
        case = {'text': txt[:4000], 'kind': meta[cid]}
        if tag(o) in ('timeout', 'abort') or tag(o) == 'missing':
            run.fail('parser-' + str(tag(o)), 'parse_str did not return: %s' % show(o)[:60], case)
            continue
        if tag(o) == 'not-utf8':
            continue
        if tag(o) == 'not-json':
            run.count('not-json:' + str(tag(o[1])))
            if tag(o[1]) != 'err':
                run.fail('not-json-' + str(tag(o[1])), 'text that is not JSON: parse_str gives %s' % show(o[1]), case)
            continue
        res = o[2]
        run.count('%s:%s' % (meta[cid], tag(res)))
        if tag(res) == 'panic':
            run.fail('parser-panic', 'parse_str panicked', case)
            continue
        m = model.get(cid)
        faithful = m is not None and tag(m) == tag(res) and (tag(res) != 'ok' or show(m[1]) == show(res[1]))
        if tag(res) == 'ok':
            # every operation on an accepted schema completes; references resolve; full names are unique
            r = rt.get(cid)
            if r is None or tag(r) != 'obs' or len(r) < 7:
                run.fail('operations-' + str(tag(r) if r is not None else 'none'), 'operations on the accepted schema: %s' % (show(r)[:100] if r is not None else ''), case)
            else:
                for name, x in (('serialise', r[2]), ('canonical-form', r[4]), ('debug', r[5]), ('resolve-names', r[6])):
                    if not isinstance(x, str) and tag(x) == 'panic':
                        run.fail('operation-panic', '%s panicked on an accepted schema' % name, case)
                du = dup_union_kinds(res[1], [])
                if du:
                    # known (F56): big-decimal is not counted as bytes by the union builder; everything else is reported
                    only_bigdec = faithful and not dup_union_kinds(res[1], [], ignore=('bigdecimal',))
                    run.fail('union-bigdecimal-next-to-bytes-accepted' if only_bigdec else 'union-same-type-twice-accepted',
                             'a union of an accepted schema has two unnamed branches of the same underlying type (%s)' % du[:2], case)
                bn = bad_names(res[1], [])
                if bn:
                    run.fail('malformed-name-accepted', 'name(s) %s of an accepted schema are outside [A-Za-z_][A-Za-z0-9_]*' % bn[:3], case)
                df = dup_fields(res[1], [])
                if df:
                    run.fail('duplicate-field-accepted', 'record(s) %s of an accepted schema have two fields of one name' % df[:3], case)
                names = defined_names(res[1], [])
                dups = sorted({n for n in names if names.count(n) > 1})
                if dups:
                    run.fail('duplicate-definition-accepted' if faithful else 'duplicate-definition', 'full name(s) %s defined twice in an accepted schema' % dups[:3], case)
                elif tag(r[6]) != 'ok':
                    run.fail('unresolvable-reference-accepted' if faithful else 'unresolvable-reference', 'a reference of the accepted schema does not resolve (ResolvedSchema fails)', case)
            if meta[cid] == 'mutant':
                run.nontrivial_case(txt)
            try:
                bad = sj.nonconforming_defaults(json.loads(txt), [])
            except Exception:
                bad = []
            if bad:
                run.fail('nonconforming-default-accepted' if faithful else 'nonconforming-default', 'field default(s) %s do not conform to the field schema, the schema is accepted' % str(bad[:2])[:120], case)
        else:
            if meta[cid] == 'valid':
                # known class: the schema is accepted once its field defaults are removed, i.e. a default that conforms
                # to the first branch of a union field was rejected by the union lookup of Value::resolve (C08 F46/F47)
                cls = 'valid-union-default-rejected' if faithful and cid in nodefault_ok else None
                run.fail(cls or 'well-formed-rejected', 'a generated well-formed schema is rejected', case)
            elif meta[cid] == 'mutant':
                run.nontrivial_case(txt)
                run.sample({'rejected': txt[:120]}, limit=6)
        if m is None or tag(m) not in ('ok', 'err', 'panic'):
            run.disagree('parse', case, show(res)[:100], show(m)[:100] if m is not None else 'none')
        elif not faithful:
            run.disagree('parse', case, show(res)[:300], show(m)[:300])

def collect(tier, seed):
    texts, meta = gen(tier, seed)
    parsed = sj.run_impl('parse-text', texts)
    acc = {cid: t for cid, t in texts.items() if tag(parsed[cid]) == 'obs' and tag(parsed[cid][2]) == 'ok'}
    rt = sj.run_impl('schema-rt', acc)
    model = sj.run_model(['%s (parse %s)' % (cid, show(o[1])) for cid, o in parsed.items() if tag(o) == 'obs'])
    return texts, meta, parsed, rt, model

def run(tier, seed):
    run_ = fw.Run(PROP, tier, seed)
    run_.proof = fw.proof_step(PROP, THEOREMS)
    judge(run_, *collect(tier, seed))
    return fw.finish(run_, 'theorems C11_* + differential check of the parser on arbitrary and mutated texts', RULE, search)

def explore(run_, tier, seed):
    judge(run_, *collect(tier, seed))

def search(run_):
    r2 = fw.Run(PROP, run_.tier, run_.seed + 1)
    judge(r2, *collect('quick', run_.seed + 1))
    return r2.failures

def replay(rp):
    f = rp.get('failure')
    print(f)
    if f:
        print(sj.run_impl('parse-text', {'r0': f['case']['text']}))
    return 0
