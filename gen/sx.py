"""Neutral term language (DESIGN.md 3.2): python side.  Terms are nested python lists whose atoms
are strings exactly as they appear in the text ('#6869', '-5', 'record')."""

def parse(s):
    pos = 0
    n = len(s)
    def term():
        nonlocal pos
        while pos < n and s[pos] in ' \t':
            pos += 1
        if pos >= n:
            raise ValueError('eof')
        if s[pos] == '(':
            pos += 1
            items = []
            while True:
                while pos < n and s[pos] in ' \t':
                    pos += 1
                if pos >= n:
                    raise ValueError('unclosed')
                if s[pos] == ')':
                    pos += 1
                    return items
                items.append(term())
        st = pos
        while pos < n and s[pos] not in ' ()':
            pos += 1
        return s[st:pos]
    return term()

def show(t):
    if isinstance(t, str):
        return t
    return '(' + ' '.join(show(x) for x in t) + ')'

def hx(b):
    if isinstance(b, str):
        b = b.encode('utf-8')
    return '#' + bytes(b).hex()

def unhx(a):
    assert a[0] == '#', a
    return bytes.fromhex(a[1:])

def tag(t):
    return t[0] if isinstance(t, list) and t and isinstance(t[0], str) else None
