"""C17 - derived schemas are valid and accept every value of their type.
Theorems: coq/Props/C17.v (well-formedness of what the model parser accepts).  Check: the corpus of derived types:
get_schema twice, JSON round trip, the model parser and name resolution on the derived JSON, every generated value through
serializer / deserializer and a container file."""
import framework as fw
from sx import parse, show, hx, unhx, tag
import sj
import c16

PROP = 'C17'
THEOREMS = ['C17_accepted_record_well_formed', 'C17_derived_json_strict', 'C17_examples']
TYPES = c16.TYPES + ['two-shapes', 'opt-shape']
RULE = ('corpus of 43 types: field types (scalars, Option / Vec / HashMap nestings, nested structs and enums, recursion '
        'through Box / Option / Vec, generics) x attributes (rename, rename_all, rename_all_fields with a variant override, skip_serializing_if with avro defaults, namespace, alias, doc, skip, default) x enum shapes '
        '(unit-only, data-carrying) x generated values. non-trivial = distinct (type, value) pairs that round-trip')
KNOWN = {'two-shapes': 'data-enum-used-twice-redefined', 'opt-shape': 'option-of-data-enum-panics'}

def collect(tier, seed):
    exe = fw.build_harness()
    n = 10 if tier == 'quick' else 300
    lines = ['%s|%d (serde %s %d)' % (t, i, t, seed * 1000 + i) for t in TYPES for i in range(n)]
    # the same values written with a target block size (arrays and maps split into sized blocks): ids <type>|<i>b<size>
    lines += ['%s|%db%d (serde %s %d %d)' % (t, i, b, t, seed * 1000 + i, b) for t in TYPES for i in range(min(n, 6)) for b in (1, 24)]
    out = {k: parse(v) for k, v in fw.run_lines(exe, lines).items()}
    # the derived JSON through parse / serialise / names (implementation) and through the model parser
    texts = {}
    for t in TYPES:
        o = out.get('%s|0' % t)
        if o is not None and tag(o) == 'obs':
            texts[t] = unhx(o[3]).decode('utf-8')
    rt = sj.run_impl('schema-rt', texts)
    pv = sj.run_impl('parse-text', texts)
    model = sj.run_model(['%s (parse %s)' % (t, show(o[1])) for t, o in pv.items() if tag(o) == 'obs'])
    return out, texts, rt, pv, model

def judge(run, out, texts, rt, pv, model):
    for t in TYPES:
        run.evaluations += 1
        case = {'type': t}
        o0 = out.get('%s|0' % t)
        if o0 is None or tag(o0) == 'schema-panic':
            run.fail(KNOWN.get(t) if t == 'opt-shape' else 'derive-panic', 'get_schema panicked', case)
            continue
        if tag(o0) != 'obs':
            run.fail('harness-' + str(tag(o0)), show(o0)[:80], case)
            continue
        case['schema'] = texts.get(t, '')[:600]
        if o0[2] != '1':
            run.fail('schema-differs-between-calls', 'two calls of get_schema give different schemas', case)
        if o0[4] != '1':
            run.fail('derived-json-does-not-round-trip', 'the derived schema, written to JSON and parsed, is another schema', case)
        r = rt.get(t)
        bad = None
        if r is None or tag(r) != 'obs' or len(r) < 7:
            bad = 'the derived JSON is not accepted by the parser (%s)' % (show(r)[:60] if r is not None else '')
        elif tag(r[6]) != 'ok':
            bad = 'the references / definitions of the derived schema do not resolve (a name is defined twice or missing)'
        elif sj.dup_keys(unhx(r[2]).decode('utf-8')):
            bad = 'the derived JSON repeats a key'
        if bad:
            run.fail(KNOWN.get(t) if t == 'two-shapes' else 'derived-schema-not-well-formed', bad, case)
        m, p = model.get(t), pv.get(t)
        if m is None or p is None or tag(p) != 'obs' or tag(m) != tag(p[2]) or (tag(m) == 'ok' and show(m[1]) != show(p[2][1])):
            run.disagree('parse-derived', case, show(p)[:100] if p is not None else 'none', show(m)[:100] if m is not None else 'none')
    for k, o in sorted(out.items()):
        t, i = k.split('|')
        if tag(o) != 'obs':
            continue
        run.evaluations += 1
        case = {'type': t, 'seed_index': i, 'bytes': unhx(o[5]).hex()[:200] if isinstance(o[5], str) else ''}
        ser, deser, cont = o[6], o[7], o[10]
        known = KNOWN.get(t)
        if tag(ser) != 'ok':
            run.fail(known or 'value-does-not-serialize', 'a value of the type does not serialize under the derived schema (%s)' % show(ser), case)
            continue
        if tag(deser) != 'ok' or deser[1] != '1' or deser[2] != '#':
            run.fail(known or 'value-does-not-come-back', 'deserialized: %s' % show(deser)[:60], case)
            continue
        if show(cont) != '(items 1)':
            run.fail(known or 'container-round-trip-differs', 'through a container file: %s' % show(cont)[:60], case)
            continue
        run.nontrivial_case(k)
    run.sample({'types': TYPES}, limit=1)

def run(tier, seed):
    run_ = fw.Run(PROP, tier, seed)
    run_.proof = fw.proof_step(PROP, THEOREMS)
    judge(run_, *collect(tier, seed))
    return fw.finish(run_, 'theorems C17_* (well-formedness of parser-accepted schemas) + corpus check of derived types', RULE, search)

def explore(run_, tier, seed):
    judge(run_, *collect(tier, seed))

def search(run_):
    r2 = fw.Run(PROP, run_.tier, run_.seed + 1)
    judge(r2, *collect('quick', run_.seed + 1))
    return r2.failures

def replay(rp):
    print(rp.get('failure'))
    return 0
