"""Value-term utilities on the python side: canonical forms for comparison."""
from sx import parse, show, unhx, hx, tag
from schemas import minimal

def canon(t, numeric_decimals=False):
    """sort map entries by key; optionally normalise decimals to their minimal two's complement"""
    if isinstance(t, str):
        return t
    k = tag(t)
    if k == 'map':
        ents = [['kv', e[1], canon(e[2], numeric_decimals)] for e in t[1:]]
        ents.sort(key=lambda e: e[1])
        return ['map'] + ents
    if k == 'decimal' and numeric_decimals:
        return ['decimal', hx(minimal(unhx(t[1])))]
    if k == 'bigdecimal' and numeric_decimals:
        return ['bigdecimal', hx(minimal(unhx(t[1]))), t[2]]
    return [canon(x, numeric_decimals) for x in t]

def depth(t):
    if isinstance(t, str):
        return 0
    return 1 + max([depth(x) for x in t] + [0])
