"""C06 - a successfully decoded value always conforms to the schema.  Theorems: coq/Props/C06.v.
Check: for byte strings (exhaustive short strings, every truncation of valid encodings, single-byte
mutations, random) x schemas: whenever GenericDatumReader succeeds the value validates, re-encodes and
re-decodes to itself; strict prefixes of valid encodings are errors; the schema-aware deserializer
agrees on success and on the bytes consumed; the extracted model agrees with the implementation."""
import itertools
import framework as fw
from rng import Rng
from sx import parse, show, hx, unhx, tag
from schemas import gen_case_schema, schema_text
from values import canon

PROP = 'C06'
THEOREMS = ['C06_decoded_conforms', 'C06_validates_and_reencodes', 'C06_truncation_is_error',
            'C06_empty_decimal_not_canonical', 'C06_empty_decimal_numeric', 'C06_nonvacuous']
LIMIT = 1 << 20     # allocation limit for this check: keeps hostile zero-width arrays small
CFG = '(cfg %d 56 80)' % LIMIT
EXTRA = ['max_alloc=%d' % LIMIT]
RULE = ('(a) exhaustive byte strings up to length 2 (quick) / 3 (thorough) x ~30 small schemas, all strings of 3-4 length-like bytes for the schemas with nested lengths, long valid encodings of collections of 63..2048 items; (b) every strict '
        'prefix and every single-byte alteration (xor 0x01, xor 0x80, set 0xff) of the encodings of generated '
        'conforming values; (c) random strings. non-trivial = distinct (schema, bytes) on which decoding '
        'succeeds and consumes at least one byte')

SMALL = ['"null"', '"boolean"', '"int"', '"long"', '"float"', '"double"', '"bytes"', '"string"',
         '{"type":"array","items":"null"}', '{"type":"array","items":"boolean"}', '{"type":"array","items":"string"}',
         '{"type":"map","values":"int"}', '{"type":"map","values":"null"}',
         '["null","string"]', '["int","boolean","bytes"]',
         '{"type":"enum","name":"E","symbols":["A","B","C"]}', '{"type":"fixed","name":"F","size":2}',
         '{"type":"fixed","name":"F0","size":0}',
         '{"type":"record","name":"R","fields":[{"name":"a","type":"boolean"},{"name":"b","type":["null","int"]}]}',
         '{"type":"record","name":"E0","fields":[]}',
         '{"type":"record","name":"L","fields":[{"name":"v","type":"int"},{"name":"next","type":["null","L"]}]}',
         '{"type":"bytes","logicalType":"decimal","precision":4,"scale":1}',
         '{"type":"fixed","name":"D2","size":2,"logicalType":"decimal","precision":4}',
         '{"type":"bytes","logicalType":"big-decimal"}', '{"type":"string","logicalType":"uuid"}',
         '{"type":"bytes","logicalType":"uuid"}', '{"type":"int","logicalType":"date"}',
         '{"type":"long","logicalType":"timestamp-micros"}',
         '{"type":"fixed","name":"Du","size":12,"logicalType":"duration"}',
         '{"type":"array","items":{"type":"array","items":"int"}}',
         '{"type":"map","values":["null",{"type":"array","items":"boolean"}]}']

def gen_cases(tier, seed):
    rng = Rng(seed)
    cases = []          # (schema text, bytes, origin)
    maxlen = 2 if tier == 'quick' else 3
    for st in SMALL:
        for n in range(maxlen + 1):
            if n <= 1:
                for t in itertools.product(range(256), repeat=n):
                    cases.append((st, bytes(t), 'exhaustive'))
            elif n == 2:
                # second byte: all values; first byte: a covering set in quick, all in thorough
                firsts = range(256) if tier == 'thorough' else [0, 1, 2, 3, 4, 5, 6, 7, 8, 0x10, 0x20, 0x7f, 0x80, 0x81, 0xfe, 0xff]
                for a in firsts:
                    for b in range(256):
                        cases.append((st, bytes([a, b]), 'exhaustive'))
            else:
                firsts = [0, 1, 2, 3, 4, 5, 6, 8, 0x7f, 0x80, 0xff]
                for a in firsts:
                    for b in firsts + [9, 0x0a, 0x10, 0x40]:
                        for c_ in range(256):
                            cases.append((st, bytes([a, b, c_]), 'exhaustive'))
    # lengths nested in lengths (a big-decimal is a length-prefixed payload that starts with another length; a
    # map entry is a length-prefixed key after a count): every string of 3 and 4 bytes over a small alphabet of
    # length-like bytes, in both tiers
    small = [0, 1, 2, 3, 4, 6, 8, 0x80]
    for st in ('{"type":"bytes","logicalType":"big-decimal"}', '{"type":"map","values":"int"}', '{"type":"array","items":"string"}',
               '{"type":"array","items":{"type":"bytes","logicalType":"big-decimal"}}'):
        for n in (3, 4):
            for t in itertools.product(small, repeat=n):
                cases.append((st, bytes(t), 'exhaustive-small-alphabet'))
    return cases

def second_stage(tier, seed, exe):
    """valid encodings (via the implementation), then their prefixes and mutations"""
    rng = Rng(seed + 7)
    lines, meta = [], {}
    ns = 250 if tier == 'quick' else 5000
    for i in range(ns):
        r = rng.fork(i)
        node, _ = gen_case_schema(r, max_depth=r.choice([1, 2, 3]))
        st = schema_text(node)
        cid = 'g%d' % i
        lines.append('%s (datum %s %s # 0)' % (cid, hx(st), node.gen(r, 0)))
        meta[cid] = st
    out = fw.run_lines(exe, lines)
    cases = []
    for cid, st in meta.items():
        o = parse(out.get(cid, '(missing)'))
        if tag(o) != 'obs' or tag(o[3]) != 'ok':
            continue
        b = unhx(o[3][1])
        if len(b) > 400:
            continue
        cases.append((st, b, 'valid'))
        for k in range(len(b)):
            cases.append((st, b[:k], 'prefix'))
        r = rng.fork(hash(cid) & 0xffff)
        for k in range(len(b)):
            if len(b) > 40 and not r.chance(40, len(b)):
                continue
            for f in (lambda x: x ^ 1, lambda x: x ^ 0x80, lambda x: 0xff):
                m = bytearray(b); m[k] = f(m[k])
                cases.append((st, bytes(m), 'mutation'))
        for _ in range(3):
            cases.append((st, r.bytes(r.below(12)), 'random'))
    # long valid encodings (not cut or altered): collections whose item count sits around a power of two, followed by
    # further fields - a decoded value must re-encode to bytes that decode to it again
    import ocf
    for n in (63, 64, 65, 1023, 1024, 1025, 2048):
        arr = ocf.write_long(n) + b''.join(ocf.write_long(q % 7 - 3) for q in range(n)) + b'\x00'
        cases.append(('{"type":"array","items":"int"}', arr, 'valid-long'))
        rec = '{"type":"record","name":"R","fields":[{"name":"a","type":{"type":"array","items":"int"}},{"name":"s","type":"string"},{"name":"u","type":["null","int"]}]}'
        cases.append((rec, arr + b'\x04hi' + b'\x02\x0e', 'valid-long'))
        mp = ocf.write_long(n) + b''.join(ocf.write_long(len(k)) + k for k in (b'k%d' % q for q in range(n))) + b'\x00'
        cases.append(('{"type":"record","name":"M","fields":[{"name":"m","type":{"type":"map","values":"null"}},{"name":"t","type":"boolean"}]}', mp + b'\x01', 'valid-long'))
        # the same array in two blocks, the second with a negative count and a byte size
        h = n // 2
        two = ocf.write_long(h) + b''.join(ocf.write_long(1) for _ in range(h)) + ocf.write_long(-(n - h)) + ocf.write_long(n - h) + b''.join(ocf.write_long(1) for _ in range(n - h)) + b'\x00'
        cases.append((rec, two + b'\x00' + b'\x00', 'valid-long'))
    return cases

def evaluate(run, cases, exe, drv):
    lines = ['q%d (decode2 %s %s)' % (i, hx(st), hx(b)) for i, (st, b, _) in enumerate(cases)]
    impl = fw.run_lines(exe, lines, extra=EXTRA)
    mlines = []
    parsed = {}
    pending = []
    for i, (st, b, origin) in enumerate(cases):
        cid = 'q%d' % i
        o = parse(impl.get(cid, '(missing)'))
        run.evaluations += 1
        run.count('origin:' + origin)
        case = {'schema': st, 'bytes': b.hex(), 'origin': origin}
        if tag(o) == 'schema-err':
            run.count('schema-rejected')
            continue
        if tag(o) != 'obs':
            run.fail('impl-' + str(tag(o)), 'implementation outcome %s' % show(o)[:160], case)
            continue
        parsed[cid] = o
        mlines.append('%s (decode %s %s %s)' % (cid, CFG, show(o[1]), hx(b)))
    model = fw.run_lines(drv, mlines)
    for i, (st, b, origin) in enumerate(cases):
        cid = 'q%d' % i
        if cid not in parsed:
            continue
        o = parsed[cid]
        case = {'schema': st, 'bytes': b.hex(), 'origin': origin}
        dec, valid, reenc, redec, deser = o[2], o[3], o[4], o[5], o[6]
        run.count('decode:' + str(tag(dec)))
        if tag(dec) == 'panic' or tag(deser) == 'panic':
            run.fail('panic', 'a decoder panicked: %s / %s' % (show(dec)[:60], show(deser)[:60]), case)
            continue
        if tag(dec) == 'ok':
            v = canon(dec[1], True)
            consumed = len(b) - len(unhx(dec[2]))
            if valid != '1':
                run.fail('decoded-not-valid', 'decoded value does not validate: %s' % show(dec[1])[:200], case)
            elif tag(reenc) != 'ok':
                run.fail('decoded-not-reencodable', 'decoded value cannot be re-encoded: %s' % show(dec[1])[:200], case)
            elif tag(redec) != 'ok' or canon(redec[1], True) != v or redec[2] != '#':
                run.fail('reencode-changes-value', 'decode(encode(v)) = %s' % show(redec)[:200], case)
            elif consumed > 0:
                run.nontrivial_case(st + b.hex())
                run.sample({'schema': st[:100], 'bytes': b.hex()[:60], 'value': show(dec[1])[:120]})
            if origin == 'prefix':
                run.fail('truncation-accepted', 'a strict prefix of a valid encoding decoded to %s' % show(dec[1])[:160], case)
            # the two decoders agree
            if tag(deser) != 'ok':
                cls = 'deser-null-namespace-ref' if '"namespace": ""' in st else 'decoders-disagree'
                run.fail(cls, 'generic decoder ok, schema-aware deserializer %s' % show(deser)[:80], case)
            elif deser[1] != dec[2]:
                run.fail('decoders-consume-differently', 'generic left %s, deserializer left %s' % (dec[2][:40], deser[1][:40]), case)
        else:
            if tag(deser) == 'ok':
                if '"uuid"' in st or 'big-decimal' in st:
                    # the untyped target cannot check the content of a uuid / big-decimal payload, which
                    # the Value decoder parses: not comparable through deserialize_any
                    run.count('agreement-skipped-logical-content')
                else:
                    # the generic decoder may refuse a complete datum for its SIZE (allocation limit on the
                    # Values it would build, which a serde target does not build): decided below by the model
                    # decoder run without a limit
                    pending.append((cid, case, show(dec)[:80], deser[1]))
        # a target that ignores everything (IgnoredAny) must still see a complete datum: whenever it
        # succeeds the generic decoder succeeds and both consumed the same bytes
        ign = o[7] if len(o) > 7 else None
        if ign is not None:
            run.count('ignored:' + str(tag(ign)))
            if tag(ign) == 'panic':
                run.fail('panic', 'deserializing into IgnoredAny panicked', case)
            elif tag(ign) == 'ok' and tag(dec) != 'ok':
                if '"uuid"' in st or 'big-decimal' in st or 'decimal' in st:
                    run.count('agreement-skipped-logical-content')
                else:
                    run.fail('ignoring-deserializer-accepts-incomplete-datum', 'generic decoder %s, deserializing into IgnoredAny ok' % show(dec)[:60], case)
            elif tag(ign) == 'ok' and ign[1] != dec[2]:
                run.fail('decoders-consume-differently', 'generic left %s, IgnoredAny deserializer left %s' % (dec[2][:40], ign[1][:40]), case)
        if len(o) > 8:
            fw.judge_partial(run, o[8], tag(dec) == 'ok' and tag(deser) == 'ok', st, case)
        # correspondence
        m = parse(model.get(cid, '(missing)'))
        if tag(m) == 'out-of-fuel' and tag(dec) != 'ok':
            run.count('model-out-of-fuel')          # the model gave up on a deeply nested rejected input: nothing to compare
        elif tag(m) != tag(dec) or (tag(m) == 'ok' and (canon(m[1], True) != canon(dec[1], True) or m[2] != dec[2])):
            run.disagree('decode', case, show(dec)[:300], show(m)[:300])
    settle_pending(run, pending, parsed, drv)

def settle_pending(run, pending, parsed, drv):
    if not pending:
        return
    big = '(cfg 4611686018427387904 56 80)'
    ml = ['%s (decode %s %s %s)' % (cid, big, show(parsed[cid][1]), hx(bytes.fromhex(case['bytes']))) for cid, case, _, _ in pending]
    mod = fw.run_lines(drv, ml)
    for cid, case, dtxt, rest in pending:
        m = parse(mod.get(cid, '(missing)'))
        if tag(m) == 'ok' and m[2] == rest:
            run.count('agreement-skipped-allocation-limit')
        else:
            run.fail('decoders-disagree', 'generic decoder %s, schema-aware deserializer ok (model without limit: %s)' % (dtxt, show(m)[:40]), case)

def run(tier, seed):
    run_ = fw.Run(PROP, tier, seed)
    run_.proof = fw.proof_step(PROP, THEOREMS)
    exe = fw.build_harness()
    drv = fw.build_ocaml()
    cases = gen_cases(tier, seed) + second_stage(tier, seed, exe)
    evaluate(run_, cases, exe, drv)
    return fw.finish(run_, 'theorems C06_* (all byte strings / all prefixes) + exhaustive-short and mutation sweep', RULE, search)

def search(run_):
    exe = fw.build_harness()
    drv = fw.build_ocaml()
    r2 = fw.Run(PROP, run_.tier, run_.seed + 1)
    evaluate(r2, second_stage('quick', run_.seed + 1, exe), exe, drv)
    return r2.failures

def replay(rp):
    f = rp.get('failure')
    print(f)
    if f:
        exe = fw.build_harness()
        print(fw.run_lines(exe, ['r0 (decode2 %s #%s)' % (hx(f['case']['schema']), f['case']['bytes'])]))
    return 0
