"""C12 - fingerprints.  Theorems: coq/Props/C12.v (Rabin = bitwise CRC-64-AVRO for all byte strings).
Correspondence: apache_avro::rabin::Rabin and Schema::fingerprint against the extracted model, MD5 and
SHA-256 against hashlib, all over the canonical form the implementation reports."""
import hashlib
import framework as fw
from rng import Rng
from sx import parse, show, hx, unhx, tag
from schemas import gen_case_schema, schema_text
import copy
import json
import schematext
import sj

PROP = 'C12'
THEOREMS = ['C12_rabin_is_crc64', 'C12_digest_little_endian', 'C12_hello_world', 'C12_empty', 'C12_spec_int',
            'C12_pcf_leaves', 'C12_pcf_logical_refuted', 'C12_pcf_order_refuted', 'C12_pcf_examples']
RULE = ('byte strings: empty, 1 byte, all 256 single bytes, structured and PRNG strings up to 64 KiB for the '
        'Rabin digest; generated schemas for fingerprint::<Rabin|Md5|Sha256> = digest(canonical form) and the '
        'single-object header; repeated in-process for determinism. non-trivial = distinct inputs of >= 2 bytes')

def gen_cases(tier, seed):
    rng = Rng(seed)
    lines = []
    meta = {}
    bs = [b'', b'\x00', b'\xff', b'hello world', b'"int"'] + [bytes([i]) for i in range(256)]
    nrand = 300 if tier == 'quick' else 5000
    for i in range(nrand):
        n = rng.choice([2, 3, 7, 8, 9, 15, 16, 17, 63, 64, 65, 255, 256, 1000]) if rng.chance(1, 2) else rng.below(400)
        bs.append(rng.bytes(n))
    bs.append(rng.bytes(65536))
    bs.append(b'\x00' * 4096)
    for i, b in enumerate(bs):
        cid = 'r%d' % i
        lines.append('%s (rabin %s)' % (cid, hx(b)))
        meta[cid] = ('rabin', b)
    nschemas = 300 if tier == 'quick' else 6000
    for i in range(nschemas):
        r = rng.fork(i)
        node, _ = gen_case_schema(r, max_depth=r.choice([1, 2, 3]))
        st = schema_text(node)
        for rep in range(2):
            cid = 'f%d_%d' % (i, rep)
            lines.append('%s (fingerprint %s)' % (cid, hx(st)))
            meta[cid] = ('fp', st)
    return lines, meta

def evaluate(run, lines, meta, exe, drv):
    impl = fw.run_lines(exe, lines)
    mlines = []
    for l in lines:
        cid = l.split(' ', 1)[0]
        kind, x = meta[cid]
        o = parse(impl.get(cid, '(missing)'))
        if kind == 'rabin':
            mlines.append('%s (rabin %s)' % (cid, hx(x)))
        elif tag(o) == 'ok':
            mlines.append('%s (rabin %s)' % (cid, o[1]))
    model = fw.run_lines(drv, mlines)
    first = {}
    for l in lines:
        cid = l.split(' ', 1)[0]
        kind, x = meta[cid]
        run.evaluations += 1
        o = parse(impl.get(cid, '(missing)'))
        run.count('impl:%s:%s' % (kind, tag(o)))
        if tag(o) != 'ok':
            if kind == 'fp' and tag(o) == 'schema-err':
                continue
            run.fail('impl-' + str(tag(o)), 'implementation outcome %s' % show(o)[:200], {'kind': kind, 'input': x if kind == 'fp' else x.hex()})
            continue
        m = parse(model.get(cid, '(missing)'))
        if kind == 'rabin':
            case = {'kind': 'rabin', 'bytes': x.hex()[:400], 'len': len(x)}
            if tag(m) != 'ok' or m[1] != o[1]:
                run.disagree('rabin', case, show(o), show(m))
                # the model is proved equal to CRC-64-AVRO: a different digest violates the property
                run.fail('rabin-differs', 'Rabin digest %s differs from CRC-64-AVRO %s' % (o[1], show(m)), case)
            elif len(x) >= 2:
                run.nontrivial_case('r' + x.hex())
            run.sample({'bytes': x.hex()[:60], 'digest': o[1]})
        else:
            pcf = unhx(o[1])
            case = {'kind': 'fingerprint', 'schema': x}
            okk = True
            if tag(m) != 'ok' or m[1] != o[2]:
                run.fail('rabin-fp-differs', 'fingerprint::<Rabin> %s is not CRC-64-AVRO of the canonical form (%s)' % (o[2], show(m)[:80]), case)
                okk = False
            if tag(m) == 'ok' and m[2] != o[5]:
                run.fail('header-differs', 'single-object header %s, expected %s' % (o[5], m[2]), case)
                okk = False
            if hashlib.md5(pcf).hexdigest() != o[3][1:]:
                run.fail('md5-differs', 'fingerprint::<Md5> is not MD5 of the canonical form', case)
                okk = False
            if hashlib.sha256(pcf).hexdigest() != o[4][1:]:
                run.fail('sha256-differs', 'fingerprint::<Sha256> is not SHA-256 of the canonical form', case)
                okk = False
            key = x
            if key in first and first[key] != show(o):
                run.fail('nondeterministic', 'two calls gave different results', case)
                okk = False
            first[key] = show(o)
            if okk:
                run.nontrivial_case('f' + x)
                run.sample({'schema': x[:120], 'pcf': pcf.decode('utf-8', 'replace')[:120], 'rabin': o[2]}, limit=9)

RESERVED = ('name', 'type', 'fields', 'symbols', 'items', 'values', 'size', 'logicalType', 'order', 'doc', 'aliases', 'default',
            'precision', 'scale')
STRUCT = {'record': ('type', 'name', 'namespace', 'doc', 'aliases', 'fields'), 'enum': ('type', 'name', 'namespace', 'doc', 'aliases', 'symbols', 'default'),
          'fixed': ('type', 'name', 'namespace', 'doc', 'aliases', 'size', 'logicalType', 'precision', 'scale'), 'array': ('type', 'items'),
          'map': ('type', 'values')}

def reserved_attr(js, field=False):
    """does some node carry a custom attribute whose key is in the canonical form's ordering table?"""
    if isinstance(js, list):
        return any(reserved_attr(x) for x in js)
    if not isinstance(js, dict):
        return False
    if field:
        own = ('name', 'type', 'doc', 'default', 'aliases')
        return any(k in RESERVED and k not in own for k in js) or reserved_attr(js.get('type'))
    t = js.get('type')
    if isinstance(t, (dict, list)):
        return reserved_attr(t)
    own = STRUCT.get(t, ('type', 'logicalType', 'precision', 'scale'))
    if js.get('logicalType') != 'decimal':
        own = tuple(k for k in own if k not in ('precision', 'scale'))
    if any(k in RESERVED and k not in own for k in js):
        return True
    if t == 'record':
        return any(reserved_attr(f, field=True) for f in js.get('fields', []) if isinstance(f, dict))
    return reserved_attr(js.get('items')) or reserved_attr(js.get('values'))

def irrelevant_edit(r, js):
    """edits the specification calls irrelevant: docs, aliases, defaults removed, custom attributes (with keys outside the
    canonical form's table), the namespace spelled inside the name"""
    js = copy.deepcopy(js)
    def walk(x, field=False):
        if isinstance(x, list):
            for y in x:
                walk(y)
            return
        if not isinstance(x, dict):
            return
        if r.chance(1, 2):
            x.pop('doc', None)
        elif r.chance(1, 2) and (field or x.get('type') in ('record', 'enum', 'fixed')):
            x['doc'] = 'edited doc'
        if r.chance(1, 2):
            x.pop('aliases', None)
        if field and r.chance(1, 2):
            x.pop('default', None)
        if r.chance(1, 3) and (field or isinstance(x.get('type'), str)) and x.get('type') in ('record', 'enum', 'fixed', 'array', 'map') or (field and r.chance(1, 3)):
            x['zz_extra'] = r.choice([1, 'a', None, [1]])
        if not field and x.get('type') in ('record', 'enum', 'fixed') and isinstance(x.get('namespace'), str) and x['namespace'] \
           and '.' not in x.get('name', '.') and r.chance(1, 2):
            x['name'] = x.pop('namespace') + '.' + x['name']
        if field:
            walk(x.get('type'))
        else:
            t = x.get('type')
            if isinstance(t, (dict, list)):
                walk(t)
            for f in x.get('fields', []) if isinstance(x.get('fields'), list) else []:
                walk(f, field=True)
            walk(x.get('items'))
            walk(x.get('values'))
    walk(js)
    return js

def evaluate_pcf(run, tier, seed):
    rng = Rng(seed + 7)
    n = 400 if tier == 'quick' else 12000
    texts, meta = {}, {}
    corpus = ['{"type":"int","logicalType":"date"}',
              '{"type":"record","name":"R","fields":[{"name":"a","type":"int","order":"descending"}]}',
              '{"type":"bytes","logicalType":"decimal","precision":4,"scale":1}']
    for i, t in enumerate(corpus):
        texts['k%d_0' % i] = t
        meta['k%d_0' % i] = json.loads(t)
    for i in range(n):
        r = rng.fork(i)
        js = schematext.gen_schema_json(r, max_depth=r.choice([1, 2, 2, 3]), attrs=r.chance(1, 3))
        texts['p%d_0' % i] = schematext.dumps(js, r)
        meta['p%d_0' % i] = js
        j2 = irrelevant_edit(r, js)
        texts['p%d_1' % i] = schematext.dumps(j2, r)
        meta['p%d_1' % i] = j2
    # null-namespace records nested in namespaced ones, with named types and references inside them (three levels)
    for q, inner in enumerate([{'type': 'enum', 'name': 'Leaf', 'symbols': ['A']}, {'type': 'fixed', 'name': 'Leaf', 'size': 2},
                               {'type': 'record', 'name': 'Leaf', 'fields': [{'name': 'x', 'type': 'int'}]}]):
        for mid_ns in ('', None, 'other'):
            mid = {'type': 'record', 'name': 'Mid', 'fields': [{'name': 'leaf', 'type': inner}, {'name': 'again', 'type': 'Leaf'}]}
            if mid_ns is not None:
                mid['namespace'] = mid_ns
            top = {'type': 'record', 'name': 'Top', 'namespace': 'ns', 'fields': [{'name': 'mid', 'type': mid}]}
            texts['n%d%s_0' % (q, mid_ns or 'x')] = json.dumps(top)
            meta['n%d%s_0' % (q, mid_ns or 'x')] = top
    obs = sj.run_impl('schema-rt', texts)
    acc = {cid: o for cid, o in obs.items() if tag(o) == 'obs' and len(o) >= 7}
    # the schema the canonical form is computed from is the implementation's own parse of the text: the model parser
    # reads the same text, and must arrive at the same schema
    ptxt = sj.run_impl('parse-text', {cid: texts[cid] for cid in acc})
    mparse = sj.run_model(['%s (parse %s)' % (cid, show(o[1])) for cid, o in ptxt.items() if tag(o) == 'obs'])
    differ = {}
    for cid, o in acc.items():
        mpz = mparse.get(cid)
        if mpz is not None and tag(mpz) == 'ok' and show(mpz[1]) != show(o[1]):
            run.disagree('parse', {'kind': 'canonical-form', 'text': texts[cid]}, show(o[1])[:300], show(mpz[1])[:300])
            differ[cid] = show(mpz[1])
    if differ:
        # what the rules give for the schema the TEXT denotes (model parser + specification normalisation)
        tm = sj.run_model(['%s (schema-json %s)' % (cid, sx_) for cid, sx_ in differ.items()])
        for cid in differ:
            m2 = tm.get(cid)
            if m2 is not None and tag(m2) == 'ok' and isinstance(acc[cid][4], str) and m2[4] != acc[cid][4]:
                run.fail('pcf-differs-from-specification', 'canonical form %s, the rules give %s for this text' % (
                    unhx(acc[cid][4]).decode('utf-8', 'replace')[:140], unhx(m2[4]).decode('utf-8', 'replace')[:140]), {'kind': 'canonical-form', 'text': texts[cid]})
    model = sj.run_model(['%s (schema-json %s)' % (cid, show(o[1])) for cid, o in acc.items()])
    # the canonical forms themselves, parsed and canonicalised again
    again_texts = {cid: unhx(o[4]).decode('utf-8', 'replace') for cid, o in acc.items() if isinstance(o[4], str)}
    again = sj.run_impl('schema-rt', again_texts)
    for cid, o in acc.items():
        run.evaluations += 1
        case = {'kind': 'canonical-form', 'text': texts[cid]}
        if not isinstance(o[4], str):
            run.fail('pcf-' + str(tag(o[4])), 'canonical_form: %s' % show(o[4]), case)
            continue
        pcf = unhx(o[4]).decode('utf-8', 'replace')
        m = model.get(cid)
        if m is None or tag(m) != 'ok':
            run.disagree('schema-json', case, 'obs', show(m)[:80] if m is not None else 'none')
            continue
        mp = unhx(m[3][1]).decode('utf-8', 'replace') if tag(m[3]) == 'ok' else None
        spec = unhx(m[4]).decode('utf-8', 'replace')
        run.count('model-pcf:' + str(tag(m[3])))
        faithful = mp is None or mp == pcf
        if mp is not None and mp != pcf:
            run.disagree('canonical-form', case, pcf[:300], mp[:300])
        ok = True
        if pcf != spec:
            ok = False
            cls = None
            if faithful:
                js = meta[cid]
                if reserved_attr(js):
                    cls = 'pcf-keeps-attribute-named-like-a-schema-key'
                elif sj.has_logical(js):
                    cls = 'pcf-logical-type-not-reduced'
            run.fail(cls or 'pcf-differs-from-specification', 'canonical form %s, the rules give %s' % (pcf[:140], spec[:140]), case)
        # irrelevant edits
        if cid.endswith('_1'):
            base = acc.get(cid[:-2] + '_0')
            if base is not None and isinstance(base[4], str) and base[4] != o[4]:
                ok = False
                cls = 'pcf-keeps-attribute-named-like-a-schema-key' if faithful and (reserved_attr(meta[cid]) or reserved_attr(meta[cid[:-2] + '_0'])) else None
                run.fail(cls or 'pcf-changed-by-irrelevant-edit', 'canonical form %s became %s' % (unhx(base[4]).decode('utf-8', 'replace')[:120], pcf[:120]), case)
        # canonical form of the parsed canonical form
        a = again.get(cid)
        if a is not None and tag(a) == 'obs' and len(a) >= 7 and isinstance(a[4], str):
            f19 = tag(o[3]) == 'ok' and show(o[3][1]) != show(o[1])
            if a[4] != o[4] and f19 and faithful and pcf == spec:
                ok = False
                run.fail('embedded-schema-null-namespace', 'the canonical form %s names a null-namespace type inside a namespaced one; parsed again it is %s'
                         % (pcf[:120], unhx(a[4]).decode('utf-8', 'replace')[:120]), case)
            elif a[4] != o[4]:
                ok = False
                run.fail('pcf-not-idempotent' if not (faithful and pcf != spec) else 'pcf-keeps-attribute-named-like-a-schema-key' if reserved_attr(meta[cid]) else 'pcf-logical-type-not-reduced' if sj.has_logical(meta[cid]) else 'pcf-not-idempotent',
                         'the canonical form of the parsed canonical form is %s, not %s' % (unhx(a[4]).decode('utf-8', 'replace')[:120], pcf[:120]), case)
        elif a is not None and pcf == spec:
            ok = False
            run.fail('pcf-does-not-parse', 'the canonical form %s is not accepted by the parser (%s)' % (pcf[:140], show(a)[:40]), case)
        if ok:
            run.nontrivial_case('p' + texts[cid])

def run(tier, seed):
    run_ = fw.Run(PROP, tier, seed)
    run_.proof = fw.proof_step(PROP, THEOREMS)
    exe = fw.build_harness()
    drv = fw.build_ocaml()
    lines, meta = gen_cases(tier, seed)
    evaluate(run_, lines, meta, exe, drv)
    evaluate_pcf(run_, tier, seed)
    return fw.finish(run_, 'theorem C12_rabin_is_crc64 (all byte strings) + differential correspondence', RULE, search)

def search(run_):
    exe = fw.build_harness()
    drv = fw.build_ocaml()
    r2 = fw.Run(PROP, run_.tier, run_.seed + 1)
    lines, meta = gen_cases('thorough', run_.seed + 1)
    evaluate(r2, lines[:20000], meta, exe, drv)
    return r2.failures

def replay(rp):
    print(rp.get('failure'))
    return 0

def explore(run_, tier, seed):
    evaluate_pcf(run_, tier, seed)
