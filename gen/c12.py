"""C12 - fingerprints.  Theorems: coq/Props/C12.v (Rabin = bitwise CRC-64-AVRO for all byte strings).
Correspondence: apache_avro::rabin::Rabin and Schema::fingerprint against the extracted model, MD5 and
SHA-256 against hashlib, all over the canonical form the implementation reports."""
import hashlib
import framework as fw
from rng import Rng
from sx import parse, show, hx, unhx, tag
from schemas import gen_case_schema, schema_text

PROP = 'C12'
THEOREMS = ['C12_rabin_is_crc64', 'C12_digest_little_endian', 'C12_hello_world', 'C12_empty', 'C12_spec_int']
RULE = ('byte strings: empty, 1 byte, all 256 single bytes, structured and PRNG strings up to 64 KiB for the '
        'Rabin digest; generated schemas for fingerprint::<Rabin|Md5|Sha256> = digest(canonical form) and the '
        'single-object header; repeated in-process for determinism. non-trivial = distinct inputs of >= 2 bytes')

def gen_cases(tier, seed):
    rng = Rng(seed)
    lines = []
    meta = {}
    bs = [b'', b'\x00', b'\xff', b'hello world', b'"int"'] + [bytes([i]) for i in range(256)]
    nrand = 300 if tier == 'quick' else 5000
    for i in range(nrand):
        n = rng.choice([2, 3, 7, 8, 9, 15, 16, 17, 63, 64, 65, 255, 256, 1000]) if rng.chance(1, 2) else rng.below(400)
        bs.append(rng.bytes(n))
    bs.append(rng.bytes(65536))
    bs.append(b'\x00' * 4096)
    for i, b in enumerate(bs):
        cid = 'r%d' % i
        lines.append('%s (rabin %s)' % (cid, hx(b)))
        meta[cid] = ('rabin', b)
    nschemas = 300 if tier == 'quick' else 6000
    for i in range(nschemas):
        r = rng.fork(i)
        node, _ = gen_case_schema(r, max_depth=r.choice([1, 2, 3]))
        st = schema_text(node)
        for rep in range(2):
            cid = 'f%d_%d' % (i, rep)
            lines.append('%s (fingerprint %s)' % (cid, hx(st)))
            meta[cid] = ('fp', st)
    return lines, meta

def evaluate(run, lines, meta, exe, drv):
    impl = fw.run_lines(exe, lines)
    mlines = []
    for l in lines:
        cid = l.split(' ', 1)[0]
        kind, x = meta[cid]
        o = parse(impl.get(cid, '(missing)'))
        if kind == 'rabin':
            mlines.append('%s (rabin %s)' % (cid, hx(x)))
        elif tag(o) == 'ok':
            mlines.append('%s (rabin %s)' % (cid, o[1]))
    model = fw.run_lines(drv, mlines)
    first = {}
    for l in lines:
        cid = l.split(' ', 1)[0]
        kind, x = meta[cid]
        run.evaluations += 1
        o = parse(impl.get(cid, '(missing)'))
        run.count('impl:%s:%s' % (kind, tag(o)))
        if tag(o) != 'ok':
            if kind == 'fp' and tag(o) == 'schema-err':
                continue
            run.fail('impl-' + str(tag(o)), 'implementation outcome %s' % show(o)[:200], {'kind': kind, 'input': x if kind == 'fp' else x.hex()})
            continue
        m = parse(model.get(cid, '(missing)'))
        if kind == 'rabin':
            case = {'kind': 'rabin', 'bytes': x.hex()[:400], 'len': len(x)}
            if tag(m) != 'ok' or m[1] != o[1]:
                run.disagree('rabin', case, show(o), show(m))
                # the model is proved equal to CRC-64-AVRO: a different digest violates the property
                run.fail('rabin-differs', 'Rabin digest %s differs from CRC-64-AVRO %s' % (o[1], show(m)), case)
            elif len(x) >= 2:
                run.nontrivial_case('r' + x.hex())
            run.sample({'bytes': x.hex()[:60], 'digest': o[1]})
        else:
            pcf = unhx(o[1])
            case = {'kind': 'fingerprint', 'schema': x}
            okk = True
            if tag(m) != 'ok' or m[1] != o[2]:
                run.fail('rabin-fp-differs', 'fingerprint::<Rabin> %s is not CRC-64-AVRO of the canonical form (%s)' % (o[2], show(m)[:80]), case)
                okk = False
            if tag(m) == 'ok' and m[2] != o[5]:
                run.fail('header-differs', 'single-object header %s, expected %s' % (o[5], m[2]), case)
                okk = False
            if hashlib.md5(pcf).hexdigest() != o[3][1:]:
                run.fail('md5-differs', 'fingerprint::<Md5> is not MD5 of the canonical form', case)
                okk = False
            if hashlib.sha256(pcf).hexdigest() != o[4][1:]:
                run.fail('sha256-differs', 'fingerprint::<Sha256> is not SHA-256 of the canonical form', case)
                okk = False
            key = x
            if key in first and first[key] != show(o):
                run.fail('nondeterministic', 'two calls gave different results', case)
                okk = False
            first[key] = show(o)
            if okk:
                run.nontrivial_case('f' + x)
                run.sample({'schema': x[:120], 'pcf': pcf.decode('utf-8', 'replace')[:120], 'rabin': o[2]}, limit=9)

def run(tier, seed):
    run_ = fw.Run(PROP, tier, seed)
    run_.proof = fw.proof_step(PROP, THEOREMS)
    exe = fw.build_harness()
    drv = fw.build_ocaml()
    lines, meta = gen_cases(tier, seed)
    evaluate(run_, lines, meta, exe, drv)
    return fw.finish(run_, 'theorem C12_rabin_is_crc64 (all byte strings) + differential correspondence', RULE, search)

def search(run_):
    exe = fw.build_harness()
    drv = fw.build_ocaml()
    r2 = fw.Run(PROP, run_.tier, run_.seed + 1)
    lines, meta = gen_cases('thorough', run_.seed + 1)
    evaluate(r2, lines[:20000], meta, exe, drv)
    return r2.failures

def replay(rp):
    print(rp.get('failure'))
    return 0
