"""C03 - container files return exactly the appended values for any writer history.
Theorems: coq/Props/C03.v.  Correspondence: a real Writer driven through generated histories
(null codec: byte-exact against the model; other codecs: value-level), then read with Reader."""
import framework as fw
from rng import Rng
from sx import parse, show, hx, unhx, tag
from schemas import gen_case_schema, schema_text
from values import canon
import ocf

PROP = 'C03'
THEOREMS = ['C03_finished_file', 'C03_reads_back', 'C03_failed_append_no_trace', 'C03_reopen_continues', 'C03_example']
CFG = '(cfg 536870912 56 80)'
RULE = ('histories over {append_value_ref / append_value, unvalidated append (ref / owned), append_ser, extend_from_slice / extend / extend_ser (all good / one rejected value), append rejected by '
        'validation, unvalidated append and append_ser that fail after partial output, reset with values pending, flush, add_user_metadata (before/after header, avro.* keys), reset, '
        'into_inner, drop, append_to-style reopen} x block sizes {0,1,around the value size,16000} x codecs x 3 '
        'schema families (zero-width, fixed-width, variable-width record with a trailing nullable field). '
        'non-trivial = distinct histories with >= 2 blocks and at least one failed append')

FAMILIES = [
    ('"null"', lambda r: '(null)', None),
    ('{"type":"fixed","name":"F4","size":4}', lambda r: '(fixed 4 %s)' % hx(r.bytes(4)), None),
    ('{"type":"record","name":"P","namespace":"c3","fields":[{"name":"a","type":"long"},{"name":"s","type":"string"},{"name":"n","type":["null","long"]}]}',
     lambda r: '(record (kv #61 (long %d)) (kv #73 (string %s)) (kv #6e (union %d %s)))' % (
         r.range(-2**40, 2**40), hx('x' * r.below(30)), *((0, '(null)') if r.chance(1, 2) else (1, '(long %d)' % r.below(1000)))),
     lambda r: '(record (kv #61 (long %d)) (kv #73 (string %s)))' % (r.range(-2**40, 2**40), hx('partial' * r.range(1, 4)))),
]
CODECS = ['null', 'null', 'null', 'deflate', 'snappy', 'bzip2', 'xz', 'zstandard']

def gen_cases(tier, seed):
    rng = Rng(seed)
    lines, meta = [], {}
    nh = 400 if tier == 'quick' else 20000
    maxops = 8 if tier == 'quick' else 12
    for i in range(nh):
        r = rng.fork(i)
        if i % 4 == 3:
            node, _ = gen_case_schema(r, max_depth=r.choice([1, 2]))
            st = schema_text(node)
            good = lambda r, node=node: node.gen(r, 0)
            partial = None
        else:
            st, good, partial = FAMILIES[i % 3]
        codec = r.choice(CODECS)
        bsz = r.choice([0, 1, 5, 6, 7, 20, 40, 16000])
        marker = r.bytes(16)
        ops, kinds = [], []
        open_ = True
        for j in range(r.range(1, maxops)):
            k = r.below(20)
            if not open_:
                if r.chance(2, 3):
                    ops.append('(reopen)'); kinds.append('reopen'); open_ = True
                continue
            if k < 8:
                ops.append('(%s %s)' % (r.choice(['append', 'append', 'append-owned']), good(r))); kinds.append('append')
            elif k < 10:
                ops.append('(%s %s)' % (r.choice(['append-unvalidated', 'append-unvalidated-owned']), good(r))); kinds.append('append')
            elif k < 11:
                ops.append('(append (union 99 (null)))'); kinds.append('invalid')
            elif k < 12:
                vs = [good(r) for _ in range(r.range(0, 3))]
                ext = r.choice(['extend', 'extend-iter'])
                if r.chance(1, 3):
                    vs.insert(r.below(len(vs) + 1), '(union 99 (null))')
                    ops.append('(%s %s)' % (ext, ' '.join(vs))); kinds.append('extend-bad')
                elif partial and r.chance(1, 3):
                    ops.append('(extend-ser %s)' % ' '.join('(p %d %s%s)' % (r.below(999), hx('e' * r.below(9)), (' %d' % r.below(99)) if r.chance(1, 2) else '') for _ in range(r.range(0, 3))))
                    kinds.append('extend')
                else:
                    ops.append('(%s %s)' % (ext, ' '.join(vs))); kinds.append('extend')
            elif k < 14 and partial:
                # rejected by validation / encoder fails after partial output / serializer fails after partial output
                w = r.below(4)
                if w == 0:
                    ops.append('(append %s)' % partial(r)); kinds.append('partial')
                elif w == 1:
                    ops.append('(append-unvalidated %s)' % partial(r)); kinds.append('partial')
                elif w == 2:
                    ops.append('(append-ser-bad %d)' % r.range(-2**40, 2**40)); kinds.append('partial')
                else:
                    ops.append('(append-ser %d %s%s)' % (r.range(-2**40, 2**40), hx('s' * r.below(20)), (' %d' % r.below(1000)) if r.chance(1, 2) else '')); kinds.append('append')
            elif k < 16:
                ops.append('(flush)'); kinds.append('flush')
            elif k < 18:
                key = r.choice(['k', 'user.key', 'avro.x', 'k2', 'k'])
                ops.append('(meta %s %s)' % (hx(key), hx(r.bytes(r.below(5))))); kinds.append('meta')
            elif k < 19:
                if r.chance(1, 2):
                    # reset with values still pending, then an append that fails after partial output
                    ops.append('(append %s)' % good(r)); kinds.append('append')
                ops.append('(reset)'); kinds.append('reset')
                if partial and r.chance(1, 2):
                    ops.append(r.choice(['(append-unvalidated %s)' % partial(r), '(append-ser-bad %d)' % r.below(100)])); kinds.append('partial')
            else:
                ops.append(r.choice(['(finish)', '(drop)'])); kinds.append('finish'); open_ = False
        cid = 'w%d' % i
        lines.append('%s (cfile %s %s %d %s %s)' % (cid, hx(st), codec, bsz, hx(marker), ' '.join(ops)))
        meta[cid] = dict(schema=st, codec=codec, bsz=bsz, marker=marker, ops=ops, kinds=kinds)
    # directed: pending values discarded by reset, then a failing append with partial output, then a good one
    st, good, partial = FAMILIES[2]
    k = 0
    for codec in ['null', 'deflate', 'snappy'] if tier == 'quick' else ['null', 'deflate', 'snappy', 'bzip2', 'xz', 'zstandard']:
        for bsz in [16000, 60]:
            for first in [['(append %s)'], ['(append %s)', '(append-unvalidated %s)'], []]:
                for failing in ['(append-unvalidated %s)', '(append-ser-bad 7)', '(extend %s (union 99 (null)))']:
                    r = rng.fork(50000 + k)
                    ops = [f % good(r) for f in first] + ['(reset)']
                    kinds = ['append'] * len(first) + ['reset']
                    if '%s' in failing:
                        ops.append(failing % (good(r) if failing.startswith('(extend') else partial(r)))
                    else:
                        ops.append(failing)
                    kinds.append('extend-bad' if failing.startswith('(extend') else 'partial')
                    ops.append('(append %s)' % good(r)); kinds.append('append')
                    ops.append('(append-ser 5 %s 9)' % hx('tail')); kinds.append('append')
                    ops.append(r.choice(['(flush)', '(finish)', '(drop)'])); kinds.append('flush' if ops[-1] == '(flush)' else 'finish')
                    cid = 'd%d' % k; k += 1
                    marker = r.bytes(16)
                    lines.append('%s (cfile %s %s %d %s %s)' % (cid, hx(st), codec, bsz, hx(marker), ' '.join(ops)))
                    meta[cid] = dict(schema=st, codec=codec, bsz=bsz, marker=marker, ops=ops, kinds=kinds)
    return lines, meta

def expected_values(ops, results):
    """the abstract file: values of successful appends since the last reset"""
    vals = []
    for op, res in zip(ops, results):
        t = parse(op)
        if tag(t) in ('append', 'append-unvalidated', 'append-owned', 'append-unvalidated-owned', 'append-ser') and tag(res) == 'ok':
            vals.append(res[1])
        elif tag(t) == 'extend-ser':
            if tag(res) == 'ok':
                vals.extend(res[1:])
        elif tag(t) in ('extend', 'extend-iter'):
            # every value before the first rejected one was appended
            for src, shown in zip(t[1:], res[1:]):
                if show(src) == '(union 99 (null))':
                    break
                vals.append(shown)
        elif tag(t) == 'reset':
            vals = []
    return vals

def user_meta_expected(ops, results):
    m = {}
    for op, res in zip(ops, results):
        t = parse(op)
        if tag(t) == 'meta' and tag(res) == 'ok':
            m[t[1]] = t[2]
        elif tag(t) == 'reset':
            m = {}
    return m

def evaluate(run, lines, meta, exe, drv):
    schema_pending = []
    _evaluate(run, lines, meta, exe, drv, schema_pending)
    if schema_pending:
        # the schema embedded in the header reads back as another schema: a known finding (F19) only where the faithful
        # model of serialise + parse loses the same thing on the same schema
        mod = fw.run_lines(drv, ['%s (schema-json %s)' % (cid, sx_) for cid, _, sx_, _ in schema_pending])
        for cid, case, sx_, back in schema_pending:
            m = parse(mod.get(cid, '(missing)'))
            same = tag(m) == 'ok' and tag(m[5]) == 'ok' and show(m[5][1]) == back
            run.fail('embedded-schema-null-namespace' if same and fw.null_ns_schema(case['schema']) else 'schema-differs', 'embedded schema reads back differently', case)

def _evaluate(run, lines, meta, exe, drv, schema_pending):
    impl = fw.run_lines(exe, lines)
    rlines, mlines = [], []
    parsed = {}
    for l in lines:
        cid = l.split(' ', 1)[0]
        mt = meta[cid]
        run.evaluations += 1
        o = parse(impl.get(cid, '(missing)'))
        run.count('impl:' + str(tag(o)))
        if tag(o) == 'schema-err':
            continue
        case = {k: (v.hex() if isinstance(v, bytes) else v) for k, v in mt.items() if k not in ('kinds', 'groups')}
        if tag(o) != 'obs':
            run.fail('impl-' + str(tag(o)), 'implementation outcome %s' % show(o)[:200], case)
            continue
        parsed[cid] = o
        sink = unhx(o[3])
        rlines.append('%s (cread %s)' % (cid, o[3]))
        if mt['codec'] == 'null':
            # model ops: values in the implementation's iteration order; reset markers from the sink
            try:
                hmeta, hmarker, _ = ocf.parse_header(sink) if sink else ([], mt['marker'], 0)
            except ocf.OcfError:
                hmeta, hmarker = [], mt['marker']
            sjson = dict(hmeta).get(b'avro.schema', b'')
            mops = []
            groups = []
            for op, res in zip(mt['ops'], o[2][1:]):
                t = parse(op)
                n0 = len(mops)
                if tag(t) in ('append', 'append-unvalidated', 'append-owned', 'append-unvalidated-owned'):
                    mops.append('(%s %s)' % ('append' if t[0] in ('append', 'append-owned') else 'append-unvalidated', show(res[1])))
                elif tag(t) == 'extend-ser':
                    for shown in res[1:]:
                        mops.append('(append-unvalidated %s)' % show(shown))
                    mops.append('(flush)')
                    groups.append(len(mops) - n0)
                    continue
                elif tag(t) == 'append-ser':
                    mops.append('(append-unvalidated %s)' % show(res[1]))
                elif tag(t) == 'append-ser-bad':
                    # the serializer writes field a, then fails on field s: the encoder model fails on the missing field
                    mops.append('(append-unvalidated (record (kv #61 (long %s))))' % t[1])
                elif tag(t) in ('extend', 'extend-iter'):
                    bad = False
                    for src, shown in zip(t[1:], res[1:]):
                        mops.append('(append %s)' % show(shown))
                        if show(src) == '(union 99 (null))':
                            bad = True
                            break
                    if not bad:
                        mops.append('(flush)')
                    if len(mops) == n0:
                        mops.append('(flush)')
                    groups.append(len(mops) - n0)
                    continue
                elif tag(t) == 'reset':
                    mops.append('(reset %s)' % hx(hmarker))
                else:
                    mops.append(op)
                groups.append(len(mops) - n0)
            mt['groups'] = groups
            if not mt['kinds'] or mt['kinds'][-1] != 'finish':
                mops.append('(drop)')        # the harness drops the still-open writer at the end
            if sjson or not sink:
                if not sjson:
                    sjson = mt['schema'].encode()
                mlines.append('%s (cfile %s %d %s %s %s)' % (cid, show(o[1]), mt['bsz'], hx(mt['marker']), hx(sjson), ' '.join(mops)))
    reads = fw.run_lines(exe, rlines)
    model = fw.run_lines(drv, mlines)
    for cid, o in parsed.items():
        mt = meta[cid]
        case = {k: (v.hex() if isinstance(v, bytes) else v) for k, v in mt.items() if k not in ('kinds', 'groups')}
        results = o[2][1:]
        sink = unhx(o[3])
        finished = bool(mt['kinds']) and (mt['kinds'][-1] == 'finish' or True)   # the harness drops the writer at the end
        want = [canon(v, True) for v in expected_values(mt['ops'], results)]
        rd = parse(reads.get(cid, '(missing)'))
        # --- property on the implementation: reading yields exactly the appended values, schema, metadata
        for op, kind, res in zip(mt['ops'], mt['kinds'], results):
            if kind == 'append' and tag(res) != 'ok':
                run.fail('good-append-fails', 'a conforming value failed to append: %s' % show(res)[:100], case)
            if kind == 'extend' and tag(res) != 'ok':
                run.fail('good-append-fails', 'extending with conforming values failed', case)
            if kind in ('invalid', 'partial', 'extend-bad') and tag(res) == 'ok':
                run.fail('bad-append-accepted', 'an append that must fail returned ok', case)
        if not sink:
            if want:
                run.fail('values-lost', 'no output at all', case)
        elif tag(rd) != 'obs' or tag(rd[1]) != 'ok':
            run.fail('unreadable', 'the written file cannot be opened: %s' % show(rd)[:120], case)
        else:
            items = rd[2][1:]
            got = [canon(x[1], True) for x in items if tag(x) == 'ok']
            if any(tag(x) != 'ok' for x in items):
                run.fail('read-error', 'reading the written file reports an error', case)
            elif got != want:
                run.fail('values-differ', 'read %d values, appended %d (%s...)' % (len(got), len(want), show(got[:2])[:120]), case)
            else:
                um = {e[1]: e[2] for e in rd[1][2][1:]}
                if um != user_meta_expected(mt['ops'], results):
                    run.fail('metadata-differs', 'user metadata read back %s' % um, case)
                if show(rd[1][1]) != show(o[1]):
                    schema_pending.append((cid, case, show(o[1]), show(rd[1][1])))
        # --- correspondence (null codec): same results, same header content, byte-identical block section
        if mt['codec'] == 'null' and cid in model:
            m = parse(model[cid])
            if tag(m) != 'ok':
                run.disagree('cfile', case, show(o[2])[:200], show(m)[:200])
            else:
                ir = [1 if tag(x) == 'ok' else 0 for x in results]
                flat = [int(x) for x in m[1][1:]]
                mr, pos = [], 0
                for g in mt.get('groups', [1] * len(ir)):
                    mr.append(1 if all(flat[pos:pos + g]) else 0); pos += g
                msink = unhx(m[2])
                if ir != mr:
                    run.disagree('results', case, str(ir), str(mr))
                elif bool(sink) != bool(msink):
                    run.disagree('sink-empty', case, o[3][:80], m[2][:80])
                elif sink:
                    try:
                        a = ocf.parse_header(sink); b = ocf.parse_header(msink)
                        if sorted(a[0]) != sorted(b[0]) or a[1] != b[1] or sink[a[2]:] != msink[b[2]:]:
                            run.disagree('sink', case, o[3][:300], m[2][:300])
                    except ocf.OcfError as e:
                        run.disagree('sink-unparsable', case, o[3][:200], str(e))
        nblocks = 0
        if sink:
            try:
                h = ocf.parse_header(sink)
                nblocks = len(ocf.parse_blocks(sink, h[2], h[1])[0])
            except ocf.OcfError:
                pass
        run.count('codec:' + mt['codec'])
        run.count('blocks:%s' % ('0' if nblocks == 0 else '1' if nblocks == 1 else '2+'))
        if nblocks >= 2 and any(k in ('invalid', 'partial', 'extend-bad') for k in mt['kinds']):
            run.nontrivial_case(repr([mt['schema'], mt['codec'], mt['bsz'], mt['ops']]))
            run.sample({'schema': mt['schema'][:80], 'codec': mt['codec'], 'block_size': mt['bsz'], 'ops': [x[:50] for x in mt['ops']]}, limit=4)

def run(tier, seed):
    run_ = fw.Run(PROP, tier, seed)
    run_.proof = fw.proof_step(PROP, THEOREMS)
    exe = fw.build_harness()
    drv = fw.build_ocaml()
    lines, meta = gen_cases(tier, seed)
    evaluate(run_, lines, meta, exe, drv)
    return fw.finish(run_, 'theorems C03_* (all histories) + differential correspondence', RULE, search)

def search(run_):
    exe = fw.build_harness()
    drv = fw.build_ocaml()
    r2 = fw.Run(PROP, 'thorough', run_.seed + 1)
    lines, meta = gen_cases('thorough', run_.seed + 1)
    evaluate(r2, lines[:4000], meta, exe, drv)
    return r2.failures

def replay(rp):
    f = rp.get('failure')
    print(f)
    if f:
        c = f['case']
        exe = fw.build_harness()
        print(fw.run_lines(exe, ['r0 (cfile %s %s %d #%s %s)' % (hx(c['schema']), c['codec'], c['bsz'], c['marker'], ' '.join(c['ops']))]))
    return 0
