"""C20 - multi-schema parsing is independent of input order and deterministic.
Theorems: coq/Props/C20.v.  Check: generated sets of mutually referencing named schemas x all permutations of the input
list x repeated runs (each run is its own process: the parser's pending set is a HashMap with a per-process seed)."""
import itertools
import json
import framework as fw
from rng import Rng
from sx import parse, show, hx, unhx, tag
import sj

PROP = 'C20'
THEOREMS = ['C20_collision_rejected', 'C20_input_order_result', 'C20_order_dependence_refuted', 'C20_type_name_example', 'C20_examples']
RULE = ('sets of 2-4 named schemas (chains, diamonds, cycles, cross-namespace references, nested definitions, conflicting '
        'duplicates, dangling references, a simple name shadowed by a null-namespace type of the same name) x all permutations (up to 24) x 3 runs in separate processes. non-trivial = distinct '
        'sets with at least one cross reference that parse')

def gen_set(r):
    """returns (list of schema JSON values, expectation: 'ok' | 'err' | None when the rules do not decide it here)"""
    k = r.choice([2, 2, 3, 3, 4])
    nss = [None, 'a', 'a.b', 'c']
    names = []
    for i in range(k):
        ns = r.choice(nss)
        names.append((ns, 'T%d' % i))
    full = [(ns + '.' if ns else '') + n for ns, n in names]
    shape = r.choice(['chain', 'diamond', 'cycle', 'free', 'nested', 'dangling', 'duplicate', 'nested-duplicate'])
    out = []
    expect = 'ok'
    def ref(i, j):
        """a spelling of full[j] valid inside names[i]'s namespace"""
        if names[j][0] is None and names[i][0] is not None:
            return None          # a null-namespace type cannot be named from inside a namespace (F26 spelling excluded)
        if names[j][0] == names[i][0] and r.chance(1, 2):
            return names[j][1]
        return full[j]
    for i in range(k):
        ns, n = names[i]
        if shape == 'chain':
            targets = [i + 1] if i + 1 < k else []
        elif shape == 'diamond':
            targets = [k - 1] if i < k - 1 and i > 0 else ([1, min(2, k - 1)] if i == 0 else [])
        elif shape == 'cycle':
            targets = [(i + 1) % k]
        elif shape == 'free':
            targets = [j for j in range(k) if j != i and r.chance(1, 3)]
        else:
            targets = [i + 1] if i + 1 < k else []
        kind = r.choice(['record', 'record', 'record', 'enum', 'fixed']) if not targets else 'record'
        d = {'type': kind, 'name': n}
        if ns is not None:
            if r.chance(1, 2):
                d['namespace'] = ns
            else:
                d['name'] = ns + '.' + n
        if kind == 'record':
            fields = []
            for q, j in enumerate(sorted(set(targets))):
                sp = ref(i, j)
                if sp is None:
                    continue
                t = r.choice([sp, ['null', sp], {'type': 'array', 'items': sp}, {'type': 'map', 'values': sp}])
                fields.append({'name': 'f%d' % q, 'type': t})
            if r.chance(1, 2):
                fields.append({'name': 'x', 'type': r.choice(['int', 'string', {'type': 'array', 'items': 'long'}])})
            d['fields'] = fields
        elif kind == 'enum':
            d['symbols'] = ['A', 'B']
        else:
            d['size'] = r.choice([1, 4])
        out.append(d)
    if shape == 'dangling':
        victim = r.below(k)
        if out[victim]['type'] == 'record':
            out[victim]['fields'].append({'name': 'dang', 'type': 'no.such.Type'})
            expect = 'err'
    elif shape == 'duplicate':
        out.append(dict(out[0]))
        expect = 'err'
    elif shape == 'nested-duplicate':
        # a definition nested in one input that also is an input of its own: a full name defined twice
        j = r.below(k)
        host = next((d for q, d in enumerate(out) if q != j and d['type'] == 'record'), None)
        if host is not None:
            host['fields'].append({'name': 'nested', 'type': dict(out[j], **({'namespace': names[j][0]} if names[j][0] and '.' not in out[j]['name'] else {}))})
            expect = 'err'
    elif shape == 'nested':
        # a definition nested inside one input, referred to by another input
        host = next((d for d in out if d['type'] == 'record'), None)
        user = next((d for d in out if d['type'] == 'record' and d is not host), None)
        if host is not None and user is not None:
            host['fields'].append({'name': 'inner', 'type': {'type': 'fixed', 'name': 'q.Inner', 'size': 2}})
            user['fields'].append({'name': 'uses', 'type': 'q.Inner'})
            expect = None      # resolvable within the set, but only if the host is parsed first: the rules say it parses
    return out, expect, shape

def gen(tier, seed):
    rng = Rng(seed)
    n = 60 if tier == 'quick' else 1500
    sets = []
    # witnesses of the known classes
    sets.append(([{'type': 'record', 'name': 'A', 'fields': [{'name': 'i', 'type': {'type': 'fixed', 'name': 'q.Inner', 'size': 2}}]},
                  {'type': 'record', 'name': 'B', 'fields': [{'name': 'u', 'type': 'q.Inner'}]}], None, 'nested'))
    sets.append(([{'name': 'A', 'type': {'type': 'record', 'name': 'B', 'fields': []}}, {'type': 'fixed', 'name': 'C', 'size': 1}], None, 'type-object'))
    # a simple name used inside a namespace while the set also holds that simple name in the null namespace: the
    # reference means <namespace>.<name> whatever else the set contains and in whatever order it is processed
    for q, (ns, wrap) in enumerate([('x', 0), ('x', 1), ('a.b', 2), ('x', 3)]):
        t = ['B', ['null', 'B'], {'type': 'array', 'items': 'B'}, {'type': 'map', 'values': 'B'}][wrap]
        A = {'type': 'record', 'name': 'A', 'namespace': ns, 'fields': [{'name': 'b', 'type': t}]}
        Bnull = [{'type': 'record', 'name': 'B', 'fields': [{'name': 'n', 'type': 'int'}]}, {'type': 'enum', 'name': 'B', 'symbols': ['N']},
                 {'type': 'fixed', 'name': 'B', 'size': 1}][q % 3]
        Bns = {'type': 'record', 'name': 'B', 'namespace': ns, 'fields': [{'name': 's', 'type': 'string'}]}
        sets.append(([A, Bnull], 'err', 'shadow-dangling'))
        sets.append(([A, Bns, Bnull], 'ok', 'shadow-both'))
        sets.append(([A, Bns, Bnull, {'type': 'record', 'name': 'C', 'fields': [{'name': 'b', 'type': 'B'}, {'name': 'a', 'type': ns + '.A'}]}], 'ok', 'shadow-both'))
    for i in range(n):
        sets.append(gen_set(rng.fork(i)))
    return sets

def judge(run, sets, results, model):
    for si, (js, expect, shape) in enumerate(sets):
        run.evaluations += 1
        k = len(js)
        perms = list(itertools.permutations(range(k)))[:24]
        case = {'schemas': [json.dumps(x) for x in js], 'shape': shape}
        outcomes = {}
        for pi, p in enumerate(perms):
            for rep in range(3):
                o = results.get('s%d_p%d_r%d' % (si, pi, rep))
                if o is None:
                    continue
                if tag(o) in ('panic', 'timeout', 'abort', 'missing'):
                    outcomes[(pi, rep)] = (tag(o),)
                elif tag(o) == 'ok':
                    # back to the canonical order of the set
                    inv = [None] * k
                    for pos, src in enumerate(p):
                        inv[src] = show(o[1 + pos]) if 1 + pos < len(o) else None
                    outcomes[(pi, rep)] = ('ok', tuple(inv))
                else:
                    outcomes[(pi, rep)] = (tag(o),)
        kinds = {v[0] for v in outcomes.values()}
        run.count('%s:%s' % (shape, '+'.join(sorted(kinds))))
        mres = {pi: model.get('s%d_p%d' % (si, pi)) for pi in range(len(perms))}
        mkinds = {tag(m) for m in mres.values() if m is not None}
        # the model (hash order = input order of each permutation) explains a difference between orders
        model_order_dependent = len(mkinds) > 1
        if 'panic' in kinds:
            run.fail('parse-list-panic' if not ('panic' in mkinds) else 'type-object-name-panic', 'parse_list panicked', case)
            continue
        if len(set(outcomes.values())) > 1:
            cls = 'order-dependent-nested-definition' if model_order_dependent and shape in ('nested', 'nested-duplicate') else None
            run.fail(cls or 'order-or-run-dependent', 'outcomes differ between orderings / runs: %s' % sorted(kinds), case)
            continue
        got = next(iter(kinds)) if kinds else None
        if expect is not None and got != expect:
            cls = 'duplicate-definition-accepted' if expect == 'err' and shape == 'nested-duplicate' and 'ok' in mkinds else None
            run.fail(cls or 'wrong-verdict', 'parse_list gives %s, the rules give %s' % (got, expect), case)
        elif got == 'ok' and shape not in ('duplicate', 'dangling'):
            run.nontrivial_case(json.dumps(js))
            run.sample({'schemas': [json.dumps(x)[:70] for x in js], 'shape': shape}, limit=6)
        # correspondence: every processing order of the model gives the implementation's outcome
        for pi, m in mres.items():
            o = results.get('s%d_p%d_r0' % (si, pi))
            if m is None or o is None:
                continue
            if tag(m) != tag(o) or (tag(o) == 'ok' and show(m) != show(o)):
                if len(set(outcomes.values())) == 1 and not model_order_dependent:
                    run.disagree('parse-list', case, show(o)[:200], show(m)[:200])
                break

def with_list(run, sets, exe):
    """Schema::parse_str_with_list(main, others): when the others parse on their own, parsing main with them is
    parsing the whole list with main last - same verdict, same schemas"""
    lines = []
    for si, (js, expect, shape) in enumerate(sets):
        if len(js) < 2 or shape in ('nested', 'nested-duplicate', 'type-object', 'duplicate'):
            continue            # order-dependent by a known finding / a main that redefines an input (registration overwrites: F25b)
        for mi in range(len(js)):
            others = [x for q, x in enumerate(js) if q != mi]
            ot = ' '.join(hx(json.dumps(x)) for x in others)
            lines.append('w%d_%d_a (parse-list %s)' % (si, mi, ot))
            lines.append('w%d_%d_b (parse-list %s %s)' % (si, mi, ot, hx(json.dumps(js[mi]))))
            lines.append('w%d_%d_c (parse-with-list %s %s)' % (si, mi, hx(json.dumps(js[mi])), ot))
    out = {k: parse(v) for k, v in fw.run_lines(exe, lines).items()}
    for si, (js, expect, shape) in enumerate(sets):
        for mi in range(len(js)):
            a, b, c = (out.get('w%d_%d_%s' % (si, mi, x)) for x in 'abc')
            if a is None or b is None or c is None or tag(a) != 'ok':
                continue
            run.evaluations += 1
            case = {'main': json.dumps(js[mi]), 'others': [json.dumps(x) for q, x in enumerate(js) if q != mi], 'shape': shape}
            run.count('with-list:%s/%s' % (tag(b), tag(c)))
            if tag(c) == 'panic':
                run.fail('parse-list-panic', 'parse_str_with_list panicked', case)
            elif tag(b) != tag(c):
                run.fail('with-list-differs', 'parse_list(others + [main]) is %s, parse_str_with_list(main, others) is %s' % (tag(b), tag(c)), case)
            elif tag(b) == 'ok' and (show(c[1]) != show(b[-1]) or [show(x) for x in c[2:]] != [show(x) for x in b[1:-1]]):
                run.fail('with-list-differs', 'parse_str_with_list(main, others) returns other schemas than parse_list(others + [main])', case)
            elif tag(b) == 'ok':
                run.nontrivial_case('wl' + json.dumps(js) + str(mi))

def collect(tier, seed):
    sets = gen(tier, seed)
    texts = {}
    exe = fw.build_harness()
    lines = []
    mlines = []
    for si, (js, expect, shape) in enumerate(sets):
        k = len(js)
        perms = list(itertools.permutations(range(k)))[:24]
        for pi, p in enumerate(perms):
            args = ' '.join(hx(json.dumps(js[i])) for i in p)
            for rep in range(3):
                lines.append('s%d_p%d_r%d (parse-list %s)' % (si, pi, rep, args))
            mlines.append(('s%d_p%d' % (si, pi), [js[i] for i in p]))
    # each run in its own process (fresh hash seed): one case per process is too slow; shard so that the three
    # repetitions of a case land in different processes
    results = {}
    for rep in range(3):
        part = [l for l in lines if l.split(' ', 1)[0].endswith('_r%d' % rep)]
        out = fw.run_lines(exe, part)
        results.update({k: parse(v) for k, v in out.items()})
    # the model needs the parsed JSON values: take them from the implementation's JSON reader
    vals = sj.run_impl('parse-text', {'j%d_%d' % (si, i): json.dumps(x) for si, (js, _, _) in enumerate(sets) for i, x in enumerate(js)})
    def jv(si, x, js):
        o = vals['j%d_%d' % (si, js.index(x))]
        return show(o[1]) if tag(o) == 'obs' else None
    ml = []
    for cid, xs in mlines:
        si = int(cid[1:].split('_')[0])
        js = sets[si][0]
        terms = [jv(si, x, js) for x in xs]
        if all(t is not None for t in terms):
            ml.append('%s (parse-list (order %s) %s)' % (cid, ' '.join(str(i) for i in range(len(xs))), ' '.join(terms)))
    model = sj.run_model(ml)
    return sets, results, model

def run(tier, seed):
    run_ = fw.Run(PROP, tier, seed)
    run_.proof = fw.proof_step(PROP, THEOREMS)
    judge(run_, *collect(tier, seed))
    with_list(run_, gen(tier, seed), fw.build_harness())
    return fw.finish(run_, 'theorems C20_* + permutation / repeated-run differential check of parse_list and parse_str_with_list', RULE, search)

def explore(run_, tier, seed):
    judge(run_, *collect(tier, seed))

def search(run_):
    r2 = fw.Run(PROP, run_.tier, run_.seed + 1)
    judge(r2, *collect('quick', run_.seed + 1))
    return r2.failures

def replay(rp):
    print(rp.get('failure'))
    return 0
