"""C02 - binary encoding follows the Avro specification.  Theorems: coq/Props/C02.v (encoder output is
in the specification relation; the decoder accepts every specification-legal layout; the layout
generator is sound).  Check: forward - the implementation's bytes equal the model encoder's (which is
proved in-spec) and decode in the model to the value; reverse - layouts produced by the certified
generator (blocks of 1, 2, 3 items, positive and negative counts with byte sizes) are fed to
GenericDatumReader and to the schema-aware deserializer and must decode to the same value, nothing left."""
import framework as fw
from rng import Rng
from sx import parse, show, hx, unhx, tag
from schemas import gen_case_schema, schema_text
from values import canon

PROP = 'C02'
THEOREMS = ['C02_encoder_in_spec', 'C02_decoder_accepts_spec', 'C02_layout_sound', 'C02_audit_accepts_spec', 'C02_spec_longs',
            'C02_spec_record', 'C02_spec_array', 'C02_spec_union', 'C02_lax_layout', 'C02_audit_example',
            'C02_audit_only_spec_refuted', 'C02_decoder_padding_invariant', 'C02_padded_long_decodes', 'C02_padding_example',
            'C02_padded_long_accepted_outside_spec', 'C02_decode_head_padding_invariant', 'C02_head_padding_example']
CFG = '(cfg 536870912 56 80)'
RULE = ('(schema, value) pairs as in C01 (all primitive / logical / named / recursive kinds); per pair the '
        'implementation encoding and up to 6 specification-legal layouts from the certified generator: block '
        'size 1, 2, 3 x positive counts / negative counts with byte sizes. non-trivial = distinct layouts that '
        'differ from the implementation\'s own bytes (i.e. the value contains a non-empty array or map); plus the serde writer on 12 corpus '
        'types x target block sizes {none,1,16,64,large}, its bytes read by the strict block auditor and the specification decoder; '
        'plus padded (overlong) variable-length integers in every position (datum, length, block count, block size, branch index) and generated ones stretched to 2..11 bytes (the decoder\'s ten-byte limit crossed both ways), '
        'the witness of C02_audit_only_spec_refuted, read by the implementation and by the model')

def gen_cases(tier, seed):
    rng = Rng(seed)
    n = 350 if tier == 'quick' else 15000
    per = 3 if tier == 'quick' else 6
    lines, meta = [], {}
    k = 0
    for i in range(n):
        r = rng.fork(i)
        node, _ = gen_case_schema(r, max_depth=r.choice([1, 2, 3, 3]))
        st = schema_text(node)
        for j in range(per):
            cid = 'c%d' % k; k += 1
            v = node.gen(r, 0)
            lines.append('%s (datum %s %s # 1)' % (cid, hx(st), v))
            meta[cid] = (st, v)
    return lines, meta

def evaluate(run, lines, meta, exe, drv):
    impl = fw.run_lines(exe, lines)
    mlines, parsed, unusable = [], {}, {}
    for cid, (st, v) in meta.items():
        run.evaluations += 1
        o = parse(impl.get(cid, '(missing)'))
        if tag(o) == 'schema-err':
            continue
        case = {'schema': st, 'value': v}
        if tag(o) == 'obs' and tag(o[3]) == 'writer-err' and fw.null_ns_schema(st):
            unusable[cid] = o
            mlines.append('%se (encode %s %s)' % (cid, show(o[1]), show(o[2])))
            continue
        if tag(o) != 'obs' or tag(o[3]) != 'ok':
            run.fail('impl-' + str(tag(o)), 'cannot encode: %s' % show(o)[:160], case)
            continue
        parsed[cid] = o
        mlines.append('%se (encode %s %s)' % (cid, show(o[1]), show(o[2])))
        for kk in (0, 1, 2):
            for neg in (0, 1):
                mlines.append('%sL%d%d (layout %d %d %s %s %s)' % (cid, kk, neg, kk, neg, CFG, show(o[1]), show(o[2])))
        # the implementation's own bytes read strictly: every block size it announces is right
        mlines.append('%sA (audit %s %s %s)' % (cid, CFG, show(o[1]), o[3][1]))
    model = fw.run_lines(drv, mlines)
    for cid, o in unusable.items():
        st, v = meta[cid]
        me = parse(model.get(cid + 'e', '(missing)'))
        if show(me) == show(o[3]):
            run.fail('unresolvable-reference-accepted', 'the parser accepted the schema but no writer can be built for it (a null-namespace name used inside a namespaced type)', {'schema': st, 'value': v})
        else:
            run.fail('impl-obs', 'cannot encode: %s (model: %s)' % (show(o[3])[:80], show(me)[:80]), {'schema': st, 'value': v})
    for cid, o in parsed.items():
        a = parse(model.get(cid + 'A', '(missing)'))
        if tag(a) != 'ok' or a[1] != '#':
            st, v = meta[cid]
            run.fail('block-size-wrong', 'the bytes written do not pass the strict block audit (%s)' % show(a)[:60], {'schema': st, 'value': v, 'bytes': o[3][1][:200]})
    # forward: implementation bytes = model encoder bytes (in-spec by C02_encoder_in_spec)
    rlines, rmeta = [], {}
    audits = []
    for cid, o in parsed.items():
        st, v = meta[cid]
        case = {'schema': st, 'value': v}
        me = parse(model.get(cid + 'e', '(missing)'))
        if show(me) != show(o[3]):
            run.disagree('encode', case, show(o[3])[:300], show(me)[:300])
            # an implementation encoding outside the specification relation
            run.fail('bytes-not-in-spec', 'implementation wrote %s, the specification-legal canonical form is %s' % (show(o[3])[:120], show(me)[:120]), case)
        seen = {o[3][1]}
        for kk in (0, 1, 2):
            for neg in (0, 1):
                m = parse(model.get('%sL%d%d' % (cid, kk, neg), '(missing)'))
                if tag(m) != 'ok':
                    run.disagree('layout', case, 'ok', show(m)[:100])
                    continue
                if m[2] != '1' or m[3] != '1':
                    run.count('layout-outside-theorem-hypotheses')      # e.g. null-namespace names table
                audits.append(('%sL%d%d' % (cid, kk, neg), show(o[1]), m[1], cid))
                if m[1] in seen:
                    continue
                seen.add(m[1])
                rid = '%sR%d%d' % (cid, kk, neg)
                rlines.append('%s (decode2 %s %s)' % (rid, hx(st), m[1]))
                rmeta[rid] = (cid, kk, neg, m[1])
    # C02_audit_accepts_spec on the extracted code: every certified layout passes the strict audit
    amodel = fw.run_lines(drv, ['%s (audit %s %s %s)' % (k, CFG, sch, lb) for k, sch, lb, _ in audits])
    for k, sch, lb, cid in audits:
        a = parse(amodel.get(k, '(missing)'))
        run.count('audit-of-certified-layout:' + str(tag(a)))
        if tag(a) != 'ok' or a[1] != '#':
            run.disagree('audit', {'schema': meta[cid][0], 'layout': lb[:200]}, 'certified legal layout', show(a)[:60])
    got = fw.run_lines(exe, rlines)
    for rid, (cid, kk, neg, lb) in rmeta.items():
        run.evaluations += 1
        run.count('layout:k%d:%s' % (kk + 1, 'neg' if neg else 'pos'))
        st, v = meta[cid]
        case = {'schema': st, 'value': v, 'layout': lb, 'block': kk + 1, 'negative_counts': bool(neg)}
        o = parse(got.get(rid, '(missing)'))
        want = canon(parse(v), True)
        if tag(o) != 'obs':
            run.fail('impl-' + str(tag(o)), 'outcome %s' % show(o)[:120], case)
        elif tag(o[2]) != 'ok':
            run.fail('spec-layout-rejected', 'a specification-legal layout is rejected by the generic decoder: %s' % show(o[2])[:80], case)
        elif canon(o[2][1], True) != want or o[2][2] != '#':
            run.fail('spec-layout-misread', 'a specification-legal layout decodes to %s (rest %s)' % (show(o[2][1])[:160], o[2][2][:20]), case)
        elif tag(o[6]) != 'ok' or o[6][1] != '#':
            if '"namespace": ""' in st:
                run.fail('deser-null-namespace-ref', 'schema-aware deserializer rejects: %s' % show(o[6])[:80], case)
            else:
                run.fail('spec-layout-rejected-by-deserializer', 'the schema-aware deserializer: %s' % show(o[6])[:80], case)
        else:
            run.nontrivial_case(st + lb)
            run.sample({'schema': st[:100], 'value': v[:100], 'layout': lb[:80], 'block': kk + 1, 'neg': bool(neg)})
        if tag(o) == 'obs' and len(o) > 8:
            fw.judge_partial(run, o[8], tag(o[2]) == 'ok' and tag(o[6]) == 'ok', st, case)

SERDE_TYPES = ['blobs', 'blobs2', 'reversed', 'interleaved', 'with-many', 'scalars', 'nested', 'node', 'wrap-inner', 'wrap-suit', 'with-shapes', 'reuse', 'units', 'vec-unit', 'vec-nothing', 'pair', 'array3']
SERDE_BLOCKS = ['', '1', '16', '64', '100000']

def serde_audit(run, exe, drv, tier, seed):
    """the serde write path with target block sizes emits blocks with negative counts and byte sizes
    (ser_schema/block.rs): what it writes must pass the strict audit and be one datum, the same for every block size"""
    n = 8 if tier == 'quick' else 300
    lines = []
    for t in SERDE_TYPES:
        for i in range(n):
            for b in SERDE_BLOCKS:
                lines.append('%s|%d|%s (serde %s %d %s)' % (t, i, b or 'none', t, seed * 1000 + i, b))
    out = {k: parse(v) for k, v in fw.run_lines(exe, lines).items()}
    ml = []
    for k, o in out.items():
        if tag(o) == 'obs' and isinstance(o[5], str) and tag(o[6]) == 'ok':
            ml.append('%s|a (audit %s %s %s)' % (k, CFG, show(o[1]), o[5]))
            ml.append('%s|d (decode %s %s %s)' % (k, CFG, show(o[1]), o[5]))
    model = fw.run_lines(drv, ml)
    per = {}
    for k, o in sorted(out.items()):
        t, i, b = k.split('|')
        run.evaluations += 1
        case = {'type': t, 'seed_index': int(i), 'block_size': b}
        if tag(o) != 'obs' or tag(o[6]) != 'ok':
            run.fail('serde-write-fails', show(o)[:100], case)
            continue
        case['bytes'] = o[5][:300]
        a = parse(model.get(k + '|a', '(missing)'))
        d = parse(model.get(k + '|d', '(missing)'))
        run.count('serde-audit:' + str(tag(a)))
        if tag(a) != 'ok' or a[1] != '#':
            run.fail('block-size-wrong', 'serde writer output does not pass the strict block audit: a block announces a byte size that is not the size of its items (%s)' % show(a)[:40], case)
        elif tag(d) != 'ok' or d[2] != '#':
            run.fail('serde-bytes-not-one-datum', 'the specification decoder reads %s' % show(d)[:60], case)
        else:
            per.setdefault((t, i), {})[b] = show(canon(d[1], True))
            if b not in ('none', '100000') and '01' in o[5]:
                run.nontrivial_case('serde' + k)
    for (t, i), dd in per.items():
        if len(set(dd.values())) > 1:
            run.fail('block-size-changes-value', 'block sizes %s give different data' % sorted(dd), {'type': t, 'seed_index': int(i)})

# padded variable-length integers: outside the specification relation (C02_audit_only_spec_refuted), read by
# decode_variable like the minimal form.  (schema, padded bytes, the minimal encoding of the same datum)
OVERLONG = [
    ('"long"', '8000', '00'), ('"long"', '80808000', '00'), ('"long"', '818000', '01'), ('"int"', '8000', '00'),
    ('"int"', '828000', '02'), ('"string"', '820061', '0261'), ('"bytes"', '8000', '00'),
    ('{"type":"array","items":"long"}', '828000048000', '020400'),
    ('{"type":"array","items":"long"}', '8180008280000400', '01020400'),
    ('{"type":"map","values":"int"}', '02820061048000', '0202610400'),
    ('["null","long"]', '820004', '0204'), ('["null","long"]', '8000', '00'),
    ('{"type":"enum","name":"e","symbols":["a","b"]}', '8200', '02'),
    ('{"type":"record","name":"r","fields":[{"name":"a","type":"long"},{"name":"b","type":"string"}]}', 'b68000868000666f6f', '3606666f6f'),
]

def _varint(v):
    n = (v << 1) if v >= 0 else ((-v) << 1) - 1
    out = []
    while True:
        if n < 128:
            out.append(n)
            return out
        out.append(128 + n % 128)
        n //= 128

def _padded(b, total):
    """the minimal variable-length integer b stretched to [total] bytes with empty continuation groups:
    PaddedP.padding of its terminating byte (C02_decoder_padding_invariant says the decoder cannot tell, up to ten bytes)"""
    if total <= len(b):
        return list(b)
    return b[:-1] + [b[-1] | 0x80] + [0x80] * (total - len(b) - 1) + [0x00]

def gen_overlong(tier, seed):
    """generated padded integers: datum, array count and items, string length; total lengths up to 11 bytes, so that
    the decoder's own limit (ten bytes, avro/src/util.rs decode_variable) is crossed in both directions"""
    rng = Rng(seed).fork(77)
    n = 150 if tier == 'quick' else 6000
    out = []
    def val(r, bits):
        k = r.range(0, bits - 1)
        v = r.below(1 << k) + (1 << k) - 1 if k else r.below(2)
        v = min(v, (1 << (bits - 1)) - 1)
        return -v - 1 if r.chance(1, 2) else v
    for i in range(n):
        r = rng.fork(i)
        kind = r.choice(['long', 'long', 'int', 'array', 'string', 'union', 'enum', 'bytes'])
        if kind in ('long', 'int'):
            b = _varint(val(r, 64 if kind == 'long' else 32))
            out.append(('"%s"' % kind, bytes(_padded(b, r.range(len(b) + 1, 11))).hex(), bytes(b).hex()))
        elif kind == 'array':
            items = [_varint(val(r, 64)) for _ in range(r.range(1, 3))]
            cnt = _varint(len(items))
            pad = _padded(cnt, r.range(len(cnt), 10)) + sum((_padded(b, r.range(len(b), 11)) for b in items), []) + _padded([0], r.range(1, 10))
            mini = cnt + sum(items, []) + [0]
            if pad != mini:
                out.append(('{"type":"array","items":"long"}', bytes(pad).hex(), bytes(mini).hex()))
        elif kind == 'union':      # branch index padded, then the branch's datum (C02_decode_head_padding_invariant)
            br = r.range(0, 2)
            tail = [[], _varint(val(r, 64)), [2, 120]][br]
            ix = _varint(br)
            out.append(('["null","long","string"]', bytes(_padded(ix, r.range(2, 11)) + tail).hex(), bytes(ix + tail).hex()))
        elif kind == 'enum':
            ix = _varint(r.range(0, 2))
            out.append(('{"type":"enum","name":"e","symbols":["a","b","c"]}', bytes(_padded(ix, r.range(2, 11))).hex(), bytes(ix).hex()))
        elif kind == 'bytes':
            t = r.bytes(r.range(0, 6))
            ln = _varint(len(t))
            out.append(('"bytes"', bytes(_padded(ln, r.range(2, 11)) + list(t)).hex(), bytes(ln + list(t)).hex()))
        else:
            t = [r.range(97, 122) for _ in range(r.range(0, 5))]
            ln = _varint(len(t))
            out.append(('"string"', bytes(_padded(ln, r.range(len(ln) + 1, 11)) + t).hex(), bytes(ln + t).hex()))
    return out

def overlong(run, exe, drv, tier='quick', seed=1):
    """the witness of C02_audit_only_spec_refuted and its relatives on the implementation: a padded integer is
    read as the minimal form by GenericDatumReader, by the schema-aware deserializer and by the model alike"""
    lines = []
    OVERLONG = globals()['OVERLONG'] + gen_overlong(tier, seed)
    for i, (st, pad, mini) in enumerate(OVERLONG):
        lines.append('o%dp (decode2 %s #%s)' % (i, hx(st), pad))
        lines.append('o%dm (decode2 %s #%s)' % (i, hx(st), mini))
    got = {k: parse(v) for k, v in fw.run_lines(exe, lines).items()}
    ml = []
    for i, (st, pad, mini) in enumerate(OVERLONG):
        o = got.get('o%dp' % i)
        if tag(o) == 'obs':
            ml.append('o%dd (decode %s %s #%s)' % (i, CFG, show(o[1]), pad))
            ml.append('o%da (audit %s %s #%s)' % (i, CFG, show(o[1]), pad))
    model = {k: parse(v) for k, v in fw.run_lines(drv, ml).items()}
    for i, (st, pad, mini) in enumerate(OVERLONG):
        run.evaluations += 1
        case = {'schema': st, 'padded': pad, 'minimal': mini}
        op, om = got.get('o%dp' % i), got.get('o%dm' % i)
        d, a = model.get('o%dd' % i), model.get('o%da' % i)
        if tag(op) != 'obs' or tag(om) != 'obs' or tag(om[2]) != 'ok' or om[2][2] != '#':
            run.fail('impl-' + str(tag(op)), 'outcome %s / %s' % (show(op)[:80], show(om)[:80]), case)
            continue
        # model and implementation agree on the padded input (both readers), and the auditor follows the decoder
        impl_g = show(canon(op[2][1], True)) + ' ' + op[2][2] if tag(op[2]) == 'ok' else str(tag(op[2]))
        impl_d = 'ok ' + op[6][1] if tag(op[6]) == 'ok' else str(tag(op[6]))
        mod = show(canon(d[1], True)) + ' ' + d[2] if tag(d) == 'ok' else str(tag(d))
        if impl_g != mod:
            run.disagree('overlong', case, impl_g[:200], mod[:200])
            continue
        if (tag(a) == 'ok') != (tag(d) == 'ok'):
            run.disagree('overlong-audit', case, show(d)[:100], show(a)[:100])
            continue
        run.count('overlong:' + ('accepted' if tag(d) == 'ok' else 'rejected'))
        if tag(op[2]) == 'ok':
            # whatever is accepted must be the datum of the minimal form, nothing left, by both readers
            if show(canon(op[2][1], True)) != show(canon(om[2][1], True)) or op[2][2] != '#':
                run.fail('overlong-misread', 'padded integers change the datum: %s, minimal form reads %s' % (impl_g[:100], show(om[2][1])[:100]), case)
            elif impl_d != 'ok #':
                run.fail('overlong-deserializer-differs', 'generic reader accepts, schema-aware deserializer: %s' % impl_d[:80], case)
            else:
                run.nontrivial_case('overlong' + st + pad)

def run(tier, seed):
    run_ = fw.Run(PROP, tier, seed)
    run_.proof = fw.proof_step(PROP, THEOREMS)
    exe = fw.build_harness()
    drv = fw.build_ocaml()
    lines, meta = gen_cases(tier, seed)
    evaluate(run_, lines, meta, exe, drv)
    serde_audit(run_, exe, drv, tier, seed)
    overlong(run_, exe, drv, tier, seed)
    return fw.finish(run_, 'theorems C02_* (specification relation) + certified-layout differential check', RULE, search)

def search(run_):
    exe = fw.build_harness()
    drv = fw.build_ocaml()
    r2 = fw.Run(PROP, run_.tier, run_.seed + 1)
    lines, meta = gen_cases('quick', run_.seed + 1)
    evaluate(r2, lines, meta, exe, drv)
    serde_audit(r2, exe, drv, 'quick', run_.seed + 1)
    return r2.failures

def replay(rp):
    f = rp.get('failure')
    print(f)
    if f and 'layout' in f['case']:
        exe = fw.build_harness()
        print(fw.run_lines(exe, ['r0 (decode2 %s %s)' % (hx(f['case']['schema']), f['case']['layout'])]))
    return 0
