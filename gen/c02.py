"""C02 - binary encoding follows the Avro specification.  Theorems: coq/Props/C02.v (encoder output is
in the specification relation; the decoder accepts every specification-legal layout; the layout
generator is sound).  Check: forward - the implementation's bytes equal the model encoder's (which is
proved in-spec) and decode in the model to the value; reverse - layouts produced by the certified
generator (blocks of 1, 2, 3 items, positive and negative counts with byte sizes) are fed to
GenericDatumReader and to the schema-aware deserializer and must decode to the same value, nothing left."""
import framework as fw
from rng import Rng
from sx import parse, show, hx, unhx, tag
from schemas import gen_case_schema, schema_text
from values import canon

PROP = 'C02'
THEOREMS = ['C02_encoder_in_spec', 'C02_decoder_accepts_spec', 'C02_layout_sound', 'C02_spec_longs',
            'C02_spec_record', 'C02_spec_array', 'C02_spec_union', 'C02_lax_layout']
CFG = '(cfg 536870912 56 80)'
RULE = ('(schema, value) pairs as in C01 (all primitive / logical / named / recursive kinds); per pair the '
        'implementation encoding and up to 6 specification-legal layouts from the certified generator: block '
        'size 1, 2, 3 x positive counts / negative counts with byte sizes. non-trivial = distinct layouts that '
        'differ from the implementation\'s own bytes (i.e. the value contains a non-empty array or map)')

def gen_cases(tier, seed):
    rng = Rng(seed)
    n = 350 if tier == 'quick' else 15000
    per = 3 if tier == 'quick' else 6
    lines, meta = [], {}
    k = 0
    for i in range(n):
        r = rng.fork(i)
        node, _ = gen_case_schema(r, max_depth=r.choice([1, 2, 3, 3]))
        st = schema_text(node)
        for j in range(per):
            cid = 'c%d' % k; k += 1
            v = node.gen(r, 0)
            lines.append('%s (datum %s %s # 1)' % (cid, hx(st), v))
            meta[cid] = (st, v)
    return lines, meta

def evaluate(run, lines, meta, exe, drv):
    impl = fw.run_lines(exe, lines)
    mlines, parsed = [], {}
    for cid, (st, v) in meta.items():
        run.evaluations += 1
        o = parse(impl.get(cid, '(missing)'))
        if tag(o) == 'schema-err':
            continue
        case = {'schema': st, 'value': v}
        if tag(o) != 'obs' or tag(o[3]) != 'ok':
            run.fail('impl-' + str(tag(o)), 'cannot encode: %s' % show(o)[:160], case)
            continue
        parsed[cid] = o
        mlines.append('%se (encode %s %s)' % (cid, show(o[1]), show(o[2])))
        for kk in (0, 1, 2):
            for neg in (0, 1):
                mlines.append('%sL%d%d (layout %d %d %s %s %s)' % (cid, kk, neg, kk, neg, CFG, show(o[1]), show(o[2])))
    model = fw.run_lines(drv, mlines)
    # forward: implementation bytes = model encoder bytes (in-spec by C02_encoder_in_spec)
    rlines, rmeta = [], {}
    for cid, o in parsed.items():
        st, v = meta[cid]
        case = {'schema': st, 'value': v}
        me = parse(model.get(cid + 'e', '(missing)'))
        if show(me) != show(o[3]):
            run.disagree('encode', case, show(o[3])[:300], show(me)[:300])
            # an implementation encoding outside the specification relation
            run.fail('bytes-not-in-spec', 'implementation wrote %s, the specification-legal canonical form is %s' % (show(o[3])[:120], show(me)[:120]), case)
        seen = {o[3][1]}
        for kk in (0, 1, 2):
            for neg in (0, 1):
                m = parse(model.get('%sL%d%d' % (cid, kk, neg), '(missing)'))
                if tag(m) != 'ok':
                    run.disagree('layout', case, 'ok', show(m)[:100])
                    continue
                if m[2] != '1' or m[3] != '1':
                    run.count('layout-outside-theorem-hypotheses')      # e.g. null-namespace names table
                if m[1] in seen:
                    continue
                seen.add(m[1])
                rid = '%sR%d%d' % (cid, kk, neg)
                rlines.append('%s (decode2 %s %s)' % (rid, hx(st), m[1]))
                rmeta[rid] = (cid, kk, neg, m[1])
    got = fw.run_lines(exe, rlines)
    for rid, (cid, kk, neg, lb) in rmeta.items():
        run.evaluations += 1
        run.count('layout:k%d:%s' % (kk + 1, 'neg' if neg else 'pos'))
        st, v = meta[cid]
        case = {'schema': st, 'value': v, 'layout': lb, 'block': kk + 1, 'negative_counts': bool(neg)}
        o = parse(got.get(rid, '(missing)'))
        want = canon(parse(v), True)
        if tag(o) != 'obs':
            run.fail('impl-' + str(tag(o)), 'outcome %s' % show(o)[:120], case)
        elif tag(o[2]) != 'ok':
            run.fail('spec-layout-rejected', 'a specification-legal layout is rejected by the generic decoder: %s' % show(o[2])[:80], case)
        elif canon(o[2][1], True) != want or o[2][2] != '#':
            run.fail('spec-layout-misread', 'a specification-legal layout decodes to %s (rest %s)' % (show(o[2][1])[:160], o[2][2][:20]), case)
        elif tag(o[6]) != 'ok' or o[6][1] != '#':
            if '"namespace": ""' in st:
                run.fail('deser-null-namespace-ref', 'schema-aware deserializer rejects: %s' % show(o[6])[:80], case)
            else:
                run.fail('spec-layout-rejected-by-deserializer', 'the schema-aware deserializer: %s' % show(o[6])[:80], case)
        else:
            run.nontrivial_case(st + lb)
            run.sample({'schema': st[:100], 'value': v[:100], 'layout': lb[:80], 'block': kk + 1, 'neg': bool(neg)})

def run(tier, seed):
    run_ = fw.Run(PROP, tier, seed)
    run_.proof = fw.proof_step(PROP, THEOREMS)
    exe = fw.build_harness()
    drv = fw.build_ocaml()
    lines, meta = gen_cases(tier, seed)
    evaluate(run_, lines, meta, exe, drv)
    return fw.finish(run_, 'theorems C02_* (specification relation) + certified-layout differential check', RULE, search)

def search(run_):
    exe = fw.build_harness()
    drv = fw.build_ocaml()
    r2 = fw.Run(PROP, run_.tier, run_.seed + 1)
    lines, meta = gen_cases('quick', run_.seed + 1)
    evaluate(r2, lines, meta, exe, drv)
    return r2.failures

def replay(rp):
    f = rp.get('failure')
    print(f)
    if f and 'layout' in f['case']:
        exe = fw.build_harness()
        print(fw.run_lines(exe, ['r0 (decode2 %s %s)' % (hx(f['case']['schema']), f['case']['layout'])]))
    return 0
