"""C05 - decoding untrusted bytes never panics, aborts, hangs or over-allocates.
Theorems: coq/Props/C05.v.  Check: every reading entry point (datum reader + schema-aware deserializer, container reader
with its header and embedded schema, single-object reader, block decompression) on exhaustive short strings, truncations
and mutations of valid data and random bytes, under allocation limits from 4 KiB to 1 MiB and the default, with a counting
allocator in the harness (largest single request, peak growth) and per-case time limits."""
import json
import framework as fw
from rng import Rng
from sx import parse, show, hx, unhx, tag
import c06
import c04
import ocf
import sj

PROP = 'C05'
THEOREMS = ['C05_decode_never_panics', 'C05_declared_length_bounded', 'C05_declared_count_bounded', 'C05_examples']
RULE = ('byte strings: exhaustive up to length 2 x 31 small schemas, every truncation and single-byte alteration of valid '
        'encodings, random; container files: every truncation, byte alterations of header and block framing, hostile counts / '
        'sizes / embedded schemas; single-object messages; compressed blocks - x allocation limits {4 KiB, 64 KiB, 1 MiB}. '
        'non-trivial = distinct hostile inputs (an error outcome, or a declared length above the limit)')
LIMITS = [4096, 65536, 1 << 20]
SLACK = 96 * 1024          # incidental allocations of an operation (schema, error values, buffers): measured well below
# working memory of a codec library is not "memory for a length declared in the data": the bzip2 decoder allocates its
# block state (at most 900k * 4 bytes, chosen by the stream's level digit) whatever the allocation limit is
CODEC_WORK = {'bzip2': 4 << 20, 'zstandard': 256 << 10}     # zstd: its 128 KiB input buffer (DCtx::in_size)

def varint(n):
    return ocf.write_long(n)

def hostile_files(r):
    """container files with hostile framing"""
    marker = b'M' * 16
    def hdr(schema, codec='null', extra=b''):
        ent = [(b'avro.schema', schema.encode())] + ([(b'avro.codec', codec.encode())] if codec else [])
        body = b''.join(varint(len(a)) + a + varint(len(b)) + b for a, b in ent)
        return b'Obj\x01' + varint(len(ent)) + body + extra + b'\x00' + marker
    out = []
    big = [1 << 20, 1 << 31, 1 << 40, (1 << 62) - 1]
    for n in big:
        out.append(('block-count', hdr('"null"') + varint(n) + varint(0) + marker))
        out.append(('block-size', hdr('"int"') + varint(1) + varint(n) + b'\x02' + marker))
        out.append(('meta-count', b'Obj\x01' + varint(n) + b'\x02a\x02b'))
        out.append(('meta-neg-count', b'Obj\x01' + varint(-n) + varint(n) + b'\x02a\x02b'))
        out.append(('meta-key-len', b'Obj\x01' + varint(1) + varint(n) + b'a'))
        out.append(('string-len', hdr('"string"') + varint(1) + varint(9) + varint(n) + b'abc' + marker))
        out.append(('array-count', hdr('{"type":"array","items":"null"}') + varint(1) + varint(9) + varint(n) + b'\x00' + marker))
        out.append(('fixed-size-schema', hdr('{"type":"fixed","name":"F","size":%d}' % n) + varint(1) + varint(1) + b'x' + marker))
        for codec in ('snappy', 'deflate', 'bzip2', 'xz', 'zstandard'):
            out.append(('codec-garbage', hdr('"int"', codec) + varint(1) + varint(6) + varint(n)[:6].ljust(6, b'\x00') + marker))
    # hostile framing in a LATER block, after a well-formed block has been consumed (state carried between blocks)
    good = varint(3) + varint(3) + b'\x02\x04\x06' + marker
    for name, blk in [('later-size-zero-count-1', varint(1) + varint(0) + marker), ('later-size-zero-count-2', varint(2) + varint(0) + marker),
                      ('later-size-short', varint(3) + varint(1) + b'\x02' + marker), ('later-count-huge', varint(1 << 40) + varint(1) + b'\x02' + marker),
                      ('later-size-huge', varint(1) + varint(1 << 40) + b'\x02' + marker), ('later-neg-count', varint(-2) + varint(1) + b'\x02' + marker),
                      ('later-neg-size', varint(1) + varint(-1) + b'\x02' + marker), ('later-count-zero', varint(0) + varint(0) + marker + varint(1) + varint(1) + b'\x02' + marker),
                      ('later-truncated', varint(2) + varint(2) + b'\x02')]:
        out.append((name, hdr('"int"') + good + blk))
        out.append((name + '-twice', hdr('"int"') + good + good + blk + good))
        out.append((name + '-string', hdr('"string"') + varint(1) + varint(3) + b'\x04hi' + marker + blk))
    out.append(('deep-schema', hdr('{"type":"array","items":' * 200 + '"int"' + '}' * 200) + varint(1) + varint(1) + b'\x00' + marker))
    out.append(('codec-unknown', hdr('"int"', 'lzo')))
    out.append(('codec-level-empty', b'Obj\x01' + varint(3) + b''.join(varint(len(a)) + a + varint(len(b)) + b for a, b in
                [(b'avro.schema', b'"int"'), (b'avro.codec', b'xz'), (b'avro.codec.compression_level', b'')]) + b'\x00' + marker))
    out.append(('neg-block-count', hdr('"int"') + varint(-3) + varint(1) + b'\x02' + marker))
    out.append(('neg-block-size', hdr('"int"') + varint(1) + varint(-1) + b'\x02' + marker))
    return out

def collect(tier, seed):
    rng = Rng(seed)
    exe = fw.build_harness()
    lines = {}      # id -> (case term, kind, description)
    # A. datum reader and schema-aware deserializer: the byte strings of C06
    cases = c06.gen_cases(tier, seed)
    step = 2 if tier != 'quick' else 7      # thorough: every second byte string of C06's thorough set
    for i, (st, bs, origin) in enumerate(cases[::step]):
        lines['d%d' % i] = ('(decode2 %s %s)' % (hx(st), hx(bs)), 'datum:' + origin, {'schema': st, 'bytes': bs.hex()})
    # A2. lengths declared by the SCHEMA (fixed sizes) reaching both decoders: above and below every limit
    k2 = 0
    for size in [0, 1, 4095, 4097, 70000, (1 << 20) + 1, 1 << 24, 1 << 31, 1 << 40, (1 << 63) - 1, 1 << 63, (1 << 64) - 1]:
        for st in ['{"type":"fixed","name":"F","size":%d}' % size,
                   '{"type":"record","name":"R","fields":[{"name":"a","type":"int"},{"name":"f","type":["null",{"type":"fixed","name":"F","size":%d}]}]}' % size,
                   '{"type":"array","items":{"type":"fixed","name":"F","size":%d,"logicalType":"decimal","precision":2}}' % size,
                   '{"type":"fixed","name":"F","size":%d,"logicalType":"duration"}' % size,
                   '{"type":"map","values":{"type":"fixed","name":"F","size":%d,"logicalType":"uuid"}}' % size]:
            for bs in [b'', b'\x02\x02', b'\x00' * 40, b'\x02\x02ab' + b'x' * 30]:
                lines['a%d' % k2] = ('(decode2 %s %s)' % (hx(st), hx(bs)), 'datum:schema-declared-size', {'schema': st, 'bytes': bs.hex()}); k2 += 1
    # B. container files: valid files truncated / altered, hostile framing
    k = 0
    for i in range(6 if tier == 'quick' else 60):
        r = rng.fork(i)
        schema = r.choice(['"int"', '"string"', '{"type":"array","items":"long"}', '{"type":"map","values":"bytes"}',
                           '{"type":"record","name":"R","fields":[{"name":"a","type":["null","string"]},{"name":"b","type":{"type":"fixed","name":"F","size":3}}]}'])
        items = [r.bytes(r.below(4)) for _ in range(3)]          # payload bytes need not be valid items
        codec = r.choice(['null', 'deflate', 'snappy', 'bzip2', 'xz'])
        f, _ = c04.build_file(r, schema, codec, items, [(b'user', b'v')])
        cuts = range(len(f) + 1) if tier != 'quick' else list(range(0, min(len(f), 60))) + [len(f) - 1, len(f)]
        for c in cuts:
            lines['f%d' % k] = ('(cread %s)' % hx(f[:c]), 'container:truncated', {'file': f[:c].hex()[:400], 'cut': c, 'codec': codec}); k += 1
        for pos in range(min(len(f), 90 if tier != 'quick' else 40)):
            for x in (0x01, 0x80, 0xff):
                g = bytearray(f); g[pos] = (g[pos] ^ x) if x != 0xff else 0xff
                lines['f%d' % k] = ('(cread %s)' % hx(bytes(g)), 'container:altered', {'file': bytes(g).hex()[:400], 'pos': pos, 'codec': codec}); k += 1
    for name, f in hostile_files(rng):
        lines['f%d' % k] = ('(cread %s)' % hx(f), 'container:' + name, {'file': f.hex()[:400], 'codec': next((c for c in ('bzip2', 'zstandard', 'xz', 'deflate', 'snappy') if c.encode() in f), 'null')}); k += 1
    # C. single-object messages
    for i in range(40 if tier == 'quick' else 2000):
        r = rng.fork(5000 + i)
        schema = r.choice(['"int"', '"string"', '{"type":"array","items":"string"}'])
        msg = r.choice([b'\xc3\x01', b'\xc3\x01' + r.bytes(8), b'\xc3', b'', r.bytes(r.below(14))]) + r.choice([b'', varint(1 << 40), r.bytes(r.below(5))])
        lines['s%d' % i] = ('(so-read %s %s)' % (hx(schema), hx(msg)), 'single-object', {'schema': schema, 'message': msg.hex()})
    # D. block decompression
    for i in range(40 if tier == 'quick' else 2000):
        r = rng.fork(9000 + i)
        codec = r.choice(['deflate', 'snappy', 'bzip2', 'xz', 'zstandard'])
        data = r.choice([r.bytes(r.below(40)), varint(1 << 40) + r.bytes(4), b'\xff' * r.below(12)])
        lines['z%d' % i] = ('(codec-d %s %s)' % (codec, hx(data)), 'decompress', {'codec': codec, 'bytes': data.hex()})
    def results():
        # one limit at a time: the observations of a limit are judged and dropped before the next is run
        for lim in LIMITS:
            res = fw.run_lines(exe, ['%s (measure %s)' % (cid, t[0]) for cid, t in lines.items()], extra=['max_alloc=%d' % lim], case_timeout=20)
            yield lim, res
    return lines, results()

def contains_panic(t):
    if isinstance(t, str):
        return False
    return tag(t) in ('panic', 'schema-panic') or any(contains_panic(x) for x in t[1:])

def judge(run, lines, out):
    for lim, res in out:
        for cid, (term, kind, info) in lines.items():
            run.evaluations += 1
            o = res.get(cid)
            o = parse(o) if o is not None else None
            case = dict(info, kind=kind, max_alloc=lim)
            if o is None or tag(o) in ('timeout', 'abort', 'missing'):
                run.fail('no-return:' + str(tag(o) if o is not None else 'none'),
                         '%s under a %d-byte limit: the call did not return (%s)' % (kind, lim, show(o)[:40] if o is not None else ''), case)
                continue
            if tag(o) != 'measured':
                run.fail('harness-' + str(tag(o)), show(o)[:80], case)
                continue
            peak, largest, r = int(o[1]), int(o[2]), o[3]
            run.count('%s:%s' % (kind.split(':')[0], 'panic' if contains_panic(r) else 'returned'))
            if contains_panic(r):
                run.fail('panic', '%s panicked' % kind, case)
                continue
            # no single request above the limit (plus the incidental allocations of the call itself)
            work = CODEC_WORK.get(info.get('codec'), 0)
            # a map block (in the data, or the metadata map of a container header) announcing a count within the limit
            has_map = '"map"' in str(info.get('schema', '')) or kind.startswith('container')
            if largest > lim + SLACK + work and has_map and largest <= int(2.5 * lim) + SLACK + work:
                run.fail('map-capacity-rounding', '%s requested %d bytes at once under a %d-byte limit (hash table for a declared map block)' % (kind, largest, lim), case)
            elif largest > lim + SLACK + work:
                run.fail('over-allocation', '%s requested %d bytes at once under a %d-byte limit' % (kind, largest, lim), case)
            elif peak > 4 * lim + 4 * SLACK + 2 * work:
                run.fail('over-allocation-total', '%s grew the heap by %d bytes under a %d-byte limit' % (kind, peak, lim), case)
            else:
                if 'err' in show(r)[:200]:
                    run.nontrivial_case(kind + json.dumps(info)[:200])
            run.stat_max = max(getattr(run, 'stat_max', 0), largest - lim)
    run.sample({'largest_request_minus_limit_max': getattr(run, 'stat_max', None)}, limit=1)

def run(tier, seed):
    run_ = fw.Run(PROP, tier, seed)
    run_.proof = fw.proof_step(PROP, THEOREMS)
    judge(run_, *collect(tier, seed))
    return fw.finish(run_, 'theorems C05_* (decoder model never panics; declared lengths and counts bounded) + counting-allocator sweep of every reading entry point', RULE, search)

def explore(run_, tier, seed):
    judge(run_, *collect(tier, seed))

def search(run_):
    r2 = fw.Run(PROP, run_.tier, run_.seed + 1)
    judge(r2, *collect('quick', run_.seed + 1))
    return r2.failures

def replay(rp):
    print(rp.get('failure'))
    return 0
