"""C19 - process-wide settings: first-set-wins, uniformly enforced, thread-safe.  Theorems:
coq/Props/C19.v (every schedule; the limit is exactly the decoders' threshold).  Check: fresh
processes, N in {2,4,8,16} threads released by a barrier with seeded spins, each racing to set and
use ONE setting (allocation limit, human-readable flag, the four validators, the equality
comparator); every observation must be explained by the model run on SOME linearisation whose first
operation is some thread's first operation; the in-force limit is probed by bisection on the real
decoders and must be the threshold of bytes / string / array / map decoding (l accepted, l+1 refused)."""
import subprocess
from concurrent.futures import ThreadPoolExecutor
import framework as fw
from rng import Rng
from sx import parse, show, tag

PROP = 'C19'
THEOREMS = ['C19_first_wins', 'C19_stable', 'C19_limit_enforced_len', 'C19_limit_enforced_count',
            'C19_limit_enforced_collection', 'C19_example']
RULE = ('one fresh process per program; programs = N threads x 1..3 operations on one setting, values drawn '
        'from {0,1,55,56,4095,4096,2^31,2^62-1} for the limit and 1..8 for validator identities; each program '
        'is repeated with different seeds (different interleavings). non-trivial = distinct programs in which '
        'at least two threads try to set different values')
DEFAULT_LIMIT = 512 * 1024 * 1024
PROBE_CAP = 1 << 24      # the harness never declares more bytes than this while probing
LIMITS = [0, 1, 55, 56, 4095, 4096, 2**31, 2**62 - 1]

def gen_programs(tier, seed):
    rng = Rng(seed)
    progs = []
    n = 220 if tier == 'quick' else 5000
    kinds = ['alloc', 'alloc', 'alloc', 'hr', 'name', 'ns', 'enum', 'field', 'eq']
    for i in range(n):
        r = rng.fork(i)
        kind = kinds[i % len(kinds)]
        nt = r.choice([2, 4, 8, 16])
        threads = []
        for t in range(nt):
            ops = []
            for j in range(r.range(1, 3)):
                if kind == 'alloc':
                    ops.append('(alloc %d)' % r.choice(LIMITS) if r.chance(2, 3) else '(use-alloc)')
                elif kind == 'hr':
                    ops.append('(hr %d)' % r.below(2))
                else:
                    ops.append('(set-%s %d)' % (kind, r.range(1, 8)) if r.chance(2, 3) else '(use-%s)' % kind)
            threads.append(ops)
        progs.append((kind, threads, r.next() % 100000))
    return progs

def to_model_op(kind, op):
    t = parse(op)
    if tag(t) == 'alloc':
        return ('g', int(t[1]))
    if tag(t) == 'use-alloc':
        return ('g', DEFAULT_LIMIT)
    if tag(t) == 'hr':
        return ('g', int(t[1]))
    if tag(t).startswith('set-'):
        return ('s', int(t[1]))
    return ('g', 0)              # use of a validator/comparator installs the default (identity 0)

def observed(res):
    k = tag(res)
    if k == 'limit':
        return ('probe', int(res[1]))
    if k in ('got', 'inforce'):
        return ('got', int(res[1]))
    return (k, None)

def matches(o, w):
    """a probed limit is only known up to the probing cap"""
    if o[0] == 'probe':
        return w[0] == 'got' and o[1] == min(w[1], PROBE_CAP)
    return o == w

def run_prog(exe, pid, kind, threads, seed):
    line = '%s (prog %d %s)' % (pid, seed, ' '.join('(thread %s)' % ' '.join(ops) for ops in threads))
    try:
        p = subprocess.run([exe, 'settings'], input=line + '\n', capture_output=True, text=True, timeout=120, env=fw.ENV)
        out = p.stdout.strip().split(' ', 1)
        return out[1] if len(out) == 2 and p.returncode == 0 else '(abort %d)' % p.returncode
    except subprocess.TimeoutExpired:
        return '(timeout)'

def evaluate(run, progs, exe, drv):
    with ThreadPoolExecutor(max_workers=8) as ex:
        outs = list(ex.map(lambda a: run_prog(exe, 'p%d' % a[0], *a[1]), list(enumerate(progs))))
    mlines = []
    cand = {}
    for i, ((kind, threads, seed), o) in enumerate(zip(progs, outs)):
        # candidate linearisations: some thread's first operation first, then everything else
        for t in range(len(threads)):
            order = [(t, 0)] + [(u, j) for u in range(len(threads)) for j in range(len(threads[u])) if (u, j) != (t, 0)]
            mops = ' '.join('(%s %d)' % to_model_op(kind, threads[u][j]) for (u, j) in order)
            cid = 'm%d_%d' % (i, t)
            mlines.append('%s (settings %s)' % (cid, mops))
            cand[cid] = order
    model = fw.run_lines(drv, mlines)
    for i, ((kind, threads, seed), o) in enumerate(zip(progs, outs)):
        run.evaluations += 1
        run.count('setting:' + kind)
        run.count('threads:%d' % len(threads))
        case = {'setting': kind, 'threads': threads, 'seed': seed}
        t = parse(o)
        if tag(t) != 'obs' or any(tag(x) != 'thread' for x in t[1:]):
            run.fail('impl-' + str(tag(t)), 'outcome %s' % show(t)[:160], case)
            continue
        obs = [[observed(r) for r in th[1:]] for th in t[1:]]
        # uniform enforcement of the limit in force
        for th in t[1:]:
            for r in th[1:]:
                if tag(r) == 'limit':
                    edges = [int(x) for x in r[2][1:]]
                    if edges and edges[:8] != [1, 0, 1, 0, 1, 0, 1, 0]:
                        run.fail('limit-not-uniform', 'limit %s: accept/reject at (l, l+1) for bytes,string,array,map = %s' % (r[1], edges), case)
                    elif len(edges) > 8 and edges[8:] != [1, 0, 1, 0, 0]:
                        run.fail('limit-not-uniform', 'limit %s: container blocks of byte size [l], [l+1], [0.6l, 0.7l, l], [0.6l, 0.7l, l+1], [0.6l, 0.7l, 1.1l] accepted = %s (expected 1 0 1 0 0)' % (r[1], edges[8:]), case)
        explained = False
        for tt in range(len(threads)):
            cid = 'm%d_%d' % (i, tt)
            m = parse(model.get(cid, '(missing)'))
            if tag(m) != 'ok':
                run.disagree('settings-model', case, o[:200], show(m)[:200])
                break
            want = {}
            for (u, j), r in zip(cand[cid], m[1:]):
                want[(u, j)] = ('got', int(r[1])) if tag(r) == 'got' else (tag(r), None)
            if all(matches(obs[u][j], want[(u, j)]) for u in range(len(threads)) for j in range(len(threads[u]))):
                explained = True
                break
        if not explained:
            vals = sorted(set(min(x[1], PROBE_CAP) for th in obs for x in th if x[0] in ('got', 'probe')))
            cls = 'value-changed' if len(vals) > 1 else 'not-linearisable'
            run.fail(cls, 'no linearisation of the threads\' operations explains the observations %s' % obs, case)
        else:
            setters = set(to_model_op(kind, op) for ops in threads for op in ops[:1])
            if len(setters) >= 2:
                run.nontrivial_case(repr(threads) + str(seed))
                run.sample({'setting': kind, 'threads': threads[:4], 'observed': obs[:4]}, limit=5)

def run(tier, seed):
    run_ = fw.Run(PROP, tier, seed)
    run_.proof = fw.proof_step(PROP, THEOREMS)
    exe = fw.build_harness()
    drv = fw.build_ocaml()
    evaluate(run_, gen_programs(tier, seed), exe, drv)
    run_.notes.append('OnceLock::get_or_init / set are assumed linearisable with a single winner (std contract)')
    return fw.finish(run_, 'theorems C19_* (every schedule, every limit) + racing threads in fresh processes', RULE, search)

def search(run_):
    exe = fw.build_harness()
    drv = fw.build_ocaml()
    r2 = fw.Run(PROP, 'quick', run_.seed + 1)
    evaluate(r2, gen_programs('quick', run_.seed + 1) * 3, exe, drv)
    return r2.failures

def replay(rp):
    f = rp.get('failure')
    print(f)
    if f:
        exe = fw.build_harness()
        c = f['case']
        for s in range(5):
            print(run_prog(exe, 'r', c['setting'], c['threads'], c['seed'] + s))
    return 0
