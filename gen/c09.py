"""C09 - compatibility verdicts are sound with respect to actual reading.
Theorems: coq/Props/C09.v.  Check: the (W, R, value) triples of the C08 evolution generator plus all ordered pairs of
a small exhaustive schema enumeration x values of W."""
import json
import framework as fw
from sx import parse, show, hx, unhx, tag
from values import canon
import evo

PROP = 'C09'
THEOREMS = ['C09_primitive_table', 'C09_reflexive', 'C09_mutual_symmetric', 'C09_reader_field_added_with_default',
            'C09_reader_field_removed', 'C09_reader_union_branch_added', 'C09_full_sound_fragment', 'C09_fragment_example', 'C09_full_unsound_refuted', 'C09_alias_unsound_refuted',
            'C09_examples']
RULE = ('(W, R) pairs from the evolution generator of C08 and all ordered pairs of a 46-schema enumeration, x values of W; '
        'non-trivial = distinct (W, R, value) with R != W, verdict Full and a successful read')

SAFE = ('identity', 'promote-int-long', 'promote-int-float', 'promote-int-double', 'promote-long-float', 'promote-long-double',
        'promote-float-double', 'add-field-with-default', 'add-nullable-field-with-default', 'remove-field', 'reorder-fields',
        'add-union-branch', 'add-enum-symbol')

# bounded-exhaustive part: small schemas with two values each
ENUM = [
    ('"null"', ['(null)']), ('"boolean"', ['(boolean 1)']), ('"int"', ['(int 7)', '(int -2147483648)']),
    ('"long"', ['(long 7)', '(long 1099511627776)']), ('"float"', ['(float 1069547520)']), ('"double"', ['(double 4609434218613702656)']),
    ('"bytes"', ['(bytes #6869)', '(bytes #ff00)']), ('"string"', ['(string #6869)']),
    ('{"type":"int","logicalType":"date"}', ['(date 3)']), ('{"type":"long","logicalType":"timestamp-millis"}', ['(timestamp-millis 3)']),
    ('{"type":"bytes","logicalType":"decimal","precision":4,"scale":1}', ['(decimal #05)']),
    ('{"type":"string","logicalType":"uuid"}', ['(uuid #0102030405060708090a0b0c0d0e0f10)']),
    ('{"type":"array","items":"int"}', ['(array (int 1) (int 2))', '(array)']), ('{"type":"array","items":"long"}', ['(array (long 1099511627776))']),
    ('{"type":"array","items":"string"}', ['(array (string #61))']),
    ('{"type":"map","values":"int"}', ['(map (kv #6b (int 1)))']), ('{"type":"map","values":"double"}', ['(map (kv #6b (double 0)))']),
    ('{"type":"enum","name":"E","symbols":["A","B"]}', ['(enum 0 #41)', '(enum 1 #42)']),
    ('{"type":"enum","name":"E","symbols":["A"]}', ['(enum 0 #41)']),
    ('{"type":"enum","name":"E","symbols":["B","A","C"],"default":"C"}', ['(enum 2 #43)', '(enum 1 #41)']),
    ('{"type":"enum","name":"E2","symbols":["A","B"]}', ['(enum 1 #42)']),
    ('{"type":"fixed","name":"F","size":2}', ['(fixed 2 #0102)']), ('{"type":"fixed","name":"F","size":3}', ['(fixed 3 #010203)']),
    ('{"type":"fixed","name":"G","size":2}', ['(fixed 2 #0102)']),
    ('{"type":"record","name":"R","fields":[]}', ['(record)']),
    ('{"type":"record","name":"R","fields":[{"name":"a","type":"int"}]}', ['(record (kv #61 (int 5)))']),
    ('{"type":"record","name":"R","fields":[{"name":"a","type":"long"}]}', ['(record (kv #61 (long 1099511627776)))']),
    ('{"type":"record","name":"R","fields":[{"name":"a","type":"int"},{"name":"b","type":"string"}]}', ['(record (kv #61 (int 5)) (kv #62 (string #78)))']),
    ('{"type":"record","name":"R","fields":[{"name":"b","type":"string"},{"name":"a","type":"int"}]}', ['(record (kv #62 (string #78)) (kv #61 (int 5)))']),
    ('{"type":"record","name":"R","fields":[{"name":"a","type":"int"},{"name":"c","type":"long","default":9}]}', ['(record (kv #61 (int 5)) (kv #63 (long 1)))']),
    ('{"type":"record","name":"R","fields":[{"name":"a","type":"int"},{"name":"c","type":"long"}]}', ['(record (kv #61 (int 5)) (kv #63 (long 1)))']),
    ('{"type":"record","name":"S","fields":[{"name":"a","type":"int"}]}', ['(record (kv #61 (int 5)))']),
    ('{"type":"record","name":"L","fields":[{"name":"next","type":["null","L"]}]}', ['(record (kv #6e657874 (union 0 (null))))',
                                                                                    '(record (kv #6e657874 (union 1 (record (kv #6e657874 (union 0 (null)))))))']),
    ('["null","int"]', ['(union 0 (null))', '(union 1 (int 3))']), ('["int","null"]', ['(union 1 (null))', '(union 0 (int 3))']),
    ('["null","long"]', ['(union 1 (long 1099511627776))']), ('["null","int","string"]', ['(union 2 (string #61))', '(union 1 (int 3))']),
    ('["int"]', ['(union 0 (int 3))']), ('["string","bytes"]', ['(union 0 (string #61))', '(union 1 (bytes #ff))']),
    ('["null",{"type":"record","name":"R","fields":[{"name":"a","type":"int"}]}]', ['(union 1 (record (kv #61 (int 5))))']),
    ('["null",{"type":"enum","name":"E","symbols":["A","B"]}]', ['(union 1 (enum 1 #42))', '(union 1 (enum 0 #41))', '(union 0 (null))']),
    ('["null",{"type":"enum","name":"E","symbols":["A"]}]', ['(union 1 (enum 0 #41))']),
    ('[{"type":"enum","name":"E","symbols":["A","B","C"]},"string"]', ['(union 0 (enum 2 #43))', '(union 1 (string #78))']),
    ('[{"type":"array","items":"long"},{"type":"map","values":"int"}]', ['(union 0 (array (long 1099511627776)))', '(union 1 (map (kv #6b (int 1))))']),
    ('[{"type":"array","items":"int"},{"type":"map","values":"int"}]', ['(union 0 (array (int 7)))']),
    # reader unions holding exactly one numeric type: every promotion into a union branch is exercised alone
    ('["null","float"]', ['(union 1 (float 1069547520))']), ('["null","double"]', ['(union 1 (double 4609434218613702656))']),
    ('["float","string"]', ['(union 0 (float 0))']), ('["boolean","double"]', ['(union 1 (double 0))']),
    ('["null","bytes"]', ['(union 1 (bytes #6869))']), ('["null","string"]', ['(union 1 (string #6869))']),
]

def gen(tier, seed):
    lines, meta = evo.gen_triples('quick' if tier == 'quick' else 'thorough', seed)
    if tier == 'quick':
        # a third of the evolution triples, all enumeration pairs
        keep = [l for i, l in enumerate(lines) if i % 3 == 0 or i < len(evo.CORPUS)]
        ids = {l.split(' ', 1)[0] for l in keep}
        lines, meta = keep, {k: v for k, v in meta.items() if k in ids}
    k = 0
    for (wt, wvals) in ENUM:
        for (rt, _) in ENUM:
            for v in wvals:
                cid = 'e%d' % k; k += 1
                lines.append('%s (read2 %s %s %s)' % (cid, hx(wt), hx(rt), v))
                meta[cid] = dict(W=wt, R=rt, value=v, steps='enumeration', safety='unknown')
    return lines, meta

def classify(mt, read, decoded):
    """known-finding class of a Full verdict whose read fails"""
    import c08
    R = json.loads(mt['R'])
    if 'rename-field-with-alias' in mt['steps'].split('+') or '"aliases"' in mt['R']:
        return 'full-but-alias-ignored'
    def walk(t):
        if isinstance(t, str):
            return []
        return [tag(t)] + [x for y in t[1:] for x in walk(y)]
    tags = set(walk(decoded))
    if tags & set(c08.INT_LOGICAL):
        return 'full-but-logical-not-promoted'
    if c08.lookup_conflict(R, decoded):
        return 'full-but-union-lookup-fails'
    bytes_logical_r = any(isinstance(n, dict) and n.get('logicalType') in ('uuid', 'decimal', 'big-decimal') and n.get('type') in ('string', 'bytes')
                          for _, n in evo.positions(R))
    if tags & {'decimal', 'uuid', 'bigdecimal'} or (bytes_logical_r and tags & {'bytes', 'string'}):
        return 'full-but-bytes-like-logical-mismatch'
    if 'bytes' in tags and '"string"' in mt['R']:
        return 'full-but-bytes-not-utf8'
    return None

def judge(run, meta, parsed, model):
    seen_pairs = set()
    for cid, mt in meta.items():
        run.evaluations += 1
        o = parsed[cid]
        case = dict(mt)
        if tag(o) in ('w-schema', 'r-schema', 'bad-case'):
            run.count('skipped:' + tag(o))
            continue
        if tag(o) != 'obs':
            run.fail('impl-' + str(tag(o)), 'outcome %s' % show(o)[:120], case)
            continue
        enc, read, cr, cr_rev, mu, mu_rev, self_w = o[4], o[5], o[8], o[9], o[10], o[11], o[12]
        if any(x == 'panic' or tag(x) == 'panic' for x in (cr, cr_rev, mu, mu_rev, self_w)):
            run.fail('panic', 'the compatibility checker panicked', case)
            continue
        run.count('verdict:%s/read:%s' % (cr, tag(read)))
        m = model.get(cid)
        decoded = m[7] if m is not None and tag(m) == 'ok' else parse(mt['value'])
        # 1. soundness: Full => every value of W reads
        if cr == 'full' and tag(enc) == 'ok':
            if tag(read) != 'ok':
                # known classes are behaviours of the modelled code: the faithful model must fail the read as well
                faithful = m is not None and tag(m) == 'ok' and tag(m[1]) == tag(read)
                run.fail((classify(mt, read, decoded) if faithful else None) or 'full-but-read-fails',
                         'can_read reports Full, reading %s fails' % mt['value'][:80], case)
            elif mt['W'] != mt['R']:
                run.nontrivial_case(mt['W'] + mt['R'] + mt['value'])
                run.sample({'W': mt['W'][:80], 'R': mt['R'][:80], 'verdict': cr, 'value': mt['value'][:60]}, limit=8)
        # 2. always-safe steps are never incompatible
        if mt['steps'] != 'enumeration' and all(s in SAFE for s in mt['steps'].split('+')) and cr == 'incompatible':
            run.fail('safe-step-incompatible', 'steps %s are always safe, verdict incompatible' % mt['steps'], case)
        # 3. reflexive, 4. mutual symmetric
        if self_w != 'full':
            run.fail('not-reflexive', 'can_read(W, W) = %s' % self_w, case)
        if mu != mu_rev:
            run.fail('mutual-asymmetric', 'mutual_read(W, R) = %s, mutual_read(R, W) = %s' % (mu, mu_rev), case)
        # correspondence
        if m is None or tag(m) not in ('ok', 'unwritable'):
            run.disagree('read2', case, cr, show(m)[:100] if m else 'none')
            continue
        mc = (m[3], m[4], m[5], m[6]) if tag(m) == 'ok' else (m[1], m[2], m[3], m[4])
        if (mc[0], mc[1], mc[2], mc[3]) != (cr, cr_rev, mu, self_w):
            run.disagree('can_read', case, '%s %s %s %s' % (cr, cr_rev, mu, self_w), '%s %s %s %s' % mc)

def run(tier, seed):
    run_ = fw.Run(PROP, tier, seed)
    run_.proof = fw.proof_step(PROP, THEOREMS)
    exe = fw.build_harness()
    drv = fw.build_ocaml()
    lines, meta = gen(tier, seed)
    parsed, model = evo.run_both(lines, meta, exe, drv)
    judge(run_, meta, parsed, model)
    return fw.finish(run_, 'theorems C09_* + differential check of verdicts against actual reads', RULE, search)

def search(run_):
    exe = fw.build_harness()
    drv = fw.build_ocaml()
    r2 = fw.Run(PROP, run_.tier, run_.seed + 1)
    lines, meta = gen('quick', run_.seed + 1)
    parsed, model = evo.run_both(lines, meta, exe, drv)
    judge(r2, meta, parsed, model)
    return r2.failures

def replay(rp):
    f = rp.get('failure')
    print(f)
    if f:
        exe = fw.build_harness()
        c = f['case']
        print(fw.run_lines(exe, ['r0 (read2 %s %s %s)' % (hx(c['W']), hx(c['R']), c['value'])]))
    return 0
