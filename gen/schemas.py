"""Schema and value generators.  A generated node carries the JSON to hand to Schema::parse_str and
a generator of *canonical conforming* value terms (the shape the decoder produces)."""
import json
from sx import hx

I32 = [0, 1, -1, 63, 64, -64, -65, 8191, 8192, -8192, -8193, 2**20 - 1, 2**20, -2**20, -2**20 - 1,
       2**27 - 1, 2**27, -2**27, -2**27 - 1, 2**31 - 1, -2**31, 2**31 - 2, -2**31 + 1, 127, 128, 255, 256]
I64 = I32 + [2**31, -2**31 - 1, 2**34 - 1, 2**34, -2**34, -2**34 - 1, 2**41 - 1, 2**41, -2**41, -2**41 - 1,
             2**48 - 1, 2**48, -2**48, -2**48 - 1, 2**55 - 1, 2**55, -2**55, -2**55 - 1,
             2**62 - 1, 2**62, -2**62, -2**62 - 1, 2**63 - 1, -2**63, 2**63 - 2, -2**63 + 1]
F32 = [0x00000000, 0x80000000, 0x7f800000, 0xff800000, 0x7fc00000, 0x7fc00001, 0xffc12345, 0x7f800001,
       0x00000001, 0x007fffff, 0x00800000, 0x3f800000, 0xbf800000, 0x7f7fffff, 0x40490fdb]
F64 = [0x0, 0x8000000000000000, 0x7ff0000000000000, 0xfff0000000000000, 0x7ff8000000000000,
       0x7ff8000000000001, 0xfff8deadbeef0001, 0x7ff0000000000001, 0x1, 0x000fffffffffffff,
       0x0010000000000000, 0x3ff0000000000000, 0xbff0000000000000, 0x7fefffffffffffff, 0x400921fb54442d18]
STRS = ["", "a", "hello", "é", "€", "\U0001f600", "\U0010ffff", "a\u0000b", "x" * 127, "y" * 128,
        "߿ࠀ￿", "tab\tnl\n\"q\"\\"]
TWOS = [b"\x00", b"\x01", b"\xff", b"\x7f", b"\x80", b"\x00\x80", b"\xff\x7f", b"\x7f\xff", b"\x80\x00",
        b"\x01\x00\x00", b"\xfe\xff\xff\xff", b"\x00\xff\xff\xff\xff\xff\xff\xff\xff", b"\x80" + b"\x00" * 15]

# base type of a logical type: unions may hold one schema per (base) type
BASE = {"date": "int", "time-millis": "int", "time-micros": "long", "timestamp-millis": "long",
        "timestamp-micros": "long", "timestamp-nanos": "long", "local-timestamp-millis": "long",
        "local-timestamp-micros": "long", "local-timestamp-nanos": "long", "decimal": "bytes",
        "uuid-string": "string", "uuid-bytes": "bytes", "bigdecimal": "bytes"}

def minimal(b):
    b = bytes(b)
    if len(b) == 0:
        return b"\x00"
    while len(b) >= 2 and ((b[0] == 0 and b[1] < 128) or (b[0] == 255 and b[1] >= 128)):
        b = b[1:]
    return b

def sign_extend(b, n):
    m = minimal(b)
    if len(m) > n:
        return None
    sb = b"\xff" if (len(b) > 0 and b[0] >= 128) else b"\x00"
    return sb * (n - len(m)) + m

class Node:
    def __init__(self, js, gen, kind, named=None):
        self.json = js          # python JSON object
        self.gen = gen          # (rng, depth) -> value term (string)
        self.kind = kind        # SchemaKind-like string, for union duplicate rules
        self.named = named      # full name if this node defines/references a named type

class Ctx:
    def __init__(self, rng, max_depth=3, logical=True):
        self.rng = rng
        self.defined = {}       # fullname -> Node (value generator is late-bound)
        self.counter = 0
        self.max_depth = max_depth
        self.logical = logical
        self.kinds = {}         # statistics: kind -> count

    def fresh(self, base):
        self.counter += 1
        return f"{base}{self.counter}"

def pick_int(rng, table, lo, hi):
    if rng.chance(2, 3):
        return rng.choice(table)
    k = rng.below(64)
    v = rng.range(0, (1 << k) - 1) if k else 0
    v = v if rng.chance(1, 2) else -v - 1
    return max(lo, min(hi, v))

BIG = [4095, 4096, 4097, 8191, 8192, 8193, 16383, 16384, 16385, 65535, 65536, 65537]

def big_str(rng):
    """long strings whose multi-byte characters straddle power-of-two offsets (buffer boundaries)"""
    n = rng.choice(BIG)
    k = rng.below(4)
    if k == 0:
        return 'a' * (n - 1) + rng.choice(['é', '€', '\U0001f600']) + 'b' * rng.below(5)
    if k == 1:
        return rng.choice(['é', '€', '\U0001f600']) * (n // 2)
    if k == 2:
        return 'x' * n
    return ('a' * (n - 2) + '€') * 2

MANY = [63, 64, 65, 255, 256, 1023, 1024, 1025, 2048]      # item counts of occasional large arrays and maps
MID = [62, 63, 64, 65, 66]       # byte lengths around the 1-byte / 2-byte boundary of the length prefix (zig-zag 64 = 0x80 0x01)

def mid_str(rng):
    n = rng.choice(MID)
    k = rng.below(3)
    if k == 0:
        return 'm' * n
    if k == 1:
        return 'm' * (n - 2) + 'é'            # the same byte length with a 2-byte character at the end
    return '€' * (n // 3) + 'z' * (n % 3)

SMALL_ONLY = [0]        # > 0 while the items of a large collection are generated: no multi-kilobyte strings inside them

def gen_str(rng):
    if rng.chance(1, 40):
        if SMALL_ONLY[0]:
            return 'big' * 5
        return big_str(rng)
    if rng.chance(1, 14):
        return mid_str(rng)
    if rng.chance(1, 2):
        return rng.choice(STRS)
    n = rng.below(12)
    alphabet = "abcXYZ09 _é€\U0001f600"
    return ''.join(rng.choice(alphabet) for _ in range(n))

def gen_bytes(rng, n=None):
    if n is None:
        if rng.chance(1, 40):
            n = rng.choice(BIG) if not SMALL_ONLY[0] else 15
            return bytes((i * 31 + 7) & 0xff for i in range(n))
        if rng.chance(1, 14):
            return rng.bytes(rng.choice(MID))
        n = rng.choice([0, 1, 2, 3, 7, 16, 127, 128]) if rng.chance(1, 2) else rng.below(20)
    return rng.bytes(n)

def full_name(name, namespace, ens):
    """fully qualified name as the parser computes it (schema/name.rs)"""
    if '.' in name:
        if name.startswith('.'):
            return name[1:]
        return name
    ns = namespace if namespace is not None else ens
    if ns:
        return ns + '.' + name
    return name

def ns_of(full):
    return full.rsplit('.', 1)[0] if '.' in full else None

def named_header(ctx, base, ens):
    """choose a name / namespace spelling; returns (json fields, fullname)"""
    rng = ctx.rng
    nm = ctx.fresh(base)
    style = rng.below(6)
    js = {}
    if style == 0 or ens is None and style == 1:
        js["name"] = nm                                     # inherits enclosing namespace
        full = full_name(nm, None, ens)
    elif style == 1:
        js["name"] = nm
        js["namespace"] = ens                               # redundant spelling
        full = full_name(nm, ens, ens)
    elif style == 2:
        ns = rng.choice(["n1", "n1.n2", "org.example_1"])
        js["name"] = nm
        js["namespace"] = ns
        full = ns + '.' + nm
    elif style == 3:
        ns = rng.choice(["d1", "d1.d2"])
        js["name"] = ns + '.' + nm                          # dotted name, namespace attr ignored
        if rng.chance(1, 2):
            js["namespace"] = "ignored.ns"
        full = ns + '.' + nm
    elif style == 4 and ens:
        # explicitly empty namespace while enclosed: the null-namespace case.
        js["name"] = nm
        js["namespace"] = ""
        full = full_name(nm, "", ens)
    else:
        js["name"] = nm
        full = full_name(nm, None, ens)
    return js, full

def ref_spelling(rng, full, ens):
    """how a reference to [full] is written from inside namespace [ens]"""
    n = full.rsplit('.', 1)
    if len(n) == 2 and ens == n[0] and rng.chance(1, 2):
        return n[1]
    if len(n) == 1 and ens:
        return '.' + full if rng.chance(1, 2) else None     # None: cannot refer by short name
    return full

def leaf(ctx, ens, allow_named=True):
    rng = ctx.rng
    prims = ["null", "boolean", "int", "long", "float", "double", "bytes", "string"]
    logical = ["date", "time-millis", "time-micros", "timestamp-millis", "timestamp-micros", "timestamp-nanos",
               "local-timestamp-millis", "local-timestamp-micros", "local-timestamp-nanos",
               "decimal-bytes", "uuid-string", "uuid-bytes", "big-decimal"]
    named = ["fixed", "enum", "decimal-fixed", "uuid-fixed", "duration"]
    pool = prims + (logical if ctx.logical else []) + (named if allow_named else [])
    k = rng.choice(pool)
    return make_leaf(ctx, k, ens)

def make_leaf(ctx, k, ens):
    rng = ctx.rng
    ctx.kinds[k] = ctx.kinds.get(k, 0) + 1
    z32 = lambda r, d: pick_int(r, I32, -2**31, 2**31 - 1)
    z64 = lambda r, d: pick_int(r, I64, -2**63, 2**63 - 1)
    if k == "null":
        return Node("null", lambda r, d: "(null)", "null")
    if k == "boolean":
        return Node("boolean", lambda r, d: "(boolean %d)" % r.below(2), "boolean")
    if k == "int":
        return Node("int", lambda r, d: "(int %d)" % z32(r, d), "int")
    if k == "long":
        return Node("long", lambda r, d: "(long %d)" % z64(r, d), "long")
    if k == "float":
        return Node("float", lambda r, d: "(float %d)" % (r.choice(F32) if r.chance(2, 3) else r.below(2**32)), "float")
    if k == "double":
        return Node("double", lambda r, d: "(double %d)" % (r.choice(F64) if r.chance(2, 3) else r.next()), "double")
    if k == "bytes":
        return Node("bytes", lambda r, d: "(bytes %s)" % hx(gen_bytes(r)), "bytes")
    if k == "string":
        js = "string" if rng.chance(3, 4) else {"type": "string"}
        return Node(js, lambda r, d: "(string %s)" % hx(gen_str(r)), "string")
    simple_logical = {"date": ("int", z32), "time-millis": ("int", z32), "time-micros": ("long", z64),
                      "timestamp-millis": ("long", z64), "timestamp-micros": ("long", z64),
                      "timestamp-nanos": ("long", z64), "local-timestamp-millis": ("long", z64),
                      "local-timestamp-micros": ("long", z64), "local-timestamp-nanos": ("long", z64)}
    if k in simple_logical:
        base, g = simple_logical[k]
        return Node({"type": base, "logicalType": k}, lambda r, d, k=k, g=g: "(%s %d)" % (k, g(r, d)), k)
    if k == "decimal-bytes":
        prec = rng.range(1, 30)
        js = {"type": "bytes", "logicalType": "decimal", "precision": prec, "scale": rng.range(0, prec)}
        def g(r, d):
            b = r.choice(TWOS) if r.chance(1, 2) else gen_bytes(r, r.range(1, 12))
            return "(decimal %s)" % hx(b)
        return Node(js, g, "decimal")
    if k == "uuid-string":
        return Node({"type": "string", "logicalType": "uuid"}, lambda r, d: "(uuid %s)" % hx(r.bytes(16)), "uuid-string")
    if k == "uuid-bytes":
        return Node({"type": "bytes", "logicalType": "uuid"}, lambda r, d: "(uuid %s)" % hx(r.bytes(16)), "uuid-bytes")
    if k == "big-decimal":
        def g(r, d):
            u = minimal(r.choice(TWOS) if r.chance(1, 2) else gen_bytes(r, r.range(1, 12)))
            return "(bigdecimal %s %d)" % (hx(u), pick_int(r, I64, -2**63, 2**63 - 1))
        return Node({"type": "bytes", "logicalType": "big-decimal"}, g, "bigdecimal")
    # named leaves
    if k == "fixed":
        size = rng.choice([0, 1, 2, 4, 12, 16, 17]) if rng.chance(19, 20) else rng.choice([4097, 16385, 32768])
        hdr, full = named_header(ctx, "Fx", ens)
        js = dict(hdr, type="fixed", size=size)
        node = Node(js, lambda r, d: "(fixed %d %s)" % (size, hx(r.bytes(size))), "fixed", full)
        ctx.defined[full] = node
        return node
    if k == "enum":
        nsym = rng.choice([1, 2, 3, 5])
        if rng.chance(1, 25):
            nsym = 130          # indexes 64..129 need a two-byte zig-zag varint
        syms = ["S%d" % i for i in range(nsym)]
        hdr, full = named_header(ctx, "En", ens)
        js = dict(hdr, type="enum", symbols=syms)
        if rng.chance(1, 3):
            js["default"] = rng.choice(syms)
        def g(r, d):
            i = r.below(nsym)
            if nsym > 64 and r.chance(1, 2):
                i = r.choice([62, 63, 64, 65, 127, 128, 129])
            return "(enum %d %s)" % (i, hx(syms[i]))
        node = Node(js, g, "enum", full)
        ctx.defined[full] = node
        return node
    if k == "decimal-fixed":
        size = rng.choice([1, 2, 4, 8, 16])
        hdr, full = named_header(ctx, "Df", ens)
        prec = rng.range(1, 2 * size)
        js = dict(hdr, type="fixed", size=size, logicalType="decimal", precision=prec, scale=rng.range(0, prec))
        def g(r, d):
            while True:
                b = r.choice(TWOS) if r.chance(1, 2) else gen_bytes(r, r.range(1, size))
                if len(minimal(b)) <= size:
                    return "(decimal %s)" % hx(b)
        node = Node(js, g, "decimal", full)
        ctx.defined[full] = node
        return node
    if k == "uuid-fixed":
        hdr, full = named_header(ctx, "Uf", ens)
        js = dict(hdr, type="fixed", size=16, logicalType="uuid")
        node = Node(js, lambda r, d: "(uuid %s)" % hx(r.bytes(16)), "uuid", full)
        ctx.defined[full] = node
        return node
    if k == "duration":
        hdr, full = named_header(ctx, "Du", ens)
        js = dict(hdr, type="fixed", size=12, logicalType="duration")
        def g(r, d):
            u = lambda: r.choice([0, 1, 255, 256, 65535, 2**31, 2**32 - 1]) if r.chance(1, 2) else r.below(2**32)
            return "(duration %d %d %d)" % (u(), u(), u())
        node = Node(js, g, "duration", full)
        ctx.defined[full] = node
        return node
    raise ValueError(k)

def gen_schema(ctx, depth, ens, in_union=False, rec_stack=()):
    """returns a Node.  rec_stack: full names of records currently being defined (for recursion)."""
    rng = ctx.rng
    if depth >= ctx.max_depth:
        return leaf(ctx, ens)
    choice = rng.below(12)
    # reference to an already completed named type
    if choice == 0 and ctx.defined:
        full = rng.choice(sorted(ctx.defined.keys()))
        sp = ref_spelling(rng, full, ens)
        if sp is not None:
            target = ctx.defined[full]
            ctx.kinds["ref"] = ctx.kinds.get("ref", 0) + 1
            return Node(sp, lambda r, d, t=target: t.gen(r, d), "ref:" + full, full)
    if choice in (1, 2):
        it = gen_schema(ctx, depth + 1, ens, rec_stack=rec_stack)
        ctx.kinds["array"] = ctx.kinds.get("array", 0) + 1
        def g(r, d, it=it):
            n = 0 if d > 4 else r.choice([0, 1, 2, 3, 5])
            if d <= 1 and r.chance(1, 50):
                # a large collection, its size around a power of two (block splitting, count prefixes of 2 bytes);
                # the items are generated as if deeply nested, so that they stay small
                n = r.choice(MANY)
                SMALL_ONLY[0] += 1
                try:
                    return "(array%s)" % ''.join(' ' + it.gen(r, d + 4) for _ in range(n))
                finally:
                    SMALL_ONLY[0] -= 1
            return "(array%s)" % ''.join(' ' + it.gen(r, d + 1) for _ in range(n))
        return Node({"type": "array", "items": it.json}, g, "array")
    if choice == 3:
        vt = gen_schema(ctx, depth + 1, ens, rec_stack=rec_stack)
        ctx.kinds["map"] = ctx.kinds.get("map", 0) + 1
        def g(r, d, vt=vt):
            n = 0 if d > 4 else r.choice([0, 1, 2, 3])
            if d <= 1 and r.chance(1, 80):
                n = r.choice(MANY)
                SMALL_ONLY[0] += 1
                try:
                    return "(map%s)" % ''.join(' (kv %s %s)' % (hx('k%d' % q), vt.gen(r, d + 4)) for q in range(n))
                finally:
                    SMALL_ONLY[0] -= 1
            keys = []
            while len(keys) < n:
                k = gen_str(r)
                if k not in keys:
                    keys.append(k)
            return "(map%s)" % ''.join(' (kv %s %s)' % (hx(k), vt.gen(r, d + 1)) for k in keys)
        return Node({"type": "map", "values": vt.json}, g, "map")
    if choice in (4, 5) and not in_union:
        n = rng.choice([1, 2, 2, 3, 4])
        branches = []
        seen = set()
        tries = 0
        while len(branches) < n and tries < 20:
            tries += 1
            b = gen_schema(ctx, depth + 1, ens, in_union=True, rec_stack=rec_stack)
            key = b.named if b.named else BASE.get(b.kind, b.kind)
            if key in seen:
                continue
            seen.add(key)
            branches.append(b)
        if rng.chance(1, 2) and "null" not in seen:
            branches.insert(rng.below(len(branches) + 1), make_leaf(ctx, "null", ens))
        ctx.kinds["union"] = ctx.kinds.get("union", 0) + 1
        def g(r, d, branches=branches):
            i = r.below(len(branches))
            if d > 4:
                for j, b in enumerate(branches):
                    if b.kind == "null":
                        i = j
            return "(union %d %s)" % (i, branches[i].gen(r, d + 1))
        return Node([b.json for b in branches], g, "union")
    if choice in (6, 7, 8):
        hdr, full = named_header(ctx, "Rec", ens)
        inner_ns = ns_of(full)
        nf = rng.choice([0, 1, 2, 3, 4])
        fields = []
        me = Node(None, None, "record", full)
        ctx.kinds["record"] = ctx.kinds.get("record", 0) + 1
        stack = rec_stack + (full,)
        for i in range(nf):
            fname = "f%d" % i if rng.chance(3, 4) else rng.choice(["a", "b_1", "_c", "Zz"]) + str(i)
            # recursion through union-with-null / array / map
            if rng.chance(1, 6):
                sp = ref_spelling(rng, full, inner_ns)
                if sp is not None:
                    how = rng.below(3)
                    ctx.kinds["recursive-ref"] = ctx.kinds.get("recursive-ref", 0) + 1
                    if how == 0:
                        js = ["null", sp]
                        g = lambda r, d, me=me: "(union 0 (null))" if d > 3 or r.chance(1, 2) else "(union 1 %s)" % me.gen(r, d + 1)
                    elif how == 1:
                        js = {"type": "array", "items": sp}
                        g = lambda r, d, me=me: "(array)" if d > 3 or r.chance(1, 2) else "(array %s)" % me.gen(r, d + 1)
                    else:
                        js = {"type": "map", "values": sp}
                        g = lambda r, d, me=me: "(map)" if d > 3 or r.chance(1, 2) else "(map (kv %s %s))" % (hx("k"), me.gen(r, d + 1))
                    fields.append((fname, Node(js, g, "x")))
                    continue
            fields.append((fname, gen_schema(ctx, depth + 1, inner_ns, rec_stack=stack)))
        fjs = []
        for fname, fn in fields:
            f = {"name": fname, "type": fn.json}
            if rng.chance(1, 5):
                f["doc"] = "doc of " + fname
            fjs.append(f)
        me.json = dict(hdr, type="record", fields=fjs)
        me.gen = lambda r, d, fields=fields: "(record%s)" % ''.join(' (kv %s %s)' % (hx(n), f.gen(r, d + 1)) for n, f in fields)
        ctx.defined[full] = me
        return me
    return leaf(ctx, ens)

def gen_case_schema(rng, max_depth=3, logical=True):
    ctx = Ctx(rng, max_depth=max_depth, logical=logical)
    node = gen_schema(ctx, 0, None)
    return node, ctx

def schema_text(node):
    return json.dumps(node.json, ensure_ascii=False)
