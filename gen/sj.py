"""Shared machinery of C10 / C11 / C12(PCF) / C20: schema texts through the implementation (harness ops schema-rt,
parse-text) and through the extracted model (ops parse, schema-json)."""
import json
import struct
import copy
import framework as fw
from rng import Rng
from sx import parse, show, hx, unhx, tag
import schematext

def dup_keys(text):
    """duplicate keys in any object of a JSON text (None if the text is not JSON)"""
    dups = []
    def hook(pairs):
        ks = [k for k, _ in pairs]
        if len(set(ks)) != len(ks):
            dups.append(sorted({k for k in ks if ks.count(k) > 1}))
        return dict(pairs)
    try:
        json.loads(text, object_pairs_hook=hook)
    except Exception:
        return None
    return dups

def to_tree(text):
    """JSON text -> the term the model prints for a JSON value (object entries in text order, repeats kept)"""
    def hook(pairs):
        return ('jobj', list(pairs))
    def conv(x):
        if x is None:
            return ['jnull']
        if x is True:
            return ['jbool', '1']
        if x is False:
            return ['jbool', '0']
        if isinstance(x, int):
            return ['jint', str(x)]
        if isinstance(x, float):
            return ['jfloat', str(struct.unpack('<Q', struct.pack('<d', x))[0])]
        if isinstance(x, str):
            return ['jstr', hx(x)]
        if isinstance(x, list):
            return ['jarr'] + [conv(y) for y in x]
        return ['jobj'] + [['kv', hx(k), conv(v)] for k, v in x[1]]
    return conv(json.loads(text, object_pairs_hook=hook))

REPL = [None, True, 0, -1, 1.5, 2 ** 64, -2 ** 63 - 1, '', 'x', 'int', 'record', 'bool', '.', 'a..b', '9a', 'a.b.', '_a.B', 'a._b.C', '_', '_._', 'a.9b.C', [], {}, ['null', 'null'],
        ['int', ['null']], {'type': 'int'}, {'type': 'record'}, {'type': 'fixed', 'name': 'Q', 'size': -1},
        {'type': 'enum', 'name': 'Q', 'symbols': ['A', 'A']}, {'type': 'enum', 'name': 'Q', 'symbols': ['A'], 'default': 'B'},
        {'type': 'fixed', 'name': 'Q', 'size': 1.5}, 'Q', {'type': 'fixed', 'name': 'Rec1', 'size': 2}, 1e400 if False else 1e308]
KEYS = ['type', 'name', 'namespace', 'fields', 'symbols', 'items', 'values', 'size', 'logicalType', 'default', 'aliases', 'doc',
        'precision', 'scale', 'order']

def _get(x, p):
    for q in p:
        x = x[q]
    return x

def mutate(r, js):
    """one JSON-level mutation: replace / drop / add a key / duplicate an element, at a random position"""
    js = copy.deepcopy(js)
    nodes = []
    def walk(x, path):
        nodes.append(path)
        if isinstance(x, dict):
            for k, v in x.items():
                walk(v, path + (k,))
        elif isinstance(x, list):
            for i, v in enumerate(x):
                walk(v, path + (i,))
    walk(js, ())
    if r.chance(1, 4):
        # set the default of a record field to a near-miss value
        fields = [p for p in nodes if p and isinstance(_get(js, p), dict) and 'name' in _get(js, p) and 'type' in _get(js, p)
                  and len(p) >= 2 and p[-2] == 'fields']
        if fields:
            f = _get(js, r.choice(fields))
            f['default'] = r.choice(['x', 'not-a-uuid', '', 0, -1, 1.5, None, True, [], {}, 'S0', 'A', 'ÿ', [0], {'k': 1}, 2 ** 40,
                                     '12345678-1234-1234-1234-123456789abc'])
            return js, 'set-field-default'
    path = r.choice(nodes)
    if not path:
        return r.choice(REPL), 'replace-root'
    parent = js
    for q in path[:-1]:
        parent = parent[q]
    key = path[-1]
    how = r.below(4)
    if how == 0:
        parent[key] = r.choice(REPL)
        return js, 'replace'
    if how == 1 and isinstance(parent, dict):
        del parent[key]
        return js, 'drop-key'
    if how == 2 and isinstance(parent, dict):
        parent[r.choice(KEYS)] = r.choice(REPL)
        return js, 'add-key'
    if isinstance(parent, list):
        parent.append(copy.deepcopy(parent[key]))
        return js, 'duplicate-element'
    parent[key] = r.choice(REPL)
    return js, 'replace'

def junk_text(r):
    """arbitrary strings and arbitrary JSON that is not a schema"""
    k = r.below(8)
    if k == 0:
        return ''.join(chr(r.choice([34, 123, 125, 91, 93, 44, 58, 92, 32, 110, 48, 0x7f, 0xe9])) for _ in range(r.below(24)))
    if k == 1:
        return r.choice(['', ' ', 'null', 'true', '0', '-1e999', '""', '"', '{', '[', '[[[[[[[[', '{"type":', '﻿"int"', '"int" x', '"\\ud800"'])
    if k == 2:
        return '[' * r.choice([10, 200, 2000]) + ']' * r.choice([0, 10, 200, 2000])
    if k == 3:
        return '{"type":' * r.choice([3, 50, 300]) + '"int"' + '}' * r.choice([3, 50, 300])
    if k == 4:
        return json.dumps(r.choice(REPL))
    if k == 5:
        return json.dumps({'type': 'record', 'name': 'R', 'fields': [{'name': 'f', 'type': r.choice(REPL)}]})
    if k == 6:
        return json.dumps({'type': 'fixed', 'name': r.choice(['', 'a.', '.a', 'a..b', 'é', 'a b', '1', 'a.1', 'null', 'int']), 'size': r.choice([0, 1, 2 ** 63, 2 ** 64 - 1])})
    return json.dumps({'type': 'enum', 'name': 'E', 'symbols': r.choice([[], ['A'], ['A', 'A'], ['1'], [1], 'A', ['a-b']]), 'default': r.choice(['A', 'B', 1, None])})

def run_impl(op, texts):
    """texts: dict id -> text; returns id -> parsed observation term"""
    exe = fw.build_harness()
    out = fw.run_lines(exe, ['%s (%s %s)' % (cid, op, hx(t)) for cid, t in texts.items()])
    return {cid: parse(out.get(cid, '(missing)')) for cid in texts}

def run_model(lines):
    drv = fw.build_ocaml()
    out = fw.run_lines(drv, lines)
    return {l.split(' ', 1)[0]: parse(out.get(l.split(' ', 1)[0], '(missing)')) for l in lines}

def has_logical(js):
    if isinstance(js, list):
        return any(has_logical(x) for x in js)
    if isinstance(js, dict):
        return 'logicalType' in js or any(has_logical(v) for k, v in js.items() if k in ('type', 'items', 'values', 'fields'))
    return False


import re
UUID_RE = re.compile(r'^[0-9a-fA-F]{8}-?[0-9a-fA-F]{4}-?[0-9a-fA-F]{4}-?[0-9a-fA-F]{4}-?[0-9a-fA-F]{12}$')

def default_conforms(t, d, defs):
    """does the JSON default d conform to the schema JSON t?  True / False / None (not decided by this oracle).
    A union default may match any branch (the library's documented leniency; the specification says the first)."""
    if isinstance(t, list):
        rs = [default_conforms(b, d, defs) for b in t]
        if any(x is True for x in rs):
            return True
        return False if rs and all(x is False for x in rs) else None
    if isinstance(t, str):
        if t == 'null':
            return d is None
        if t == 'boolean':
            return isinstance(d, bool)
        if t == 'int':
            return isinstance(d, int) and not isinstance(d, bool) and -2 ** 31 <= d < 2 ** 31
        if t == 'long':
            return isinstance(d, int) and not isinstance(d, bool) and -2 ** 63 <= d < 2 ** 63
        if t in ('float', 'double'):
            return None if isinstance(d, str) else (isinstance(d, (int, float)) and not isinstance(d, bool))
        if t == 'string':
            return isinstance(d, str)
        if t == 'bytes':
            return isinstance(d, str) and all(ord(c) < 256 for c in d) if isinstance(d, str) else (None if isinstance(d, list) else False)
        return None          # a reference
    if not isinstance(t, dict):
        return None
    ty = t.get('type')
    lt = t.get('logicalType')
    if isinstance(ty, (dict, list)):
        return default_conforms(ty, d, defs) if lt is None else None
    if lt == 'uuid' and ty == 'string':
        return isinstance(d, str) and bool(UUID_RE.match(d))
    if lt is not None:
        return None
    if ty == 'enum':
        return isinstance(d, str) and (d in t.get('symbols', []) or 'default' in t) if isinstance(t.get('symbols'), list) else None
    if ty == 'fixed':
        return (None if not isinstance(d, str) else None)
    if ty == 'array':
        if not isinstance(d, list):
            return None if isinstance(d, str) else False
        rs = [default_conforms(t.get('items'), x, defs) for x in d]
        return False if any(x is False for x in rs) else (True if all(x is True for x in rs) else None)
    if ty == 'map':
        if not isinstance(d, dict):
            return False
        rs = [default_conforms(t.get('values'), x, defs) for x in d.values()]
        return False if any(x is False for x in rs) else (True if all(x is True for x in rs) else None)
    if ty == 'record':
        return None if isinstance(d, dict) else False
    if isinstance(ty, str):
        return default_conforms(ty, d, defs) if set(t) - {'type'} == set() or True else None
    return None

def nonconforming_defaults(js, out, defs=None):
    """(field name, default) pairs of the schema JSON whose default certainly does not conform"""
    if isinstance(js, list):
        for x in js:
            nonconforming_defaults(x, out)
    elif isinstance(js, dict):
        if js.get('type') == 'record' and isinstance(js.get('fields'), list):
            for f in js['fields']:
                if isinstance(f, dict) and 'type' in f:
                    if 'default' in f and default_conforms(f['type'], f['default'], defs) is False:
                        out.append((f.get('name'), f['default']))
                    nonconforming_defaults(f['type'], out)
        for k in ('items', 'values'):
            if k in js:
                nonconforming_defaults(js[k], out)
        if isinstance(js.get('type'), (dict, list)):
            nonconforming_defaults(js['type'], out)
    return out
