"""Independent reader/writer of the object-container-file layout (python side): used to compare
headers semantically, to find block boundaries, and as the independent implementation of C04."""
import zlib, bz2, lzma

class OcfError(Exception):
    pass

def read_long(b, pos):
    """zig-zag varint; returns (value, newpos).  Strict: at most 10 bytes."""
    shift = 0
    acc = 0
    for i in range(10):
        if pos >= len(b):
            raise OcfError('eof in varint')
        x = b[pos]; pos += 1
        acc |= (x & 0x7f) << shift
        shift += 7
        if not x & 0x80:
            acc &= (1 << 64) - 1
            return ((acc >> 1) ^ -(acc & 1)), pos
    raise OcfError('varint too long')

def write_long(n):
    z = (n << 1) ^ (n >> 63)
    z &= (1 << 64) - 1
    out = bytearray()
    while True:
        if z <= 0x7f:
            out.append(z)
            return bytes(out)
        out.append(0x80 | (z & 0x7f))
        z >>= 7

def read_bytes(b, pos):
    n, pos = read_long(b, pos)
    if n < 0 or pos + n > len(b):
        raise OcfError('bytes length')
    return b[pos:pos + n], pos + n

def parse_header(b):
    """returns (meta: list of (key bytes, value bytes) in wire order, marker, body_offset)"""
    if b[:4] != b'Obj\x01':
        raise OcfError('magic')
    pos = 4
    meta = []
    while True:
        n, pos = read_long(b, pos)
        if n == 0:
            break
        if n < 0:
            _, pos = read_long(b, pos)
            n = -n
        for _ in range(n):
            k, pos = read_bytes(b, pos)
            v, pos = read_bytes(b, pos)
            meta.append((k, v))
    if pos + 16 > len(b):
        raise OcfError('marker')
    return meta, b[pos:pos + 16], pos + 16

def parse_blocks(b, pos, marker):
    """returns list of (start, end, count, payload) for the well-formed blocks from pos on; stops at
    the first malformed one (returned as the third element of the result tuple)"""
    blocks = []
    while pos < len(b):
        st = pos
        try:
            count, pos = read_long(b, pos)
            size, pos = read_long(b, pos)
            if count < 0 or size < 0 or pos + size + 16 > len(b):
                raise OcfError('block')
            payload = b[pos:pos + size]
            pos += size
            if b[pos:pos + 16] != marker:
                raise OcfError('marker')
            pos += 16
        except OcfError as e:
            return blocks, st, str(e)
        blocks.append((st, pos, count, payload))
    return blocks, pos, None

def snappy_raw_decompress(data):
    """raw snappy block format"""
    pos = 0
    n = 0; shift = 0
    while True:
        x = data[pos]; pos += 1
        n |= (x & 0x7f) << shift
        shift += 7
        if not x & 0x80:
            break
    out = bytearray()
    while pos < len(data):
        tag = data[pos]; pos += 1
        t = tag & 3
        if t == 0:
            ln = tag >> 2
            if ln >= 60:
                nb = ln - 59
                ln = int.from_bytes(data[pos:pos + nb], 'little'); pos += nb
            ln += 1
            out += data[pos:pos + ln]; pos += ln
        else:
            if t == 1:
                ln = ((tag >> 2) & 7) + 4
                off = ((tag >> 5) << 8) | data[pos]; pos += 1
            elif t == 2:
                ln = (tag >> 2) + 1
                off = int.from_bytes(data[pos:pos + 2], 'little'); pos += 2
            else:
                ln = (tag >> 2) + 1
                off = int.from_bytes(data[pos:pos + 4], 'little'); pos += 4
            if off == 0 or off > len(out):
                raise OcfError('snappy offset')
            for _ in range(ln):
                out.append(out[-off])
    if len(out) != n:
        raise OcfError('snappy length')
    return bytes(out)

def decompress(codec, payload):
    if codec == 'null':
        return payload
    if codec == 'deflate':
        return zlib.decompress(payload, -15)
    if codec == 'bzip2':
        return bz2.decompress(payload)
    if codec == 'xz':
        return lzma.decompress(payload)
    if codec == 'snappy':
        raw = snappy_raw_decompress(payload[:-4])
        if zlib.crc32(raw).to_bytes(4, 'big') != payload[-4:]:
            raise OcfError('snappy crc')
        return raw
    raise OcfError('no reference decoder for ' + codec)

def compress(codec, data):
    if codec == 'null':
        return data
    if codec == 'deflate':
        c = zlib.compressobj(6, zlib.DEFLATED, -15)
        return c.compress(data) + c.flush()
    if codec == 'bzip2':
        return bz2.compress(data)
    if codec == 'xz':
        return lzma.compress(data)
    raise OcfError('no reference encoder for ' + codec)
