"""C01 - datum round trip.  Theorems: coq/Props/C01.v.  Correspondence: GenericDatumWriter /
GenericDatumReader against Model.Codec.encode / decode on generated (schema, value) pairs."""
import framework as fw
from rng import Rng
from sx import parse, show, hx, unhx, tag
from schemas import gen_case_schema, schema_text
from values import canon

PROP = 'C01'
THEOREMS = ['C01_roundtrip', 'C01_concat', 'C01_validate_irrelevant', 'C01_decimal_fixed_numeric',
            'C01_nonvacuous', 'C01_example_bytes']
CFG = '(cfg 536870912 56 80)'
RULE = ('schemas from the grammar generator (all primitive, logical, named, recursive kinds, namespace '
        'spellings), values from boundary tables + PRNG; each pair written with validation on and off, '
        'junk bytes appended before decoding. non-trivial = distinct (schema,value) whose encoding has >= 2 '
        'bytes and decodes successfully')

def gen_cases(tier, seed):
    rng = Rng(seed)
    nschemas = 400 if tier == 'quick' else 12000
    per = 4 if tier == 'quick' else 8
    lines = []
    meta = {}
    kinds = {}
    n = 0
    for i in range(nschemas):
        r = rng.fork(i)
        node, ctx = gen_case_schema(r, max_depth=r.choice([1, 2, 3, 3, 4]))
        for k, v in ctx.kinds.items():
            kinds[k] = kinds.get(k, 0) + v
        st = schema_text(node)
        for j in range(per):
            v = node.gen(r, 0)
            junk = r.bytes(r.choice([0, 0, 1, 3]))
            for validate in (1, 0):
                cid = 'c%d' % n
                n += 1
                lines.append('%s (datum %s %s %s %d)' % (cid, hx(st), v, hx(junk), validate))
                meta[cid] = (st, v, junk, validate)
    return lines, meta, kinds

def evaluate(run, lines, meta, exe, drv):
    impl = fw.run_lines(exe, lines)
    mlines = []
    parsed = {}
    for l in lines:
        cid = l.split(' ', 1)[0]
        o = impl.get(cid)
        st, v, junk, validate = meta[cid]
        case = {'schema': st, 'value': v, 'junk': junk.hex(), 'validate': validate}
        run.evaluations += 1
        if o is None:
            run.fail('no-observation', 'harness produced no observation', case)
            continue
        t = parse(o)
        k = tag(t)
        run.count('impl:' + str(k))
        if k == 'schema-err':
            run.count('schema-rejected')
            continue
        if k != 'obs':
            run.fail('impl-' + str(k), 'implementation outcome %s' % o[:200], case)
            continue
        parsed[cid] = t
        mlines.append('%se (encode %s %s)' % (cid, show(t[1]), show(t[2])))
        if tag(t[3]) == 'ok':
            mlines.append('%sd (decode %s %s %s)' % (cid, CFG, show(t[1]), hx(unhx(t[3][1]) + junk)))
    model = fw.run_lines(drv, mlines)
    for cid, t in parsed.items():
        st, v, junk, validate = meta[cid]
        case = {'schema': st, 'value': v, 'junk': junk.hex(), 'validate': validate}
        enc, dec = t[3], t[4]
        # --- the property, evaluated on the implementation's own observations
        want = canon(parse(v), True)
        if tag(enc) == 'writer-err' and fw.null_ns_schema(st) and show(parse(model.get(cid + 'e', '(missing)'))) == show(enc):
            # no writer can be built for this schema, and the faithful model says the same (F26)
            run.fail('unresolvable-reference-accepted', 'the parser accepted the schema but no writer can be built for it (a null-namespace name used inside a namespaced type)', case)
            continue
        if tag(enc) != 'ok':
            run.fail('encode-fails', 'conforming value is not encoded: %s' % show(enc), case)
        elif tag(dec) != 'ok':
            run.fail('decode-fails', 'own encoding is not decoded: %s' % show(dec), case)
        else:
            got = canon(dec[1], True)
            if got != want:
                run.fail('value-differs', 'decoded %s' % show(dec[1])[:300], case)
            elif unhx(dec[2]) != junk:
                run.fail('consumption', 'decoder left %s, expected %s' % (dec[2], junk.hex()), case)
            else:
                if len(unhx(enc[1])) >= 2:
                    run.nontrivial_case(st + v)
                run.sample({'schema': st, 'value': v[:200], 'bytes': enc[1][:80]})
        # --- the other entry points of the round trip (to_avro_datum, write_value_to_vec, write_value; from_avro_datum*)
        if len(t) > 5 and tag(t[5]) != 'skipped':
            run.count('entry-points:' + show(t[5]))
            if show(t[5]) != '(ok 1 1)':
                run.fail('entry-points-differ', 'to_avro_datum / write_value_to_vec / write_value / from_avro_datum* do not behave like GenericDatumWriter::write_value_ref / GenericDatumReader::read_value: %s' % show(t[5]), case)
        # --- correspondence
        me = model.get(cid + 'e')
        if me is None or show(parse(me)) != show(enc):
            run.disagree('encode', case, show(enc)[:400], (me or 'none')[:400])
        if tag(enc) == 'ok':
            md = model.get(cid + 'd')
            if md is None or show(canon(parse(md))) != show(canon(dec)):
                run.disagree('decode', case, show(dec)[:400], (md or 'none')[:400])

def spoil(t):
    """a value of the same outer shape whose encoding fails AFTER part of it has been written (None if the shape has no such variant)"""
    if tag(t) == 'record' and len(t) > 2:
        return t[:-1]                                    # the last field is missing: the earlier ones are encoded first
    if tag(t) == 'array' and len(t) > 1:
        return t + [['union', '99', ['null']]]           # a last item of the wrong kind
    if tag(t) == 'map' and len(t) > 1:
        return t + [['kv', '#7a7a7a', ['union', '99', ['null']]]]
    return None

def sequences(run, tier, seed, exe, drv):
    """one writer object, several values: a value that fails part-way (validation off) or is rejected (validation on) must
    leave nothing behind - every value written afterwards has the bytes a fresh writer gives it"""
    rng = Rng(seed + 31)
    n = 120 if tier == 'quick' else 3000
    lines, meta = [], {}
    for i in range(n):
        r = rng.fork(i)
        node, _ = gen_case_schema(r, max_depth=r.choice([1, 2, 2]))
        if node.kind != 'record':
            continue            # (a value of the wrong kind handed to a non-validating writer may panic: not this property's business)
        st = schema_text(node)
        good = [parse(node.gen(r, 0)) for _ in range(3)]
        bad = spoil(parse(node.gen(r, 0)))
        if bad is None:
            continue
        for validate in (0, 1):
            seq = [good[0], bad, good[1], (['union', '99', ['null']] if validate else bad), good[2]]
            cid = 'q%d_%d' % (i, validate)
            lines.append('%s (datum-seq %s %d %s)' % (cid, hx(st), validate, ' '.join(show(x) for x in seq)))
            meta[cid] = (st, validate)
    out = fw.run_lines(exe, lines)
    ml, want = [], {}
    for cid, (st, validate) in meta.items():
        o = parse(out.get(cid, '(missing)'))
        if tag(o) in ('schema-err', 'writer-err'):
            continue
        case = {'schema': st, 'validate': validate, 'sequence': 'good, spoiled, good, rejected, good'}
        if tag(o) != 'obs' or len(o) != 7:
            run.fail('impl-' + str(tag(o)), 'sequence outcome %s' % show(o)[:120], case)
            continue
        for j in (0, 2, 4):
            ml.append('%s_%d (encode %s %s)' % (cid, j, show(o[1]), show(o[2 + j][1])))
        want[cid] = (o, case)
    model = fw.run_lines(drv, ml)
    for cid, (o, case) in want.items():
        run.evaluations += 1
        kinds = [tag(x) for x in o[2:]]
        run.count('sequence:' + '-'.join(kinds))
        if kinds[1] != 'err' or kinds[3] != 'err':
            run.count('sequence-spoiled-value-accepted')       # the spoiled shape happened to be encodable: nothing to conclude
            continue
        bad = False
        for j in (0, 2, 4):
            m = parse(model.get('%s_%d' % (cid, j), '(missing)'))
            if tag(o[2 + j]) != 'ok':
                run.fail('encode-fails', 'value %d of the sequence (conforming) is not written by a writer that saw a failure before' % j, case); bad = True
                break
            if tag(m) == 'ok' and m[1] != o[2 + j][2]:
                run.fail('writer-state-leaks', 'value %d written after a failed write has bytes %s, a fresh writer gives %s' % (j, o[2 + j][2][:80], m[1][:80]), case); bad = True
                break
        if not bad:
            run.nontrivial_case('seq' + cid)

def search(run_):
    """a proof or the correspondence broke: widen the exploration looking for a failing input"""
    exe = fw.build_harness()
    drv = fw.build_ocaml()
    r2 = fw.Run(PROP, run_.tier, run_.seed + 1)
    lines, meta, _ = gen_cases('thorough' if run_.tier == 'thorough' else 'quick', run_.seed + 1)
    evaluate(r2, lines[:20000], meta, exe, drv)
    return r2.failures

def run(tier, seed):
    run_ = fw.Run(PROP, tier, seed)
    run_.proof = fw.proof_step(PROP, THEOREMS)
    exe = fw.build_harness()
    drv = fw.build_ocaml()
    lines, meta, kinds = gen_cases(tier, seed)
    for k, v in kinds.items():
        run_.count('schema-node:' + k, v)
    evaluate(run_, lines, meta, exe, drv)
    sequences(run_, tier, seed, exe, drv)
    return fw.finish(run_, 'theorems C01_* over Model.Codec + differential correspondence', RULE, search)

def replay(rp):
    f = rp.get('failure')
    if not f:
        print(rp)
        return 1
    c = f['case']
    exe = fw.build_harness()
    line = 'r0 (datum %s %s %s %d)' % (hx(c['schema']), c['value'], '#' + c['junk'], c['validate'])
    out = fw.run_lines(exe, [line])
    print(out)
    return 0
