"""C10 - serializing a parsed schema to JSON and parsing it again preserves the schema.
Theorems: coq/Props/C10.v.  Check: generated accepted schema texts -> parse, to JSON, parse, to JSON."""
import json
import framework as fw
from rng import Rng
from sx import parse, show, hx, unhx, tag
import schematext
import sj

PROP = 'C10'
THEOREMS = ['C10_strict_json', 'C10_name_roundtrip', 'C10_leaf_roundtrip', 'C10_null_namespace_refuted', 'C10_examples']
RULE = ('accepted schema texts from the schema-text generator (nested namespaces inherited / overridden / explicitly empty, '
        'dotted names, references, aliases, docs needing escapes, defaults of every JSON kind, custom attributes on every node, '
        'every logical type on every base, random key order and spacing). non-trivial = distinct accepted texts with a named type')

def gen(tier, seed):
    rng = Rng(seed)
    n = 600 if tier == 'quick' else 20000
    texts = {}
    for i in range(n):
        r = rng.fork(i)
        js = schematext.gen_schema_json(r, max_depth=r.choice([1, 2, 2, 3]))
        texts['s%d' % i] = schematext.dumps(js, r)
    # names, namespaces and aliases in every spelling: dotted name / namespace attribute / inherited, relative and
    # qualified aliases, on records, enums, fixed and logical fixed, at top level and nested (the serialised form spells
    # the namespace out: parsed again it must denote the same names and aliases)
    k = 0
    for kind, extra in (('record', {'fields': []}), ('enum', {'symbols': ['A']}), ('fixed', {'size': 2}),
                        ('fixed', {'size': 12, 'logicalType': 'duration'}), ('fixed', {'size': 16, 'logicalType': 'uuid'})):
        for naming in ({'name': 'x.y.Z'}, {'name': 'Z', 'namespace': 'x.y'}, {'name': 'x.y.Z', 'namespace': 'other'}, {'name': 'Z'}):
            for aliases in (['A'], ['p.q.A'], ['A', 'x.y.B'], ['.A']):
                d = dict({'type': kind}, **naming); d.update(extra); d['aliases'] = aliases
                texts['n%d' % k] = json.dumps(d); k += 1
                texts['n%d' % k] = json.dumps({'type': 'record', 'name': 'Outer', 'fields': [{'name': 'f', 'type': d}]}); k += 1
                texts['n%d' % k] = json.dumps({'type': 'record', 'name': 'Outer', 'namespace': 'o.n', 'fields': [{'name': 'f', 'type': {'type': 'array', 'items': d}}]}); k += 1
    # the witnesses of the known classes first
    texts['k0'] = '{"type":"record","name":"R","namespace":"ns","fields":[{"name":"f","type":{"type":"fixed","name":"F","namespace":"","size":1}}]}'
    return texts

def judge(run, texts, obs, model):
    for cid, txt in texts.items():
        run.evaluations += 1
        o = obs[cid]
        case = {'text': txt}
        if tag(o) == 'schema-err':
            run.count('rejected')
            continue
        if tag(o) != 'obs' or len(o) < 7:
            run.fail('impl-' + str(tag(o)), 'outcome %s' % show(o)[:160], case)
            continue
        s1, j1, again = o[1], o[2], o[3]
        if not isinstance(j1, str):
            run.fail('serialize-' + str(tag(j1)), 'serialising the parsed schema: %s' % show(j1), case)
            continue
        j1t = unhx(j1).decode('utf-8', 'replace')
        m = model.get(cid)
        run.count('accepted')
        d = sj.dup_keys(j1t)
        if d is None:
            run.fail('not-json', 'the serialised schema is not JSON: %s' % j1t[:120], case)
            continue
        if d:
            run.fail('duplicate-keys', 'keys %s appear twice in %s' % (d[:3], j1t[:160]), case)
        # the model reparses its own serialisation: a difference there is a behaviour of the modelled code
        m_ok = m is not None and tag(m) == 'ok'
        model_roundtrips = m_ok and tag(m[5]) == 'ok' and show(m[5][1]) == show(s1)
        # the known class (F19): a null-namespace name inside a namespaced type; the faithful model must show the same
        # loss (its own re-parse equals the implementation's) - anything else is reported as it is
        null_ns = fw.null_ns_schema(txt) or '"namespace":""' in txt.replace(' ', '')
        if tag(again) != 'ok':
            cls = 'embedded-schema-null-namespace' if (null_ns and m_ok and not model_roundtrips and tag(m[5]) != 'ok') else None
            run.fail(cls or 'reparse-fails', 'the serialised schema %s does not parse' % j1t[:160], case)
        else:
            if show(again[1]) != show(s1) or again[3] != '1':
                same_as_model = m_ok and tag(m[5]) == 'ok' and show(m[5][1]) == show(again[1])
                cls = 'embedded-schema-null-namespace' if (null_ns and not model_roundtrips and same_as_model) else None
                run.fail(cls or 'reparse-differs', 'parsed again the schema is %s, it was %s' % (show(again[1])[:120], show(s1)[:120]), case)
            elif again[2] != j1:
                run.fail('second-serialisation-differs', '%s then %s' % (j1t[:100], unhx(again[2]).decode('utf-8', 'replace')[:100]), case)
            elif '"name"' in j1t:
                run.nontrivial_case(txt)
                run.sample({'text': txt[:100], 'json': j1t[:100]}, limit=6)
        # correspondence: the model serialiser emits the same tree, entry for entry
        if not m_ok:
            run.disagree('schema-json', case, 'obs', show(m)[:100] if m else 'none')
        elif show(sj.to_tree(j1t)) != show(m[1]):
            run.disagree('serialise', case, j1t[:200], show(m[1])[:200])
        elif (m[2] == '1') != (not d):
            run.disagree('strict', case, str(d), m[2])

def two_writers(run, texts):
    """the header of a container file carries the schema its writer was given, also when another writer of the same
    process wrote a file before with a schema that differs only in what the canonical form drops (docs, aliases, defaults,
    custom attributes): schema A first, then B, B's header is read back"""
    import c12
    rng = Rng(99)
    pairs = {}
    k = 0
    for cid, txt in list(texts.items())[:260]:
        try:
            js = json.loads(txt)
        except ValueError:
            continue
        if not isinstance(js, dict) or js.get('type') != 'record':
            continue
        r = rng.fork(k)
        b = c12.irrelevant_edit(r, js)
        if b == js:
            continue
        pairs['h%d' % k] = (txt, json.dumps(b)); k += 1
    exe = fw.build_harness()
    out = fw.run_lines(exe, ['%s (cheader2 %s %s)' % (cid, hx(a), hx(b)) for cid, (a, b) in pairs.items()])
    for cid, (a, b) in pairs.items():
        o = parse(out.get(cid, '(missing)'))
        if tag(o) != 'obs':
            continue
        run.evaluations += 1
        case = {'first_writer_schema': a[:1500], 'second_writer_schema': b[:1500]}
        run.count('two-writers:' + str(tag(o[2])))
        if tag(o[2]) == 'ok' and show(o[2][1]) != show(o[1]):
            # (the null-namespace loss F19 shows on a single writer too; here only a schema that differs from B's own round trip counts)
            single = fw.run_lines(exe, ['s (cheader2 %s %s)' % (hx(b), hx(b))]).get('s')
            if single is None or show(parse(single)[2]) != show(o[2]):
                run.fail('header-of-another-schema', 'after a writer for a canonically equal schema, the header of the second file carries %s, the writer was given %s' % (show(o[2][1])[:100], show(o[1])[:100]), case)
        elif tag(o[2]) == 'ok':
            run.nontrivial_case('2w' + b)

def run(tier, seed):
    run_ = fw.Run(PROP, tier, seed)
    run_.proof = fw.proof_step(PROP, THEOREMS)
    texts = gen(tier, seed)
    obs = sj.run_impl('schema-rt', texts)
    model = sj.run_model(['%s (schema-json %s)' % (cid, show(o[1])) for cid, o in obs.items() if tag(o) == 'obs' and len(o) >= 7])
    judge(run_, texts, obs, model)
    two_writers(run_, texts)
    return fw.finish(run_, 'theorems C10_* + differential check of parse / serialise / parse / serialise', RULE, search)

def search(run_):
    r2 = fw.Run(PROP, run_.tier, run_.seed + 1)
    texts = gen('quick', run_.seed + 1)
    obs = sj.run_impl('schema-rt', texts)
    model = sj.run_model(['%s (schema-json %s)' % (cid, show(o[1])) for cid, o in obs.items() if tag(o) == 'obs' and len(o) >= 7])
    judge(r2, texts, obs, model)
    return r2.failures

def replay(rp):
    f = rp.get('failure')
    print(f)
    if f:
        print(sj.run_impl('schema-rt', {'r0': f['case']['text']}))
    return 0

def explore(run_, tier, seed):
    texts = gen(tier, seed)
    obs = sj.run_impl('schema-rt', texts)
    model = sj.run_model(['%s (schema-json %s)' % (cid, show(o[1])) for cid, o in obs.items() if tag(o) == 'obs' and len(o) >= 7])
    judge(run_, texts, obs, model)
