"""Shared machinery of ./check: builds, proof step, running both sides, deciding, evidence."""
import hashlib
import json
import os
import re
import subprocess
import sys
import time
from concurrent.futures import ThreadPoolExecutor

ROOT = os.path.dirname(os.path.dirname(os.path.abspath(__file__)))
COQ = os.path.join(ROOT, 'coq')
OCAML = os.path.join(ROOT, 'ocaml')
HARNESS = os.path.join(ROOT, 'harness')
WORK = os.path.join(ROOT, '.work')
EVIDENCE = os.path.join(ROOT, 'evidence')
REPLAYS = os.path.join(ROOT, 'replays')
NPROC = 16
REPO = '/repo'

# Developer aid, never set by a registered command: VERIF_ALT_REPO=<scratch worktree> runs a check against
# that tree instead of /repo (own copy of the harness, own evidence / replay / work directories), so that
# seeded changes can be tried while /repo stays untouched.
ALT = os.environ.get('VERIF_ALT_REPO')
if ALT:
    ALT = os.path.abspath(ALT)
    _alt = os.path.join('/var/tmp/verif-alt', hashlib.sha1(ALT.encode()).hexdigest()[:8])
    os.makedirs(_alt, exist_ok=True)
    HARNESS_SRC, HARNESS = HARNESS, os.path.join(_alt, 'harness')
    WORK, EVIDENCE, REPLAYS = (os.path.join(_alt, d) for d in ('work', 'evidence', 'replays'))
    for _d in (WORK, EVIDENCE, REPLAYS):
        os.makedirs(_d, exist_ok=True)
    REPO = ALT

ENV = dict(os.environ, CARGO_NET_OFFLINE='true')

FORBIDDEN = re.compile(
    r'\b(Admitted|admit|Axiom|Axioms|Parameter|Parameters|Conjecture|Conjectures|Abort All|'
    r'Admit Obligations|bypass_check)\b|Unset Guard Checking|Unset Positivity Checking|'
    r'Unset Universe Checking|type-in-type|impredicative-set')

# stdlib axioms a theorem may depend on (each must also be named in DESIGN.md section 8)
AXIOM_ALLOW = set()

TRUSTED_BASE = [
    'Coq 8.16.1 kernel (coqc; vm_compute used for finite sweeps and refutation witnesses; no native_compute)',
    'no axioms: every property theorem prints "Closed under the global context"',
    'hand-written Gallina model of the Rust code (coq/Model), tied to /repo by the correspondence check',
    'extraction: ExtrOcamlBasic only, no Extract Constant/Inductive of our own; ocaml/driver.ml text<->term glue (zarith)',
    'Rust harness (harness/), python generators and differ (gen/)',
]


_DOT_REF = re.compile(r'"\.[A-Za-z_]')


def dot_ref(schema_text):
    """the schema spells a reference with a leading dot (null namespace).  Inside a namespaced type the
    parser accepts it, reference resolution re-qualifies it with the enclosing namespace and fails
    (known finding F26, class unresolvable-reference-accepted): no writer or reader can be built."""
    return bool(_DOT_REF.search(schema_text))


def null_ns_schema(schema_text):
    """the schema names a type in the NULL namespace from inside a namespaced type - by a leading-dot reference or by
    "namespace": "" on a nested definition.  The parser keeps such names apart, reference resolution (ResolvedSchema)
    lets a name without namespace inherit the enclosing one: references may then fail to resolve (F19 / F26)."""
    return dot_ref(schema_text) or '"namespace": ""' in schema_text


_PRIMS = ('null', 'boolean', 'int', 'long', 'float', 'double', 'bytes', 'string')


def all_leaf_fields(schema_text):
    """a top-level record all of whose field types are leaves (primitive, fixed, logical types on them): the
    schemas on which a serde target may ignore any field of the unchanged code (it cannot ignore records or unions)"""
    try:
        js = json.loads(schema_text)
    except ValueError:
        return False
    if not isinstance(js, dict) or js.get('type') != 'record':
        return False
    def leaf(t):
        if isinstance(t, str):
            return t in _PRIMS
        # an enum-typed field cannot be ignored by the unchanged code (deserialize_any offers an enum access, IgnoredAny
        # asks for the identifier through deserialize_ignored_any, which the identifier deserializer refuses): not a leaf here
        return isinstance(t, dict) and (t.get('type') in _PRIMS or t.get('type') == 'fixed')
    return all(leaf(f.get('type')) for f in js.get('fields', []))


def judge_partial(run, partial, dec_ok, st, case):
    """the Alternate<0> / Alternate<1> targets of the harness (every second field of a top-level record ignored)"""
    if partial is None or tag_(partial) != 'partial':
        return
    for which, a in enumerate(partial[1:]):
        t = tag_(a)
        run.count('partial-target:%s' % t)
        if t == 'ok':
            if a[1] != '1' or a[2] != '1':
                run.fail('partial-target-misreads', 'a target that ignores every second field (from %d) %s' % (
                    which, 'keeps other values than a full read' if a[1] != '1' else 'consumes other bytes than a full read'), case)
        elif t == 'err' and dec_ok and all_leaf_fields(st):
            run.fail('partial-target-rejects', 'a target that ignores every second field (from %d) of a record of leaf fields fails on a datum both decoders read' % which, case)


def tag_(x):
    return x[0] if isinstance(x, list) and x and isinstance(x[0], str) else None


class Fail(Exception):
    pass


def sh(cmd, cwd=None, timeout=3600, env=None, check=True, input=None):
    p = subprocess.run(cmd, cwd=cwd, shell=isinstance(cmd, str), capture_output=True, text=True,
                       timeout=timeout, env=env or ENV, input=input)
    if check and p.returncode != 0:
        raise Fail('command failed (%d): %s\n%s\n%s' % (p.returncode, cmd, p.stdout[-4000:], p.stderr[-4000:]))
    return p


# ---------------------------------------------------------------- builds

def build_coq(target=None):
    """incremental full .vo build (never -vos).  Returns (ok, log)."""
    if not os.path.exists(os.path.join(COQ, 'Makefile')):
        sh('coq_makefile -f _CoqProject -o Makefile', cwd=COQ)
    cmd = 'timeout 3000 make -k -j%d %s' % (NPROC, target or '')
    p = sh(cmd, cwd=COQ, check=False, timeout=3100)
    return p.returncode == 0, p.stdout + p.stderr


def build_ocaml():
    drv = os.path.join(OCAML, 'model_driver')
    src = [os.path.join(OCAML, f) for f in ('model.ml', 'driver.ml')]
    if not os.path.exists(drv) or any(os.path.getmtime(s) > os.path.getmtime(drv) for s in src):
        sh('./build.sh', cwd=OCAML)
    return drv


def build_harness(profile='release'):
    flag = '--release' if profile == 'release' else ''
    if ALT:
        os.makedirs(HARNESS, exist_ok=True)
        sh('rsync -a --delete --exclude target --exclude Cargo.toml --exclude Cargo.lock %s/ %s/' % (HARNESS_SRC, HARNESS))
        toml = open(os.path.join(HARNESS_SRC, 'Cargo.toml')).read().replace('"/repo/avro"', '"%s/avro"' % ALT)
        tp = os.path.join(HARNESS, 'Cargo.toml')
        if not os.path.exists(tp) or open(tp).read() != toml:
            open(tp, 'w').write(toml)
    lock = os.path.join(HARNESS, 'Cargo.lock')
    if not os.path.exists(lock):
        sh('cp %s/Cargo.lock %s' % (REPO, lock))
    p = sh('cargo build %s --offline' % flag, cwd=HARNESS, check=False, timeout=3000)
    if p.returncode != 0:
        raise Fail('harness build failed (does /repo still compile?):\n' + p.stderr[-6000:])
    return os.path.join(HARNESS, 'target', 'release' if profile == 'release' else 'debug', 'avro-obs')


# ---------------------------------------------------------------- running both sides

def _big_stack():
    # the extracted model recurses on list structure (32 KiB fixed values are 32768-element lists): give the
    # OCaml driver - never the implementation harness - a 2 GiB stack
    import resource
    try:
        resource.setrlimit(resource.RLIMIT_STACK, (2 << 30, resource.getrlimit(resource.RLIMIT_STACK)[1]))
    except Exception:
        pass


def _pre(exe):
    return _big_stack if os.sep + 'ocaml' + os.sep in exe else None


def _run_shard(args):
    exe, extra, lines, timeout = args
    if not lines:
        return '', 0
    try:
        p = subprocess.run([exe] + extra, input='\n'.join(lines) + '\n', capture_output=True, text=True,
                           timeout=timeout, env=ENV, preexec_fn=_pre(exe))
        return p.stdout, p.returncode
    except subprocess.TimeoutExpired:
        return '', -99


def _run_one(exe, extra, line, timeout):
    try:
        p = subprocess.run([exe] + list(extra), input=line + '\n', capture_output=True, text=True,
                           timeout=timeout, env=ENV, preexec_fn=_pre(exe))
        o = p.stdout.strip().split(' ', 1)
        if p.returncode == 0 and len(o) == 2:
            return o[1]
        return '(abort %d)' % p.returncode
    except subprocess.TimeoutExpired:
        pass
    # a case that is slow only because the machine is busy gets a second, much longer chance on its own; a real
    # hang is still reported, a little later
    try:
        p = subprocess.run([exe] + list(extra), input=line + '\n', capture_output=True, text=True,
                           timeout=max(120, 12 * timeout), env=ENV, preexec_fn=_pre(exe))
        o = p.stdout.strip().split(' ', 1)
        if p.returncode == 0 and len(o) == 2:
            return o[1]
        return '(abort %d)' % p.returncode
    except subprocess.TimeoutExpired:
        return '(timeout)'


def run_lines(exe, lines, extra=(), timeout=300, shards=NPROC, case_timeout=10):
    """lines: list of '<id> <term>'.  Returns dict id -> observation text.  A shard whose process
    dies (abort, stack overflow) or exceeds [timeout] is re-run in halves, down to single cases, so
    that the dying / hanging case is identified and reported as (abort n) / (timeout)."""
    shards = max(1, min(shards, len(lines) // 50 + 1))
    parts = [lines[i::shards] for i in range(shards)]
    out = {}
    with ThreadPoolExecutor(max_workers=shards) as ex:
        results = list(ex.map(_run_shard, [(exe, list(extra), p, timeout) for p in parts]))

    def absorb(part, stdout):
        got = {}
        for l in stdout.splitlines():
            if ' ' in l:
                i, o = l.split(' ', 1)
                got[i] = o
        return got

    def solve(part, budget):
        """run [part]; on failure split"""
        if not part:
            return {}
        if len(part) == 1:
            return {part[0].split(' ', 1)[0]: _run_one(exe, extra, part[0], case_timeout)}
        stdout, rc = _run_shard((exe, list(extra), part, min(3 * case_timeout + 1.0 * len(part), max(timeout, 600))))
        got = absorb(part, stdout)
        if rc == 0 and len(got) == len(part):
            return got
        mid = len(part) // 2
        a = solve(part[:mid], max(case_timeout, budget / 2))
        a.update(solve(part[mid:], max(case_timeout, budget / 2)))
        return a

    for part, (stdout, rc) in zip(parts, results):
        if not part:
            continue
        got = absorb(part, stdout)
        if rc != 0 or len(got) != len(part):
            mid = len(part) // 2
            got = solve(part[:mid], 60)
            got.update(solve(part[mid:], 60))
        out.update(got)
    return out


# ---------------------------------------------------------------- proof step

def proof_step(prop, theorems, extra_files=()):
    """Compiles the development, then asks Coq for the assumptions of every property theorem.
    Returns dict(obligations, discharged, failed=[names], log, checker_cmd)."""
    res = {'obligations': len(theorems), 'discharged': 0, 'failed': [], 'log': ''}
    res['checker_cmd'] = ('make -C coq (coqc 8.16.1, full .vo build) ; coqc Print Assumptions for %s ; '
                          'grep for Admitted/Axiom/...' % ', '.join(theorems))
    # 1. forbidden words anywhere in the development
    bad = []
    for d, _, files in os.walk(COQ):
        for f in files:
            if f.endswith('.v') and '.check' not in d:
                txt = open(os.path.join(d, f)).read()
                txt_nc = strip_comments(txt)
                m = FORBIDDEN.search(txt_nc)
                if m:
                    bad.append('%s: %s' % (os.path.join(d, f), m.group(0)))
    if bad:
        res['failed'] = list(theorems)
        res['log'] = 'forbidden constructs: ' + '; '.join(bad)
        return res
    ok, log = build_coq()
    if not ok:
        # which file failed?  theorems of this property count as failed only if their file is
        # not built; try the property file alone to be precise
        ok2, log2 = build_coq('Props/%s.vo Props/Pins.vo' % prop)
        if not ok2:
            res['failed'] = list(theorems)
            res['log'] = (log2 or log)[-6000:]
            return res
    # 2. assumptions
    chk = os.path.join(WORK, prop)
    os.makedirs(chk, exist_ok=True)
    vf = os.path.join(chk, 'pa_%s.v' % prop)
    with open(vf, 'w') as f:
        f.write('From AvroV Require Import Props.%s.\n' % prop)
        for t in theorems:
            f.write('Print Assumptions %s.\n' % t)
    p = sh('timeout 600 coqc -Q %s AvroV %s' % (COQ, vf), cwd=chk, check=False)
    if p.returncode != 0:
        res['failed'] = list(theorems)
        res['log'] = (p.stdout + p.stderr)[-4000:]
        return res
    # statement pins: the printed statement of every theorem must equal the committed pin
    pinf = os.path.join(ROOT, 'pins', '%s.json' % prop)
    vf2 = os.path.join(chk, 'ck_%s.v' % prop)
    with open(vf2, 'w') as f:
        f.write('From AvroV Require Import Props.%s.\nSet Printing Width 10000.\n' % prop)
        for t in theorems:
            f.write('Check %s.\n' % t)
    p2 = sh('timeout 600 coqc -Q %s AvroV %s' % (COQ, vf2), cwd=chk, check=False)
    stmts = {}
    cur = None
    for line in p2.stdout.splitlines():
        m = re.match(r'^(\w+)$', line.strip())
        if line and not line.startswith(' ') and m and m.group(1) in theorems:
            cur = m.group(1); stmts[cur] = ''
        elif cur is not None:
            stmts[cur] += ' ' + line.strip()
    stmts = {k: re.sub(r'\s+', ' ', v).strip() for k, v in stmts.items()}
    if os.environ.get('VERIF_UPDATE_PINS') == '1':
        os.makedirs(os.path.dirname(pinf), exist_ok=True)
        json.dump(stmts, open(pinf, 'w'), indent=1, sort_keys=True)
    pins = json.load(open(pinf)) if os.path.exists(pinf) else {}
    weakened = [t for t in theorems if pins.get(t) is None or pins.get(t) != stmts.get(t)]
    if weakened:
        res['failed'] = weakened
        res['log'] = 'statement differs from its pin (pins/%s.json): %s' % (prop, ', '.join(weakened))
        return res
    blocks = re.split(r'\n(?=Closed under the global context|Axioms:)', '\n' + p.stdout)
    blocks = [b.strip() for b in blocks if b.strip()]
    if len(blocks) != len(theorems):
        res['failed'] = list(theorems)
        res['log'] = 'unexpected Print Assumptions output:\n' + p.stdout[-3000:]
        return res
    for t, b in zip(theorems, blocks):
        if b.startswith('Closed under the global context'):
            res['discharged'] += 1
            continue
        axioms = re.findall(r'^(\S+)\s*:', b, re.M)
        if all(a in AXIOM_ALLOW for a in axioms):
            res['discharged'] += 1
        else:
            res['failed'].append(t)
            res['log'] += '%s depends on %s\n' % (t, axioms)
    return res


def strip_comments(txt):
    out = []
    depth = 0
    i = 0
    n = len(txt)
    while i < n:
        if txt.startswith('(*', i):
            depth += 1
            i += 2
        elif txt.startswith('*)', i) and depth > 0:
            depth -= 1
            i += 2
        else:
            if depth == 0:
                out.append(txt[i])
            i += 1
    return ''.join(out)


# ---------------------------------------------------------------- deciding and reporting

def load_known():
    p = os.path.join(ROOT, 'known_findings.json')
    if not os.path.exists(p):
        return []
    return json.load(open(p))['findings']


class Run:
    """Accumulates what a check explored and found."""

    def __init__(self, prop, tier, seed):
        self.prop = prop
        self.tier = tier
        self.seed = seed
        self.t0 = time.time()
        self.evaluations = 0
        self.nontrivial = set()
        self.samples = []
        self.dist = {}
        self.failures = []        # property predicate fails on the implementation: dict(cls, what, case)
        self.disagreements = []   # model vs implementation: dict(what, case, impl, model)
        self.proof = None
        self.notes = []
        self.extra = {}

    def count(self, key, n=1):
        self.dist[key] = self.dist.get(key, 0) + n

    def nontrivial_case(self, text):
        self.nontrivial.add(hashlib.sha1(text.encode()).digest()[:8])

    def sample(self, x, limit=6):
        if len(self.samples) < limit:
            self.samples.append(x)

    def fail(self, cls, what, case):
        self.failures.append({'class': cls, 'what': what, 'case': case})

    def disagree(self, what, case, impl, model):
        self.disagreements.append({'what': what, 'case': case, 'impl': impl, 'model': model})


def _claimed_level(prop):
    """the level this check claims in MANIFEST.json (the evidence has to describe that level)"""
    try:
        for c in json.load(open(os.path.join(ROOT, 'MANIFEST.json')))['checks']:
            if c['property_id'] == prop:
                return c.get('level_claimed', {}).get('category', 'proof')
    except (OSError, ValueError, KeyError):
        pass
    return 'proof'

def finish(run, level_text, rule, search=None):
    """Prints KNOWN-FINDING / VIOLATION lines, writes evidence, returns the exit code."""
    os.makedirs(EVIDENCE, exist_ok=True)
    os.makedirs(REPLAYS, exist_ok=True)
    known = [k for k in load_known() if k['property'] == run.prop and k.get('status') == 'open']
    known_cls = {k['class']: k for k in known}
    violations = []
    seen_known = {}
    for f in run.failures:
        if f['class'] in known_cls:
            seen_known.setdefault(f['class'], f)
        else:
            violations.append(('property', f))
    for cls, f in seen_known.items():
        print('KNOWN-FINDING: property=%s %s [%s] e.g. %s' % (run.prop, known_cls[cls]['what'], cls,
                                                             json.dumps(f['case'])[:300]))
    broken = []
    if run.proof and run.proof['failed']:
        broken.append({'kind': 'proof', 'theorems': run.proof['failed'], 'log': run.proof['log'][-3000:]})
    if run.disagreements:
        broken.append({'kind': 'correspondence', 'count': len(run.disagreements),
                       'first': run.disagreements[:5]})
    if broken and not violations and search is not None:
        # a proof or the correspondence no longer checks: look for a concrete failing input
        found = search(run)
        for f in found:
            if f['class'] not in known_cls:
                violations.append(('property', f))
    rc = 0
    if violations:
        rc = 1
        kind, f = violations[0]
        h = hashlib.sha1(json.dumps(f, sort_keys=True).encode()).hexdigest()[:12]
        path = os.path.join(REPLAYS, '%s-%s.json' % (run.prop, h))
        json.dump({'property': run.prop, 'kind': 'failing-input', 'failure': f,
                   'all_failures': [v[1] for v in violations[:20]], 'broken': broken,
                   'seed': run.seed, 'tier': run.tier}, open(path, 'w'), indent=1)
        print('VIOLATION property=%s replay=%s' % (run.prop, path))
    elif broken:
        rc = 1
        h = hashlib.sha1(json.dumps(broken, sort_keys=True).encode()).hexdigest()[:12]
        path = os.path.join(REPLAYS, '%s-%s.json' % (run.prop, h))
        json.dump({'property': run.prop, 'kind': 'no-failing-input-found', 'broken': broken,
                   'seed': run.seed, 'tier': run.tier}, open(path, 'w'), indent=1)
        print('VIOLATION property=%s replay=%s no-failing-input-found' % (run.prop, path))
    proof = run.proof or {'obligations': 0, 'discharged': 0, 'checker_cmd': 'none'}
    cov = {
        'obligations': proof['obligations'],
        'discharged': proof['discharged'],
        'checker_cmd': proof.get('checker_cmd', ''),
        'trusted_base': TRUSTED_BASE,
        'evaluations': run.evaluations,
        'distinct_nontrivial': len(run.nontrivial),
        'rule': rule,
        'samples': run.samples or ['(none)'],
        'disagreements_checked': run.evaluations,
        'disagreements_found': len(run.disagreements),
        'property_failures_on_impl': len(run.failures),
        'known_finding_hits': {c: sum(1 for f in run.failures if f['class'] == c) for c in seen_known},
        'distribution': run.dist,
        'explanation': level_text,
    }
    cov.update(run.extra)
    ev = {
        'property_id': run.prop,
        'tier': run.tier,
        'seed': run.seed,
        'level': _claimed_level(run.prop),
        'coverage': cov,
        'assumptions': TRUSTED_BASE + run.notes,
        'wall_s': round(time.time() - run.t0, 2),
        'violations': len(violations) + (1 if (broken and not violations) else 0),
    }
    json.dump(ev, open(os.path.join(EVIDENCE, '%s.json' % run.prop), 'w'), indent=1)
    return rc
