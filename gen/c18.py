"""C18 - single-object messages.  Theorems: coq/Props/C18.v.  Correspondence: one
GenericSingleObjectWriter driven through a history of good values, rejected values, values that pass
validation but fail to encode, and failing sinks; every emitted message read back alone; every
single-bit alteration and every truncation of the header fed to GenericSingleObjectReader."""
import framework as fw
from rng import Rng
from sx import parse, show, hx, unhx, tag
from schemas import gen_case_schema, schema_text
from values import canon

PROP = 'C18'
THEOREMS = ['C18_header_layout', 'C18_buffer_inv', 'C18_roundtrip_each', 'C18_reject_foreign',
            'C18_reject_short', 'C18_history']
CFG = '(cfg 536870912 56 80)'
RULE = ('schemas from the grammar generator x histories of 1..10 writes through ONE writer instance mixing '
        'conforming values of varying length, values rejected by validation (wrong kind), records missing a '
        'nullable field (validate ok, encoder fails after partial output) and failing sinks; then all 80 '
        'single-bit header flips and all truncations of one message per schema. non-trivial = distinct '
        'histories with at least one failed write followed by a successful one')

BAD_VALUES = ['(union 99 (null))', '(union 4000000000 (long 1))']

def partial_fail_schema():
    """record with a trailing nullable field: a value omitting it passes validation, fails encoding"""
    js = '{"type":"record","name":"P","namespace":"so","fields":[{"name":"a","type":"long"},{"name":"s","type":"string"},{"name":"n","type":["null","long"]}]}'
    good = lambda r: '(record (kv #61 (long %d)) (kv #73 (string %s)) (kv #6e (union %d %s)))' % (
        r.range(-2**40, 2**40), hx('x' * r.below(40)), *((0, '(null)') if r.chance(1, 2) else (1, '(long %d)' % r.below(1000))))
    partial = lambda r: '(record (kv #61 (long %d)) (kv #73 (string %s)))' % (r.range(-2**40, 2**40), hx('partial' * r.range(1, 6)))
    return js, good, partial

def gen_cases(tier, seed):
    rng = Rng(seed)
    lines, meta = [], {}
    nh = 250 if tier == 'quick' else 6000
    for i in range(nh):
        r = rng.fork(i)
        if i % 3 == 0:
            st, good, partial = partial_fail_schema()
            gen_good = lambda: good(r)
            gen_partial = lambda: partial(r)
        else:
            node, _ = gen_case_schema(r, max_depth=r.choice([1, 2, 3]))
            st = schema_text(node)
            gen_good = lambda node=node: node.gen(r, 0)
            gen_partial = None
        ops = []
        kinds = []
        for j in range(r.range(1, 10 if tier == 'quick' else 14)):
            k = r.below(10)
            if k < 5:
                ops.append('(w %s 1)' % gen_good()); kinds.append('good')
            elif k < 7:
                ops.append('(w %s 0)' % gen_good()); kinds.append('sinkfail')
            elif k < 9 and gen_partial:
                ops.append('(w %s 1)' % gen_partial()); kinds.append('partial')
            else:
                ops.append('(w %s 1)' % r.choice(BAD_VALUES)); kinds.append('bad')
        cid = 'h%d' % i
        lines.append('%s (so-history %s %s)' % (cid, hx(st), ' '.join(ops)))
        meta[cid] = ('history', st, ops, kinds)
    return lines, meta

def evaluate(run, lines, meta, exe, drv):
    impl = fw.run_lines(exe, lines)
    mlines = []
    parsed = {}
    flips = []   # second stage: header alterations
    unusable = []
    for l in lines:
        cid = l.split(' ', 1)[0]
        _, st, ops, kinds = meta[cid]
        run.evaluations += 1
        o = parse(impl.get(cid, '(missing)'))
        run.count('impl:' + str(tag(o)))
        if tag(o) == 'schema-err':
            continue
        if tag(o) == 'writer-err' and fw.null_ns_schema(st):
            unusable.append((cid, st, ops))
            continue
        if tag(o) != 'obs':
            run.fail('impl-' + str(tag(o)), 'implementation outcome %s' % show(o)[:200], {'schema': st, 'ops': ops})
            continue
        parsed[cid] = o
        # the model receives values in the implementation's own iteration order
        mops = []
        for op, res in zip(ops, o[3:]):
            v = res[3] if tag(res) == 'emitted' else res[1]
            sink = parse(op)[2]
            mops.append('(w %s %s)' % (show(v), sink))
        mlines.append('%s (so-history %s %s %s)' % (cid, show(o[1]), o[2], ' '.join(mops)))
    if unusable:
        # no single-object writer can be built: a known class only if the faithful model also fails to resolve the names
        import sj
        px = sj.run_impl('parse-text', {cid: st for cid, st, _ in unusable})
        ul = []
        for cid, st, ops in unusable:
            q = px.get(cid)
            if q is not None and tag(q) == 'obs' and tag(q[2]) == 'ok':
                ul.append('%su (encode %s (null))' % (cid, show(q[2][1])))
        um = fw.run_lines(drv, ul)
        for cid, st, ops in unusable:
            if um.get(cid + 'u', '').strip() == '(writer-err)':
                run.fail('unresolvable-reference-accepted', 'the parser accepted the schema but no single-object writer can be built for it (a null-namespace name used inside a namespaced type)', {'schema': st, 'ops': ops})
            else:
                run.fail('impl-writer-err', 'implementation outcome (writer-err), model %s' % um.get(cid + 'u', 'none')[:60], {'schema': st, 'ops': ops})
    model = fw.run_lines(drv, mlines)
    for cid, o in parsed.items():
        _, st, ops, kinds = meta[cid]
        case = {'schema': st, 'ops': ops}
        hdr = unhx(o[2])
        results = o[3:]
        m = parse(model.get(cid, '(missing)'))
        mres = m[1:] if tag(m) == 'ok' else None
        if mres is None or len(mres) != len(results):
            run.disagree('history', case, show(o)[:300], show(m)[:300])
        seen_fail = False
        nontrivial = False
        for idx, (op, kind, res) in enumerate(zip(ops, kinds, results)):
            if tag(res) == 'emitted':
                msg = unhx(res[1])
                want = canon(parse(op)[1], True)
                rd = res[4]
                if not msg.startswith(hdr) or len(hdr) != 10 or hdr[:2] != b'\xc3\x01':
                    run.fail('header', 'message %d does not start with the 10-byte C3 01 header' % idx, case)
                elif int(res[2]) != len(msg):
                    run.fail('count', 'returned count %s but emitted %d bytes' % (res[2], len(msg)), case)
                elif tag(rd) != 'ok' or canon(rd[1], True) != want or rd[2] != '#':
                    run.fail('message-decodes-wrong', 'message %d reads back as %s' % (idx, show(rd)[:200]), case)
                elif seen_fail:
                    nontrivial = True
                if kind in ('bad',):
                    run.fail('rejected-value-written', 'a value of the wrong kind was written', case)
                if mres is not None and len(mres) == len(results) and show(mres[idx]) != '(emitted %s)' % res[1]:
                    run.disagree('message', case, res[1][:200], show(mres[idx])[:200])
                if len(flips) < 3000 and idx == 0:
                    flips.append((cid, st, o[1], hdr, msg, parse(op)[1]))
            else:
                seen_fail = True
                if kind == 'good':
                    run.fail('good-value-rejected', 'conforming value %d failed to write' % idx, case)
                if mres is not None and len(mres) == len(results) and tag(mres[idx]) != 'err':
                    run.disagree('message', case, 'err', show(mres[idx])[:200])
        if nontrivial:
            run.nontrivial_case(st + ' '.join(ops))
            run.sample({'schema': st[:100], 'ops': [x[:60] for x in ops[:5]], 'kinds': kinds}, limit=4)
    # ---- header alterations: every single bit, every truncation
    take = flips[:40] if run.tier == 'quick' else flips[:400]
    flines, fmeta = [], {}
    n = 0
    for cid, st, sterm, hdr, msg, v in take:
        for bit in range(80):
            b = bytearray(msg)
            b[bit // 8] ^= 1 << (bit % 8)
            fid = 'x%d' % n; n += 1
            flines.append('%s (so-read %s %s)' % (fid, hx(st), hx(bytes(b))))
            fmeta[fid] = ('flip', st, bytes(b), sterm, hdr)
        for cut in range(0, 10):
            fid = 'x%d' % n; n += 1
            flines.append('%s (so-read %s %s)' % (fid, hx(st), hx(msg[:cut])))
            fmeta[fid] = ('cut', st, msg[:cut], sterm, hdr)
    fimpl = fw.run_lines(exe, flines)
    fm = fw.run_lines(drv, ['%s (so-read %s %s %s %s)' % (fid, CFG, show(x[3]), hx(x[4]), hx(x[2])) for fid, x in fmeta.items()])
    for fid, (kind, st, msg, sterm, hdr) in fmeta.items():
        run.evaluations += 1
        run.count('header-' + kind)
        o = parse(fimpl.get(fid, '(missing)'))
        case = {'schema': st, 'message': msg.hex()}
        if tag(o) != 'err':
            run.fail('foreign-accepted', 'message with altered/short header was %s' % show(o)[:120], case)
        else:
            run.nontrivial_case('x' + st + msg.hex())
        m = parse(fm.get(fid, '(missing)'))
        if tag(m) != tag(o):
            run.disagree('so-read', case, show(o)[:200], show(m)[:200])

def typed_writers(run, exe, tier, seed):
    """the typed writers and readers on the corpus of Rust types: SpecificSingleObjectWriter::new (header of the type's
    own schema) and ::builder().resolved(S) for the same schema published under another namespace (header of S)"""
    import c16
    n = 4 if tier == 'quick' else 60
    lines = ['%s|%d (serde %s %d )' % (t, i, t, seed * 1000 + i) for t in c16.TYPES for i in range(n)]
    out = fw.run_lines(exe, lines)
    for k, v in sorted(out.items()):
        o = parse(v)
        t = k.split('|')[0]
        case = {'type': t, 'seed_index': k.split('|')[1]}
        if tag(o) != 'obs' or len(o) < 12 or tag(o[11]) != 'extra':
            continue
        run.evaluations += 1
        so_, explicit = o[11][1], o[11][4] if len(o[11]) > 4 else None
        run.count('typed-writer:' + show(so_))
        if show(so_) != '(ok 1 1 1 1)':
            run.fail('typed-single-object-differs', 'SpecificSingleObjectWriter::new().write_ref / SpecificSingleObjectReader::read on %s: [count, C3 01 + fingerprint of the schema + the datum bytes, typed read back, generic read] = %s' % (t, show(so_)), case)
        if explicit is not None and tag(explicit) != 'skipped':
            run.count('typed-writer-explicit-schema:' + show(explicit))
            if show(explicit) != '(ok 1 1 1)':
                run.fail('typed-writer-explicit-schema-header', 'SpecificSingleObjectWriter::builder().resolved(S) on %s: [S has another fingerprint, header = fingerprint of S, the reader for S reads the message] = %s' % (t, show(explicit)), case)
            else:
                run.nontrivial_case('typed' + k)

def run(tier, seed):
    run_ = fw.Run(PROP, tier, seed)
    run_.proof = fw.proof_step(PROP, THEOREMS)
    exe = fw.build_harness()
    drv = fw.build_ocaml()
    lines, meta = gen_cases(tier, seed)
    evaluate(run_, lines, meta, exe, drv)
    typed_writers(run_, exe, tier, seed)
    return fw.finish(run_, 'theorems C18_* (all histories, all foreign headers) + differential correspondence', RULE, search)

def search(run_):
    exe = fw.build_harness()
    drv = fw.build_ocaml()
    r2 = fw.Run(PROP, 'thorough', run_.seed + 1)
    lines, meta = gen_cases('thorough', run_.seed + 1)
    evaluate(r2, lines[:3000], meta, exe, drv)
    return r2.failures

def replay(rp):
    f = rp.get('failure')
    print(f)
    if f and 'ops' in f['case']:
        exe = fw.build_harness()
        print(fw.run_lines(exe, ['r0 (so-history %s %s)' % (hx(f['case']['schema']), ' '.join(f['case']['ops']))]))
    return 0
