"""Schema-evolution generator shared by C08 and C09: (W, R, value) triples obtained from a generated
writer schema by sequences of evolution steps, run through the implementation (write with W, read
with R, compatibility verdicts) and through the extracted model (resolve, the executable resolution
specification Spec/Resolution.v, can_read)."""
import copy
import json
import framework as fw
from rng import Rng
from sx import parse, show, hx, unhx, tag
from schemas import gen_case_schema, schema_text
from values import canon

CFG = '(cfg 536870912 56 80)'
PRIMS = ['null', 'boolean', 'int', 'long', 'float', 'double', 'bytes', 'string']

def positions(js, path=()):
    """schema positions inside a schema JSON: yields (path, node)"""
    yield path, js
    if isinstance(js, list):
        for i, b in enumerate(js):
            yield from positions(b, path + (i,))
    elif isinstance(js, dict):
        t = js.get('type')
        if t == 'array':
            yield from positions(js['items'], path + ('items',))
        elif t == 'map':
            yield from positions(js['values'], path + ('values',))
        elif t == 'record':
            for i, f in enumerate(js['fields']):
                yield from positions(f['type'], path + ('fields', i, 'type'))
        elif isinstance(t, (dict, list)):
            yield from positions(t, path + ('type',))

def get(js, path):
    for p in path:
        js = js[p]
    return js

def put(js, path, new):
    if not path:
        return new
    js = copy.deepcopy(js)
    cur = js
    for p in path[:-1]:
        cur = cur[p]
    cur[path[-1]] = new
    return js

def prim_of(node):
    if isinstance(node, str) and node in PRIMS:
        return node
    if isinstance(node, dict) and isinstance(node.get('type'), str) and node['type'] in PRIMS and 'logicalType' not in node and len(node) == 1:
        return node['type']
    return None

def default_for(node):
    """a JSON default for a schema node (None if we do not know one)"""
    p = prim_of(node)
    table = {'null': ('null', None), 'boolean': ('b', True), 'int': ('i', 7), 'long': ('l', 1 << 40), 'float': ('f', 1.5),
             'double': ('d', 2.5), 'bytes': ('by', '\u0001ÿ'), 'string': ('s', 'dflt')}
    if p:
        return True, table[p][1]
    if isinstance(node, list) and node:
        return default_for(node[0])
    if isinstance(node, dict):
        t = node.get('type')
        if t == 'array':
            return True, []
        if t == 'map':
            return True, {}
        if t == 'enum':
            return True, node['symbols'][0]
    return False, None

def steps(rng, js):
    """candidate evolution steps: (name, safety, new schema JSON)"""
    out = []
    pos = list(positions(js))
    rng.shuffle(pos)
    for path, node in pos[:10]:
        p = prim_of(node)
        if p == 'int':
            for t in ('long', 'float', 'double'):
                out.append(('promote-int-' + t, 'safe', put(js, path, t)))
            out.append(('int-to-string', 'unsafe', put(js, path, 'string')))
        elif p == 'long':
            for t in ('float', 'double'):
                out.append(('promote-long-' + t, 'safe', put(js, path, t)))
            out.append(('narrow-long-int', 'unsafe', put(js, path, 'int')))
        elif p == 'float':
            out.append(('promote-float-double', 'safe', put(js, path, 'double')))
        elif p == 'double':
            out.append(('narrow-double-float', 'unsafe', put(js, path, 'float')))
        elif p == 'string':
            out.append(('string-to-bytes', 'safe', put(js, path, 'bytes')))
        elif p == 'bytes':
            out.append(('bytes-to-string', 'safe-if-utf8', put(js, path, 'string')))
        if isinstance(node, dict) and node.get('type') == 'record':
            fs = node['fields']
            n2 = copy.deepcopy(node)
            n2['fields'] = fs + [{'name': 'added_d', 'type': 'long', 'default': 99}]
            out.append(('add-field-with-default', 'safe', put(js, path, n2)))
            n2 = copy.deepcopy(node)
            n2['fields'] = fs + [{'name': 'added_u', 'type': ['null', 'string'], 'default': None}]
            out.append(('add-nullable-field-with-default', 'safe', put(js, path, n2)))
            n2 = copy.deepcopy(node)
            n2['fields'] = fs + [{'name': 'added_n', 'type': 'string'}]
            out.append(('add-field-without-default', 'unsafe', put(js, path, n2)))
            if fs:
                n2 = copy.deepcopy(node)
                n2['fields'] = fs[:-1]
                out.append(('remove-field', 'safe', put(js, path, n2)))
                n2 = copy.deepcopy(node)
                n2['fields'] = fs[::-1]
                out.append(('reorder-fields', 'safe', put(js, path, n2)))
                n2 = copy.deepcopy(node)
                f0 = dict(n2['fields'][0])
                f0['aliases'] = [f0['name']]
                f0['name'] = f0['name'] + '_renamed'
                n2['fields'][0] = f0
                out.append(('rename-field-with-alias', 'safe', put(js, path, n2)))
        if isinstance(node, dict) and node.get('type') == 'enum':
            n2 = copy.deepcopy(node); n2['symbols'] = node['symbols'] + ['ADDED']
            out.append(('add-enum-symbol', 'safe', put(js, path, n2)))
            n2 = copy.deepcopy(node); n2['symbols'] = node['symbols'][::-1]
            out.append(('reorder-enum-symbols', 'safe', put(js, path, n2)))
            if len(node['symbols']) > 1:
                n2 = copy.deepcopy(node); n2['symbols'] = node['symbols'][1:]; n2.pop('default', None)
                out.append(('remove-enum-symbol', 'unsafe', put(js, path, n2)))
                n2 = copy.deepcopy(node); n2['symbols'] = node['symbols'][1:]; n2['default'] = n2['symbols'][0]
                out.append(('remove-enum-symbol-with-default', 'safe', put(js, path, n2)))
        if isinstance(node, list):
            kinds = [b if isinstance(b, str) else None for b in node]
            if 'boolean' not in kinds:
                out.append(('add-union-branch', 'safe', put(js, path, node + ['boolean'])))
            if len(node) > 1:
                out.append(('reorder-union-branches', 'safe', put(js, path, node[::-1])))
                out.append(('remove-union-branch', 'unsafe', put(js, path, node[:-1])))
        elif path and path[-1] != 'type' and not (len(path) >= 1 and isinstance(get(js, path[:-1]), list)):
            # wrap a non-union position in a union (not directly inside another union)
            out.append(('wrap-in-union', 'safe', put(js, path, ['null', node])))
        elif not path:
            out.append(('wrap-in-union', 'safe', ['null', node]))
    return out

def branch_key(b):
    """the type of a union branch for the rule "no two branches of the same type, except named types":
    the underlying type of a logical type; the name of a named type or reference"""
    if isinstance(b, str):
        return b if b in PRIMS else 'named:' + b.split('.')[-1]
    if isinstance(b, list):
        return 'union'
    t = b.get('type')
    if t in ('record', 'enum', 'fixed'):
        return 'named:' + b['name'].split('.')[-1]
    if isinstance(t, dict):
        return branch_key(t)
    return t

def default_fits_first_branch(t, d):
    first = t[0] if t else None
    k = branch_key(first) if first is not None else None
    if k == 'null':
        return d is None
    if k == 'boolean':
        return isinstance(d, bool)
    if k in ('int', 'long'):
        return isinstance(d, int) and not isinstance(d, bool)
    if k in ('float', 'double'):
        return isinstance(d, (int, float)) and not isinstance(d, bool)
    if k in ('string', 'bytes'):
        return isinstance(d, str)
    if k == 'array':
        return isinstance(d, list)
    if k == 'map':
        return isinstance(d, dict)
    return d is not None

def unions_ok(js):
    """every union in the schema is well formed by the specification (the generator's own unions are; an evolution
    step such as string -> bytes next to a bytes-backed logical type, or reordering the branches of a defaulted
    field, can break it): no nested union, no two branches of the same type, a default matches the first branch"""
    for _, node in positions(js):
        if isinstance(node, list):
            keys = [branch_key(b) for b in node]
            if 'union' in keys or len(set(keys)) != len(keys):
                return False
        if isinstance(node, dict) and node.get('type') == 'record':
            for f in node['fields']:
                if 'default' in f and isinstance(f['type'], list) and not default_fits_first_branch(f['type'], f['default']):
                    return False
    return True

# minimal witnesses of the known finding classes (the Coq refutation examples of Props/C08.v, C09.v), run first
UB = '#0102030405060708090a0b0c0d0e0f10'
CORPUS = [
    ('"long"', '"int"', '(long 7)', 'narrow-long-int', 'unsafe'),
    ('{"type":"record","name":"R","fields":[{"name":"a","type":"int"}]}',
     '{"type":"record","name":"R","fields":[{"name":"b","type":"int","aliases":["a"]}]}', '(record (kv #61 (int 5)))', 'rename-field-with-alias', 'safe'),
    ('[{"type":"record","name":"E","fields":[]},{"type":"map","values":"int"}]',
     '[{"type":"record","name":"E","fields":[]},{"type":"map","values":"long"}]', '(union 1 (map (kv #6b (int 1))))', 'promote-int-long', 'safe'),
    ('[{"type":"fixed","name":"U1","size":16,"logicalType":"uuid"},{"type":"fixed","name":"U2","size":16,"logicalType":"uuid"}]',
     '[{"type":"fixed","name":"U1","size":16,"logicalType":"uuid"},{"type":"fixed","name":"U2","size":16,"logicalType":"uuid"},"boolean"]',
     '(union 1 (uuid %s))' % UB, 'add-union-branch', 'safe'),
    ('[{"type":"record","name":"E","fields":[]},{"type":"record","name":"F","fields":[]}]',
     '[{"type":"record","name":"E","fields":[]},{"type":"record","name":"F","fields":[]},"boolean"]', '(union 1 (record))', 'add-union-branch', 'safe'),
    ('{"type":"int","logicalType":"time-millis"}', '"long"', '(time-millis 5)', 'promote-int-long', 'safe'),
    ('["string",{"type":"bytes","logicalType":"uuid"}]', '["string",{"type":"bytes","logicalType":"uuid"},"boolean"]',
     '(union 1 (uuid %s))' % UB, 'add-union-branch', 'safe'),
    ('[{"type":"fixed","name":"F0","size":0},"string"]', '[{"type":"fixed","name":"F0","size":0},"bytes"]',
     '(union 1 (string #6869))', 'string-to-bytes', 'safe'),
]

def sibling_named_case(r):
    kind = r.choice(['record', 'record', 'enum', 'fixed'])
    nv = r.choice([2, 3])
    branches, values = [], []
    ftypes = [('long', lambda: '(long %d)' % r.choice([0, -1, 1 << 40])), ('string', lambda: '(string %s)' % hx(r.choice(['', 'hello']))),
              ('double', lambda: '(double %d)' % r.choice([0, 4607182418800017408])), ('boolean', lambda: '(boolean %d)' % r.below(2))]
    for j in range(nv):
        if kind == 'record':
            nf = r.choice([1, 2])
            fs = [('v%d_%d' % (j, q), r.choice(ftypes)) for q in range(nf)]
            branches.append({'type': 'record', 'name': 'N%d' % j, 'fields': [{'name': fn, 'type': ft[0]} for fn, ft in fs]})
            values.append('(record%s)' % ''.join(' (kv %s %s)' % (hx(fn), ft[1]()) for fn, ft in fs))
        elif kind == 'enum':
            syms = ['S%d_%d' % (j, q) for q in range(r.choice([1, 2, 3]))]
            branches.append({'type': 'enum', 'name': 'N%d' % j, 'symbols': syms})
            q = r.below(len(syms))
            values.append('(enum %d %s)' % (q, hx(syms[q])))
        else:
            branches.append({'type': 'fixed', 'name': 'N%d' % j, 'size': j + 1})
            values.append('(fixed %d #%s)' % (j + 1, 'ab' * (j + 1)))
    order = list(range(nv))
    r.shuffle(order)
    if order == list(range(nv)):
        order = order[::-1]
    rb = [branches[o] for o in order]
    extra = r.choice([None, 'null', 'boolean'])
    wb = list(branches)
    if extra:
        rb.insert(r.below(len(rb) + 1), extra)
    if r.chance(1, 3):
        wb.insert(r.below(len(wb) + 1), 'int')
        rb.append('long')
    vals = []
    for j, b in enumerate(branches):
        vals.append('(union %d %s)' % (wb.index(b), values[j]))
    shape = r.below(3)
    W, R = wb, rb
    if shape == 1:
        W, R = {'type': 'array', 'items': wb}, {'type': 'array', 'items': rb}
        vals = ['(array %s)' % ' '.join(vals)]
    elif shape == 2:
        W = {'type': 'record', 'name': 'Outer', 'fields': [{'name': 'u', 'type': wb}]}
        R = {'type': 'record', 'name': 'Outer', 'fields': [{'name': 'u', 'type': rb}]}
        vals = ['(record (kv #75 %s))' % v for v in vals]
    return json.dumps(W), json.dumps(R), vals, 'reorder-union-branches'

def enum_field_cases():
    """an enum as the type of a record field, under an optional field-level default and an optional enum-level
    default, with the written symbol kept, moved or removed in the reader; directly, under a union, in an array.
    Only the reader ENUM's own default may stand in for an unknown symbol; a field default is for absent fields."""
    out = []
    wsyms = ['A', 'B', 'C']
    for pos in ('direct', 'union', 'array'):
        for rsyms in (['A', 'B'], ['B', 'A', 'D'], ['C', 'A', 'B']):
            for edef in (None, rsyms[0]):
                for fdef in (False, True):
                    for wi, sym in enumerate(wsyms):
                        wen = {'type': 'enum', 'name': 'E', 'symbols': wsyms}
                        ren = {'type': 'enum', 'name': 'E', 'symbols': rsyms}
                        if edef:
                            ren['default'] = edef
                        val = '(enum %d %s)' % (wi, hx(sym))
                        if pos == 'direct':
                            wt, rt, v, d = wen, ren, val, rsyms[-1]
                        elif pos == 'union':
                            wt, rt, v, d = ['null', wen], ['null', ren], '(union 1 %s)' % val, None
                        else:
                            wt, rt, v, d = {'type': 'array', 'items': wen}, {'type': 'array', 'items': ren}, '(array %s)' % val, [rsyms[-1]]
                        wf = {'name': 'f', 'type': wt}
                        rf = {'name': 'f', 'type': rt}
                        if fdef:
                            rf['default'] = d
                        W = {'type': 'record', 'name': 'Rec', 'fields': [{'name': 'k', 'type': 'int'}, wf]}
                        R = {'type': 'record', 'name': 'Rec', 'fields': [rf, {'name': 'k', 'type': 'int'}]}
                        out.append((json.dumps(W), json.dumps(R), '(record (kv #6b (int 1)) (kv #66 %s))' % v,
                                    'enum-field:%s:%s' % (pos, 'kept' if sym in rsyms else 'removed'), 'unknown'))
    return out

def same_short_name_cases():
    """two named types with the same short name in different namespaces inside one schema (a verdict or a resolution
    remembered for one must not be reused for the other), in both orders"""
    out = []
    def en(ns, syms, default=None):
        d = {'type': 'enum', 'name': 'Suit', 'namespace': ns, 'symbols': syms}
        if default:
            d['default'] = default
        return d
    def fx(ns, size):
        return {'type': 'fixed', 'name': 'Blob', 'namespace': ns, 'size': size}
    def rec(ns, ftype):
        return {'type': 'record', 'name': 'Part', 'namespace': ns, 'fields': [{'name': 'v', 'type': ftype}]}
    shapes = [
        (en('first', ['A', 'B']), en('second', ['C', 'D']), en('first', ['A', 'B']), en('second', ['C', 'X']),
         ['(enum 0 #41)', '(enum 1 #42)'], ['(enum 0 #43)', '(enum 1 #44)']),
        (en('first', ['A', 'B']), en('second', ['C', 'D']), en('first', ['B', 'A']), en('second', ['M', 'N']),
         ['(enum 1 #42)'], ['(enum 1 #44)']),
        (fx('first', 2), fx('second', 3), fx('first', 2), fx('second', 4), ['(fixed 2 #0102)'], ['(fixed 3 #010203)']),
        (rec('first', 'int'), rec('second', 'string'), rec('first', 'long'), rec('second', 'int'),
         ['(record (kv #76 (int 5)))'], ['(record (kv #76 (string #78)))']),
    ]
    for wa, wb, ra, rb, va, vb in shapes:
        for flip in (False, True):
            fw_, fr_ = ([('a', wa), ('b', wb)], [('a', ra), ('b', rb)]) if not flip else ([('b', wb), ('a', wa)], [('b', rb), ('a', ra)])
            W = {'type': 'record', 'name': 'Top', 'fields': [{'name': n, 'type': t} for n, t in fw_]}
            R = {'type': 'record', 'name': 'Top', 'fields': [{'name': n, 'type': t} for n, t in fr_]}
            for x in va:
                for y in vb:
                    kv = {'a': x, 'b': y}
                    v = '(record %s)' % ' '.join('(kv %s %s)' % (hx(n), kv[n]) for n, _ in fw_)
                    out.append((json.dumps(W), json.dumps(R), v, 'same-short-name', 'unknown'))
    return out

def gen_triples(tier, seed):
    rng = Rng(seed)
    n = 260 if tier == 'quick' else 10000
    lines, meta = [], {}
    k = 0
    for (wt, rt, v, name, sf) in CORPUS + enum_field_cases() + same_short_name_cases():
        cid = 't%d' % k; k += 1
        lines.append('%s (read2 %s %s %s)' % (cid, hx(wt), hx(rt), v))
        meta[cid] = dict(W=wt, R=rt, value=v, steps=name, safety=sf)
    for i in range(n // 8):
        # unions of sibling named types (records with distinct fields, enums with distinct symbols, fixed of distinct
        # sizes) whose order differs between writer and reader
        r = rng.fork(2000000 + i)
        wt, rt, vals, name = sibling_named_case(r)
        for v in vals:
            cid = 't%d' % k; k += 1
            lines.append('%s (read2 %s %s %s)' % (cid, hx(wt), hx(rt), v))
            meta[cid] = dict(W=wt, R=rt, value=v, steps=name, safety='safe')
    for i in range(n):
        r = rng.fork(i)
        node, _ = gen_case_schema(r, max_depth=r.choice([1, 2, 2, 3]))
        W = node.json
        cur = W
        trail = []
        safety = 'safe'
        cands = [('identity', 'safe', W)]
        for depth in range(r.choice([1, 1, 2, 3])):
            st = [x for x in steps(r, cur) if unions_ok(x[2])]
            if not st:
                break
            name, sf, new = r.choice(st)
            trail.append(name)
            if sf != 'safe':
                safety = sf if safety == 'safe' else 'unsafe'
            cur = new
            cands.append(('+'.join(trail), safety, cur))
        wt = json.dumps(W, ensure_ascii=False)
        for (name, sf, R) in cands:
            rt = json.dumps(R, ensure_ascii=False)
            for j in range(2 if tier == 'quick' else 3):
                cid = 't%d' % k; k += 1
                v = node.gen(r, 0)
                lines.append('%s (read2 %s %s %s)' % (cid, hx(wt), hx(rt), v))
                meta[cid] = dict(W=wt, R=rt, value=v, steps=name, safety=sf)
    return lines, meta

def run_both(lines, meta, exe, drv):
    impl = fw.run_lines(exe, lines)
    mlines, parsed = [], {}
    for cid in meta:
        o = parse(impl.get(cid, '(missing)'))
        if tag(o) == 'obs':
            parsed[cid] = o
            mlines.append('%s (read2 %s %s %s %s)' % (cid, CFG, show(o[1]), show(o[2]), show(o[3])))
        else:
            parsed[cid] = o
    model = fw.run_lines(drv, mlines)
    # a case the driver did not answer in a loaded shard is run once more on its own
    missing = [l for l in mlines if model.get(l.split(' ', 1)[0], '(timeout)').startswith(('(timeout', '(abort'))]
    for l in missing[:20]:
        model.update(fw.run_lines(drv, [l], case_timeout=120))
    return parsed, {cid: parse(model.get(cid, '(missing)')) for cid in meta if tag(parsed[cid]) == 'obs'}
