"""C13 - writers never lose data silently on short writes or sink errors.  Theorems: coq/Props/C13.v
(write_all / write_pieces over every sink script).  Check: every write path run once against a
reliable sink (reference bytes + the pieces it hands to the sink) and then against scripted sinks:
per-call accepted length 1, k, pseudo-random; an injected failure / Interrupted at every call index;
failing flush.  Predicate on the implementation: Ok => the sink received exactly the reference
bytes and the returned count is the accepted length where documented; the extracted write_pieces
model predicts result, accepted bytes and number of calls of every single-operation scenario."""
import framework as fw
from rng import Rng
from sx import parse, show, hx, unhx, tag
from schemas import gen_case_schema, schema_text
import ocf

PROP = 'C13'
THEOREMS = ['C13_all_or_error', 'C13_write_all', 'C13_single_object_writer_reuse', 'C13_example', 'C13_reuse_example']
RULE = ('scenarios: datum writer (generated schema/value), serde datum writer (fixed record type, block sizes), '
        'generic single-object writer (3 messages), container writer (header + blocks + markers, codecs null/deflate, '
        'append/append_ser/flush/finish/drop) x sink scripts: accepted length 1 / k / PRNG per call, a failure or an '
        'Interrupted injected at EACH call index of the reference run, failing flush, fail-then-recover-and-retry. '
        'non-trivial = distinct (scenario, script) with at least one short write or injected fault')

def _multi_map(body):
    t = parse(body)
    def walk(x):
        if isinstance(x, str):
            return False
        if tag(x) == 'map' and len(x) > 2:
            return True
        return any(walk(y) for y in x)
    return walk(t)

def _same_file(a, b):
    """container files compared semantically: header metadata as a set, then identical bytes"""
    try:
        ha, hb = ocf.parse_header(a), ocf.parse_header(b)
    except (ocf.OcfError, IndexError):
        return a == b
    return sorted(ha[0]) == sorted(hb[0]) and ha[1] == hb[1] and a[ha[2]:] == b[hb[2]:]

def scenarios(tier, seed):
    rng = Rng(seed)
    sc = []
    n = 25 if tier == 'quick' else 400
    for i in range(n):
        r = rng.fork(i)
        node, _ = gen_case_schema(r, max_depth=r.choice([1, 2, 3]))
        st = schema_text(node)
        sc.append(('datum', '(datum %s %s)' % (hx(st), node.gen(r, 0))))
    for i in range(6 if tier == 'quick' else 40):
        sc.append(('datum-ser', '(datum-ser %d %s)' % (i * 7 + 3, rng.choice(['', '1', '16', '1024']))))
    for i in range(8 if tier == 'quick' else 60):
        sc.append(('datum-ser', '(datum-ser2 %d)' % (i * 5 + 1)))      # struct order != schema order
    for i in range(6 if tier == 'quick' else 60):
        r = rng.fork(1000 + i)
        node, _ = gen_case_schema(r, max_depth=2)
        sc.append(('so', '(so %s %s)' % (hx(schema_text(node)), ' '.join(node.gen(r, 0) for _ in range(3)))))
    # short messages: the writer's own state guard (buffer length 10..=20) cannot notice a leftover payload
    sc.append(('so', '(so %s (long 1) (long -70000) (long 3))' % hx('"long"')))
    sc.append(('so', '(so %s (record (kv #61 (int 5)) (kv #62 (boolean 1))) (record (kv #61 (int -9)) (kv #62 (boolean 0))) (record (kv #61 (int 77)) (kv #62 (boolean 1))))' % hx(
        '{"type":"record","name":"T","fields":[{"name":"a","type":"int"},{"name":"b","type":"boolean"}]}')))
    sc.append(('so', '(so %s (null) (null) (null))' % hx('"null"')))
    # the typed single-object writer: header, then the serializer's own pieces, three messages on one sink
    for i in range(4 if tier == 'quick' else 40):
        sc.append(('so', '(so-typed %d %d %d)' % (i * 3 + 1, i * 5 + 2, i * 7 + 3)))
    rec = '{"type":"record","name":"SerRec","fields":[{"name":"a","type":"long"},{"name":"s","type":"string"},{"name":"l","type":{"type":"array","items":"string"}},{"name":"m","type":{"type":"map","values":"int"}},{"name":"o","type":["null","double"]}]}'
    for i in range(8 if tier == 'quick' else 80):
        r = rng.fork(2000 + i)
        codec = r.choice(['null', 'deflate', 'null', 'snappy'])
        ops = []
        for j in range(r.range(2, 6)):
            k = r.below(4)
            ops.append('(append-ser %d)' % r.below(50) if k < 3 else '(flush)')
        ops.append(r.choice(['(finish)', '(drop)']))
        sc.append(('container', '(container %s %s %d %s %s)' % (hx(rec), codec, r.choice([0, 30, 16000]), hx(r.bytes(16)), ' '.join(ops))))
    return sc

def scripts_for(rng, ncalls, tier):
    out = [('short1', '(script 1 0)'), ('short3', '(script 3 0)'), ('short7', '(script 7 0)')]
    out.append(('random', '(script 100000 0 %s)' % ' '.join('(a %d)' % rng.range(1, 9) for _ in range(min(ncalls * 3, 400)))))
    # every call index in the thorough tier, up to 80 of them for the occasional value of thousands of pieces
    if ncalls <= 12 or (tier == 'thorough' and ncalls <= 80):
        idxs = range(ncalls)
    else:
        extra = 6 if tier != 'thorough' else 70
        idxs = sorted(set([0, 1, 2, ncalls // 2, ncalls - 2, ncalls - 1] + [rng.below(ncalls) for _ in range(extra)]))
    for k in idxs:
        pre = ' '.join('(a 100000)' for _ in range(k))
        out.append(('fail@%d' % k, '(script 100000 0 %s (f))' % pre))
        out.append(('intr@%d' % k, '(script 100000 0 %s (i))' % pre))
    out.append(('fail-short', '(script 2 0 (a 1) (a 2) (i) (a 1) (f))'))
    return out

def evaluate(run, sc, exe, drv, tier, seed):
    rng = Rng(seed + 99)
    ref_lines = ['s%d (sinkrun %s (script 100000000 0))' % (i, body) for i, (_, body) in enumerate(sc)]
    refs = fw.run_lines(exe, ref_lines)
    lines, meta = [], {}
    ref_marks = {}
    n = 0
    for i, (kind, body) in enumerate(sc):
        o = parse(refs.get('s%d' % i, '(missing)'))
        if tag(o) != 'obs' or tag(o[1]) != 'done':
            if tag(o) == 'schema-err' or (tag(o) == 'obs' and tag(o[1]) == 'schema-err'):
                continue
            run.fail('reference-run', 'scenario fails on a reliable sink: %s' % show(o)[:160], {'scenario': body[:300]})
            continue
        results = o[2][1:]
        if any(tag(x) != 'ok' for x in results):
            run.fail('reference-run', 'an operation fails on a reliable sink', {'scenario': body[:300]})
            continue
        ref = unhx(o[3])
        pieces = [int(x) for x in o[4][1:]]
        if kind == 'so' and len(o) > 6:
            ref_marks[body] = [int(x) for x in o[6][1:]]
        # documented counts on a reliable sink: single-object returns the message length; container
        # calls return header + block bytes: the sum over all calls equals the file length
        if kind == 'so':
            if sum(int(x[1]) for x in results) != len(ref):
                run.fail('count-differs', 'single-object writer: returned counts %s, wrote %d bytes' % ([x[1] for x in results], len(ref)), {'scenario': body[:300]})
        if kind == 'container' and body.endswith('(flush) (finish))'):
            cnt = sum(int(x[1]) for x in results if len(x) > 1)
            if cnt != len(ref):
                run.fail('count-differs', 'container writer: returned counts sum to %d, wrote %d bytes' % (cnt, len(ref)), {'scenario': body[:300]})
        for (sname, script) in scripts_for(rng.fork(i), len(pieces), tier):
            cid = 'x%d' % n; n += 1
            lines.append('%s (sinkrun %s %s)' % (cid, body, script))
            meta[cid] = (kind, body, sname, script, ref, pieces)
        # a failing flush (container only)
        if kind == 'container':
            cid = 'x%d' % n; n += 1
            lines.append('%s (sinkrun %s (script 100000 1))' % (cid, body))
            meta[cid] = (kind, body, 'flushfail', '(script 100000 1)', ref, pieces)
    got = fw.run_lines(exe, lines)
    mlines = []
    for cid, (kind, body, sname, script, ref, pieces) in meta.items():
        # (the model appends to the sink's data at every call: quadratic in the number of calls - long values are left to the
        # property predicate alone)
        if kind in ('datum', 'datum-ser') and sname != 'flushfail' and len(ref) <= 20000:
            ps, pos = [], 0
            for p in pieces:
                ps.append(hx(ref[pos:pos + p])); pos += p
            sp = parse(script)
            mlines.append('%s (sinkmodel (pieces %s) (script %s %s))' % (cid, ' '.join(ps), sp[1], ' '.join(show(x) for x in sp[3:])))
        if kind == 'so' and not body.startswith('(so-typed') and not _multi_map(body) and body in ref_marks and sname != 'flushfail' and len(ref) <= 20000:
            rm = ref_marks[body]
            msgs = [ref[(rm[j - 1] if j else 0):rm[j]] for j in range(len(rm))]
            if msgs and all(len(m) >= 10 and m[:10] == msgs[0][:10] for m in msgs):
                sp = parse(script)
                mlines.append('%s (so-sinkmodel %s (payloads %s) (script %s %s))' % (
                    cid, hx(msgs[0][:10]), ' '.join(hx(m[10:]) for m in msgs), sp[1], ' '.join(show(x) for x in sp[3:])))
    model = fw.run_lines(drv, mlines)
    for cid, (kind, body, sname, script, ref, pieces) in meta.items():
        run.evaluations += 1
        run.count(kind + ':' + sname.split('@')[0])
        o = parse(got.get(cid, '(missing)'))
        case = {'scenario': body[:400], 'script': script[:200], 'script_name': sname}
        if tag(o) != 'obs':
            run.fail('impl-' + str(tag(o)), 'outcome %s' % show(o)[:120], case)
            continue
        if tag(o[1]) == 'panic':
            run.fail('panic', 'the writer panicked (possibly in drop) after a sink fault', case)
            continue
        if tag(o[1]) != 'done':
            run.fail('impl-' + str(tag(o[1])), 'outcome %s' % show(o[1])[:120], case)
            continue
        results = o[2][1:]
        data = unhx(o[3])
        all_ok = all(tag(x) == 'ok' for x in results)
        # a value holding a map with several entries is rebuilt as a fresh HashMap in every harness
        # process: its iteration order, hence the byte order of its entries, differs between runs
        unordered = kind in ('datum', 'so') and _multi_map(body)
        if all_ok and unordered and len(data) == len(ref) and sorted(data) == sorted(ref):
            run.count('unordered-map-compared-as-multiset')
            run.nontrivial_case(body + script)
        elif all_ok and kind == 'container' and _same_file(data, ref):
            run.nontrivial_case(body + script)
        elif all_ok and kind == 'container' and body.endswith('(drop))'):
            # Drop cannot report an error: a fault that strikes during the implicit final flush is
            # invisible by design (the property only asks that dropping does not panic)
            run.count('fault-during-drop-not-reportable')
        elif all_ok and data != ref:
            run.fail('silent-data-loss', 'every call returned Ok but the sink holds %d bytes, the reference %d (first difference at %d)' % (
                len(data), len(ref), next((j for j in range(min(len(data), len(ref))) if data[j] != ref[j]), min(len(data), len(ref)))), case)
        elif all_ok and kind == 'so' and sum(int(x[1]) for x in results) != len(data):
            run.fail('count-differs', 'returned counts differ from the bytes accepted', case)
        else:
            run.nontrivial_case(body + script)
        # per message: a call that returned Ok delivered exactly that message (the writer is reused
        # after a failed call; nothing of the failed message may travel with a later one)
        if kind == 'so' and len(o) > 6 and not all_ok:
            rm = ref_marks.get(body)
            mk = [int(x) for x in o[6][1:]]
            if rm and len(mk) == len(results) == len(rm):
                for j, rj in enumerate(results):
                    if tag(rj) != 'ok':
                        continue
                    got_j = data[(mk[j - 1] if j else 0):mk[j]]
                    ref_j = ref[(rm[j - 1] if j else 0):rm[j]]
                    same = (got_j == ref_j) or (unordered and sorted(got_j) == sorted(ref_j))
                    if not same:
                        run.fail('silent-data-loss', 'message %d returned Ok after an earlier call failed, but the sink received %d bytes for it, the reference message has %d' % (
                            j, len(got_j), len(ref_j)), case)
                        break
                    if int(rj[1]) != len(got_j):
                        run.fail('count-differs', 'message %d: returned count %s, accepted %d bytes' % (j, rj[1], len(got_j)), case)
                        break
                else:
                    run.count('so:per-message-after-fault')
        if cid in model and kind == 'so':
            # the reusable-writer model predicts every call: result, count and the bytes the sink took
            m = parse(model[cid])
            mk = [int(x) for x in o[6][1:]] if len(o) > 6 else []
            impl = []
            for j, rj in enumerate(results):
                seg = data[(mk[j - 1] if j else 0):mk[j]] if j < len(mk) else b''
                impl.append(('ok', int(rj[1]), seg) if tag(rj) == 'ok' else ('err', None, seg))
            mod = [('ok', int(x[1]), unhx(x[2])) if tag(x) == 'ok' else ('err', None, unhx(x[1])) for x in m[2:]] if tag(m) == 'ok' else None
            if mod != impl or unhx(m[1]) != data:
                run.disagree('sow_run', case, str([(a, b, len(c)) for a, b, c in impl]), str([(a, b, len(c)) for a, b, c in mod]) if mod is not None else show(m)[:80])
            else:
                run.count('so:model-agrees')
            continue
        if cid in model and unordered:
            run.count('model-comparison-skipped-unordered-map')
        elif cid in model:
            m = parse(model[cid])
            iok = 'ok' if all_ok else 'err'
            if tag(m) != iok or unhx(m[1]) != data or int(m[2]) != len(o[4]) - 1:
                run.disagree('write_pieces', case, '%s %d bytes %d calls' % (iok, len(data), len(o[4]) - 1),
                             '%s %d bytes %s calls' % (tag(m), len(unhx(m[1])) if len(m) > 1 else -1, m[2] if len(m) > 2 else '?'))
    run.sample({'scenarios': [b[:120] for _, b in sc[:3]], 'scripts': ['(script 1 0)', '(script 100000 0 (a 100000) (f))']})
    # ---- fail, recover, retry: nothing reached the sink, the error was reported, a retry must produce a valid file
    rl = []
    rec = '{"type":"record","name":"SerRec","fields":[{"name":"a","type":"long"},{"name":"s","type":"string"},{"name":"l","type":{"type":"array","items":"string"}},{"name":"m","type":{"type":"map","values":"int"}},{"name":"o","type":["null","double"]}]}'
    for ci, codec in enumerate(['null', 'deflate', 'snappy', 'bzip2', 'xz', 'zstandard']):
        body = '(container %s %s 1000000 %s (append-ser 3) (append-ser 8) (flush) (flush) (append-ser 5) (finish))' % (hx(rec), codec, hx(bytes(range(16))))
        # header = 1 call; the first flush's first write (the count) fails; everything afterwards works
        rl.append(('r%d' % ci, codec, body, '(script 100000 0 (a 100000) (f))'))
    out = fw.run_lines(exe, ['%s (sinkrun %s %s)' % (cid, body, script) for cid, _, body, script in rl])
    rd = {}
    for cid, codec, body, script in rl:
        run.evaluations += 1
        run.count('retry:' + codec)
        o = parse(out.get(cid, '(missing)'))
        case = {'scenario': body[:300], 'script': script}
        if tag(o) != 'obs' or tag(o[1]) != 'done':
            run.fail('impl-' + str(tag(o)), 'outcome %s' % show(o)[:120], case)
            continue
        rd[cid] = (o, case)
    reads = fw.run_lines(exe, ['%s (cread %s)' % (cid, o[3]) for cid, (o, _) in rd.items()])
    for cid, (o, case) in rd.items():
        res = [tag(x) for x in o[2][1:]]
        r = parse(reads.get(cid, '(missing)'))
        items = r[2][1:] if tag(r) == 'obs' else []
        nok = sum(1 for x in items if tag(x) == 'ok')
        if res[:3] == ['ok', 'ok', 'err'] and all(x == 'ok' for x in res[3:]):
            if tag(r) != 'obs' or tag(r[1]) != 'ok' or any(tag(x) != 'ok' for x in items) or nok != 3:
                run.fail('retry-after-failed-flush-corrupts', 'flush failed before any byte of the block was written, the retry returned Ok, but the file reads %d values and %s' % (
                    nok, 'an error' if any(tag(x) != 'ok' for x in items) else 'no error'), case)
            else:
                run.nontrivial_case('retry' + cid)
        else:
            run.count('retry-shape-unexpected')

def run(tier, seed):
    run_ = fw.Run(PROP, tier, seed)
    run_.proof = fw.proof_step(PROP, THEOREMS)
    exe = fw.build_harness()
    drv = fw.build_ocaml()
    evaluate(run_, scenarios(tier, seed), exe, drv, tier, seed)
    return fw.finish(run_, 'theorems C13_* (every sink script) + fault-injection sweep with model-predicted outcomes', RULE, search)

def search(run_):
    exe = fw.build_harness()
    drv = fw.build_ocaml()
    r2 = fw.Run(PROP, 'quick', run_.seed + 1)
    evaluate(r2, scenarios('quick', run_.seed + 1), exe, drv, 'thorough', run_.seed + 1)
    return r2.failures

def replay(rp):
    f = rp.get('failure')
    print(f)
    return 0
