"""C15 - every codec round-trips every payload and interoperates with reference codecs.
Theorems: coq/Props/C15.v (the code around the compression libraries).  Check: Codec::compress / Codec::decompress on
generated payloads, every codec and compression level, against the reference codecs of the Python standard library
(zlib raw deflate, bz2, lzma), an own raw-snappy decoder / literal encoder, and the CRC-32 specification of the model."""
import bz2
import lzma
import zlib
import framework as fw
from rng import Rng
from sx import parse, show, hx, unhx, tag
import ocf
import sj
from c04 import snappy_literal_compress

PROP = 'C15'
THEOREMS = ['C15_snappy_roundtrip', 'C15_snappy_checksum_enforced', 'C15_output_bounded', 'C15_capped_roundtrip', 'C15_crc32_check_value']
RULE = ('payloads (empty, 1 byte, all-equal, text-like, PRNG, 70 KiB and 300 KiB beyond window / block sizes) x codecs {null, '
        'deflate, snappy, bzip2, xz, zstandard} x every level; reference-compressed payloads into the library; mutated and '
        'random compressed bytes; decompression bombs against a 64 KiB limit. non-trivial = distinct (codec, level, payload) '
        'of >= 2 bytes that round-trip and interoperate')
LEVELS = {'null': [0], 'deflate': [0, 1, 6, 9, 10], 'snappy': [0], 'bzip2': list(range(1, 10)), 'xz': list(range(0, 10)),
          'zstandard': [0, 1, 3, 9, 19, 22]}
LIMIT = 65536

def payloads(tier, rng):
    ps = [b'', b'\x00', b'a', b'ab' * 50, b'\x00' * 5000, rng.bytes(3), rng.bytes(100), rng.bytes(4096),
          bytes(range(256)) * 8, (b'the quick brown fox ' * 400), rng.bytes(70000), b'z' * 70000]
    # lengths around the internal block sizes of the codecs: deflate stored blocks (65535), snappy blocks (65536), zstd blocks (128 KiB)
    for n in (65534, 65535, 65536, 65537, 131070, 131071, 131072, 131073):
        ps.append(rng.bytes(n))
    if tier != 'quick':
        ps += [b'k' * n for n in (65535, 131070, 196605, 131072)]
        ps += [rng.bytes(300000), (b'abcdefgh' * 40000), b'\x00' * 1000000]
        ps += [rng.bytes(rng.below(3000)) for _ in range(300)]
    else:
        ps += [rng.bytes(rng.below(600)) for _ in range(20)]
    return ps

def ref_compress(codec, data):
    if codec == 'snappy':
        return snappy_literal_compress(data)
    if codec == 'zstandard':
        return None
    return ocf.compress(codec, data)

def collect(tier, seed):
    rng = Rng(seed)
    exe = fw.build_harness()
    ps = payloads(tier, rng)
    lines, meta = [], {}
    k = 0
    for codec, levels in LEVELS.items():
        for lv in (levels if tier != 'quick' else levels[:3] + levels[-1:]):
            for p in ps:
                if tier == 'quick' and len(p) > 5000 and lv not in (levels[0], levels[-1]):
                    continue
                if len(p) > 100000 and lv not in (levels[0], levels[len(levels) // 2], levels[-1]):
                    continue            # the slow levels of xz / zstandard / bzip2 on large payloads: three levels per codec
                cid = 'c%d' % k; k += 1
                lines.append('%s (codec %s %d %s)' % (cid, codec, lv, hx(p)))
                meta[cid] = ('rt', codec, lv, p)
    # long runs of one byte (generated inside the harness): expansion ratios above 1000:1
    for codec, levels in LEVELS.items():
        for lv in sorted({levels[0], levels[len(levels) // 2], levels[-1]}):
            for (b, n) in ([(0, 4 << 20), (97, 6000000)] if tier == 'quick' else [(0, 4 << 20), (97, 6000000), (255, 16 << 20), (0, 3 << 20)]):
                cid = 'c%d' % k; k += 1
                lines.append('%s (codec %s %d (rep %d %d))' % (cid, codec, lv, b, n))
                meta[cid] = ('run', codec, lv, (b, n))
    # reference-compressed input, mutated compressed input, random input
    for codec in ('deflate', 'snappy', 'bzip2', 'xz', 'zstandard'):
        for p in ps:
            rc = ref_compress(codec, p)
            if rc is not None:
                cid = 'c%d' % k; k += 1
                lines.append('%s (codec-d %s %s)' % (cid, codec, hx(rc)))
                meta[cid] = ('ref', codec, 0, p)
                if len(rc) > 4 and codec == 'snappy':
                    bad = rc[:-4] + bytes([(rc[-4] + 1) % 256]) + rc[-3:]
                    cid = 'c%d' % k; k += 1
                    lines.append('%s (codec-d %s %s)' % (cid, codec, hx(bad)))
                    meta[cid] = ('bad-crc', codec, 0, p)
                if len(rc) > 1 and len(p) < 6000:
                    for _ in range(2):
                        m = bytearray(rc)
                        how = rng.below(3)
                        if how == 0:
                            m[rng.below(len(m))] ^= 1 << rng.below(8)
                        elif how == 1:
                            m = m[:rng.below(len(m))]
                        else:
                            m += rng.bytes(rng.range(1, 4))
                        cid = 'c%d' % k; k += 1
                        lines.append('%s (codec-d %s %s)' % (cid, codec, hx(bytes(m))))
                        meta[cid] = ('mutated', codec, 0, p)
        for _ in range(40 if tier == 'quick' else 1500):
            cid = 'c%d' % k; k += 1
            lines.append('%s (codec-d %s %s)' % (cid, codec, hx(rng.bytes(rng.below(64)))))
            meta[cid] = ('random', codec, 0, b'')
    # thorough: the slow compression levels on megabyte payloads need minutes per shard (a shard that times out is re-run case by case)
    out = fw.run_lines(exe, lines, timeout=300 if tier == 'quick' else 2400, case_timeout=10 if tier == 'quick' else 60)
    # bombs: 4 MiB of zeros compressed by the reference codecs, against a 64 KiB limit (own process: the limit is process-wide)
    blines, bmeta = [], {}
    big = b'\x00' * (4 << 20)
    for codec in ('deflate', 'snappy', 'bzip2', 'xz'):
        blines.append('b_%s (codec-d %s %s)' % (codec, codec, hx(ref_compress(codec, big))))
        small = b'q' * 60000
        blines.append('s_%s (codec-d %s %s)' % (codec, codec, hx(ref_compress(codec, small))))
    bout = fw.run_lines(exe, blines, extra=['max_alloc=%d' % LIMIT])
    # CRC-32 of the specification for the snappy trailers
    crc_lines = ['%s (crc32 %s)' % (cid, hx(m[3])) for cid, m in meta.items() if m[0] == 'rt' and m[1] == 'snappy' and len(m[3]) <= 5000]
    crc = sj.run_model(crc_lines)
    return meta, {k: parse(v) for k, v in out.items()}, {k: parse(v) for k, v in bout.items()}, crc

def judge(run, meta, out, bout, crc):
    for cid, (kind, codec, lv, p) in meta.items():
        run.evaluations += 1
        o = out.get(cid)
        if kind == 'run':
            case = {'kind': kind, 'codec': codec, 'level': lv, 'payload': '%d bytes of value %d' % (p[1], p[0])}
            if o is None or tag(o) != 'obs' or len(o) < 3 or not isinstance(o[1], str):
                run.fail('compress-fails', 'a run of %d bytes: %s' % (p[1], show(o)[:60] if o is not None else 'none'), case)
            elif tag(o[2]) != 'ok' or int(o[2][1]) != p[1] or o[2][2] != '1':
                run.fail('roundtrip-differs', 'a run of %d equal bytes does not come back (%s); compressed to %d bytes' % (p[1], show(o[2])[:40], len(unhx(o[1]))), case)
            else:
                comp = unhx(o[1])
                try:
                    data = bytes([p[0]]) * p[1]
                    if codec == 'deflate':
                        okk = zlib.decompress(comp, -15) == data
                    elif codec == 'bzip2':
                        okk = bz2.decompress(comp) == data
                    elif codec == 'xz':
                        okk = lzma.decompress(comp) == data
                    else:
                        okk = True
                except Exception:
                    okk = False
                if not okk:
                    run.fail('reference-decoder-rejects', 'the reference decoder does not read the compressed run back', case)
                else:
                    run.nontrivial_case('run:%s:%d:%s' % (codec, lv, p))
            continue
        case = {'kind': kind, 'codec': codec, 'level': lv, 'payload_len': len(p), 'payload': p.hex()[:200]}
        if o is None or tag(o) in ('panic', 'timeout', 'abort', 'missing'):
            run.fail('codec-' + str(tag(o) if o is not None else 'none'), 'outcome %s' % (show(o)[:80] if o is not None else ''), case)
            continue
        run.count('%s:%s:%s' % (kind, codec, tag(o) if kind != 'rt' else 'obs'))
        if kind == 'rt':
            if tag(o) != 'obs' or len(o) < 3 or not isinstance(o[1], str):
                run.fail('compress-fails', 'compress: %s' % show(o)[:80], case)
                continue
            comp = unhx(o[1])
            if tag(o[2]) == 'panic':
                run.fail('decompress-panic', 'decompress panicked on its own output', case)
                continue
            if tag(o[2]) != 'ok' or unhx(o[2][1]) != p:
                run.fail('roundtrip-differs', 'decompress(compress(x)) = %s' % show(o[2])[:60], case)
                continue
            # after a decompression that failed part-way (the block cut in half) the intact block still decompresses to x
            if len(o) > 3 and tag(o[3]) != 'skipped':
                run.count('after-failed-decompress:' + show(o[3]))
                if tag(o[3]) != 'ok' or o[3][2] != '1':
                    run.fail('roundtrip-differs-after-failure', 'after decompressing a truncated block, decompress(compress(x)) no longer returns x (%s)' % show(o[3])[:40], case)
                    continue
            try:
                if codec == 'null':
                    ok = comp == p
                elif codec == 'deflate':
                    ok = zlib.decompress(comp, -15) == p
                elif codec == 'bzip2':
                    ok = bz2.decompress(comp) == p
                elif codec == 'xz':
                    ok = lzma.decompress(comp) == p
                elif codec == 'snappy':
                    ok = len(comp) >= 4 and ocf.snappy_raw_decompress(comp[:-4]) == p and comp[-4:] == zlib.crc32(p).to_bytes(4, 'big')
                    m = crc.get(cid)
                    if ok and m is not None:
                        if tag(m) != 'ok' or int(m[1]) != int.from_bytes(comp[-4:], 'big'):
                            run.disagree('crc32', case, comp[-4:].hex(), show(m))
                            ok = False
                else:
                    ok = comp[:4] == b'\x28\xb5\x2f\xfd'      # zstandard frame magic; no reference decoder here
            except Exception as e:
                ok = False
            if not ok:
                run.fail('reference-decoder-rejects', 'the reference decoder does not read the compressed bytes back', case)
            elif len(p) >= 2:
                run.nontrivial_case('%s:%d:%s' % (codec, lv, p.hex()[:80] + str(len(p))))
                run.sample({'codec': codec, 'level': lv, 'payload_len': len(p), 'compressed_len': len(comp)}, limit=8)
        elif kind == 'ref':
            if tag(o) != 'ok' or int(o[1]) != len(p) or int(o[3]) != zlib.crc32(p):
                run.fail('reference-output-misread', 'reference-compressed data: %s' % show(o)[:80], case)
        elif kind == 'bad-crc':
            if tag(o) != 'err':
                run.fail('wrong-checksum-accepted', 'a snappy block with a wrong CRC-32 is accepted', case)
        else:
            if tag(o) == 'ok' and int(o[1]) > 512 * 1024 * 1024:
                run.fail('output-above-limit', 'decompressed %s bytes' % o[1], case)
    for cid, o in bout.items():
        run.evaluations += 1
        case = {'kind': 'limit-64KiB', 'case': cid}
        if cid.startswith('b_'):
            if tag(o) != 'err':
                run.fail('bomb-not-stopped', '4 MiB from a small block with a 64 KiB limit: %s' % show(o)[:60], case)
        else:
            if tag(o) != 'ok' or int(o[1]) != 60000:
                run.fail('within-limit-rejected', '60000 bytes with a 64 KiB limit: %s' % show(o)[:60], case)

def run(tier, seed):
    run_ = fw.Run(PROP, tier, seed)
    run_.proof = fw.proof_step(PROP, THEOREMS)
    judge(run_, *collect(tier, seed))
    return fw.finish(run_, 'theorems C15_* (framing, checksum, output cap) + reference-codec interoperability check', RULE, search)

def explore(run_, tier, seed):
    judge(run_, *collect(tier, seed))

def search(run_):
    r2 = fw.Run(PROP, run_.tier, run_.seed + 1)
    judge(r2, *collect('quick', run_.seed + 1))
    return r2.failures

def replay(rp):
    print(rp.get('failure'))
    return 0
