"""C16 - serde and generic-value paths produce and accept the same bytes.
Theorems: coq/Props/C16.v (byte-level contract only).  Check: a corpus of derived Rust types in the harness (corpus.rs)
x generated values x block sizes: schema-aware serializer -> schema-aware deserializer, generic decoder, extracted model
decoder, to_value + resolve + generic encoder."""
import framework as fw
from rng import Rng
from sx import parse, show, hx, unhx, tag
from values import canon
import sj

PROP = 'C16'
THEOREMS = ['C16_block_partition_irrelevant', 'C16_generic_layouts_legal', 'C16_examples']
TYPES = ['scalars', 'inner', 'suit', 'nested', 'renamed', 'node', 'wrap-inner', 'wrap-suit', 'shape', 'with-shapes', 'reuse',
         'units', 'vec-unit', 'vec-nothing', 'one-tuple-single', 'one-array-single', 'one-tuple-link', 'one-tuple-inner', 'pair',
         'array3', 'one-tuple-int', 'blobs', 'blobs2', 'case-pascal', 'case-lower', 'case-upper', 'case-snake', 'case-screaming', 'case-camel', 'lower-units', 'snake-units', 'skipping', 'many', 'with-many', 'rename-rules', 'kebab-units', 'with-rules', 'reversed', 'reversed-defaults', 'interleaved', 'rotated']
PLAIN = ['scalars', 'inner', 'suit', 'nested', 'renamed', 'node', 'wrap-inner', 'wrap-suit', 'reuse', 'units', 'vec-unit',
         'vec-nothing', 'case-pascal', 'case-lower', 'case-upper', 'case-snake', 'case-screaming', 'case-camel', 'lower-units', 'snake-units', 'skipping', 'many', 'with-many', 'kebab-units', 'reversed', 'reversed-defaults', 'interleaved', 'rotated']   # no data-carrying enums, no tuples (to_value maps a tuple to an array, the schema-aware path to a record)
FROMV_UNSUPPORTED = {'blobs', 'blobs2', 'shape', 'with-shapes', 'rename-rules', 'with-rules', 'one-tuple-single', 'one-array-single', 'one-tuple-link', 'one-tuple-inner', 'pair', 'array3', 'one-tuple-int'}
BLOCKS = ['', '1', '16', '100000']
CFG = '(cfg 536870912 56 80)'
RULE = ('corpus of 41 Rust types (derived structs and enums, tuples, fixed arrays, vectors of zero-width items, structs whose field order differs from that of a hand-written schema - reversed, interleaved, rotated, with defaults; enums under serde rename_all / rename_all_fields / rename; a 130-symbol enum bare, optional, in lists and maps; fields serde omits with schema defaults of every JSON kind; every serde case rule that yields legal names; serde_bytes fields under unions holding both a fixed and bytes) (integers of all widths, floats, char, String, Option, Vec, nested Vec, string-keyed '
        'HashMap, nested structs, unit enums, data enums, renamed / defaulted / skipped fields, recursion through Box and Vec, '
        'generics) x generated values x target block sizes {none, 1, 16, large}. non-trivial = distinct (type, value) pairs')

def collect(tier, seed):
    exe = fw.build_harness()
    n = 12 if tier == 'quick' else 400
    lines = []
    for t in TYPES:
        for i in range(n):
            for b in BLOCKS:
                lines.append('%s|%d|%s (serde %s %d %s)' % (t, i, b or 'none', t, seed * 1000 + i, b))
    out = {k: parse(v) for k, v in fw.run_lines(exe, lines).items()}
    mlines = []
    for k, o in out.items():
        if tag(o) == 'obs' and isinstance(o[5], str):
            mlines.append('%s (decode %s %s %s)' % (k, CFG, show(o[1]), o[5]))
            mlines.append('%s|au (audit %s %s %s)' % (k, CFG, show(o[1]), o[5]))
            if tag(o[9]) == 'ok' and tag(o[9][2]) == 'ok':
                mlines.append('%s|tv (decode %s %s %s)' % (k, CFG, show(o[1]), o[9][2][1]))
    model = sj.run_model(mlines)
    return out, model

def judge(run, out, model):
    per_value = {}
    for k, o in sorted(out.items()):
        t, i, b = k.split('|')
        run.evaluations += 1
        case = {'type': t, 'seed_index': int(i), 'block_size': b}
        if tag(o) != 'obs':
            run.fail('harness-' + str(tag(o)), show(o)[:100], case)
            continue
        bytes_, ser, deser, generic, tov = o[5], o[6], o[7], o[8], o[9]
        if tag(ser) != 'ok':
            run.fail('serialize-' + str(tag(ser)), 'the schema-aware serializer: %s' % show(ser), case)
            continue
        data = unhx(bytes_)
        case['bytes'] = data.hex()[:300]
        if int(ser[1]) != len(data):
            run.fail('byte-count-differs', 'write_ser returned %s, %d bytes were emitted' % (ser[1], len(data)), case)
        if tag(deser) != 'ok' or deser[1] != '1' or deser[2] != '#':
            run.fail('deserialize-differs', 'the schema-aware deserializer: %s' % show(deser)[:80], case)
        if tag(generic) != 'ok' or generic[2] != '#' or generic[3] != '1':
            run.fail('generic-decoder-rejects', 'the generic decoder on the serializer output: %s' % show(generic)[-80:], case)
            continue
        m = model.get(k)
        if m is None or tag(m) != 'ok' or m[2] != '#':
            run.disagree('decode', case, show(generic)[:100], show(m)[:100] if m is not None else 'none')
            run.fail('not-one-legal-datum', 'the extracted decoder does not read the output as exactly one datum (%s)' % (show(m)[:60] if m is not None else ''), case)
            continue
        if canon(m[1], True) != canon(generic[1], True):
            run.disagree('decode-value', case, show(generic[1])[:160], show(m[1])[:160])
            continue
        au = model.get(k + '|au')
        if au is None or tag(au) != 'ok' or au[1] != '#':
            run.fail('block-size-wrong', 'a block announces a byte size that is not the size of its items (strict audit: %s)' % (show(au)[:40] if au is not None else 'none'), case)
            continue
        # the other typed entry points (block size none): SpecificSingleObjectWriter / Reader, from_value, write_avro_datum_ref
        if len(o) > 11 and tag(o[11]) == 'extra':
            so_, fromv, wadr = o[11][1], o[11][2], o[11][3]
            if show(so_) != '(ok 1 1 1 1)':
                run.fail('typed-single-object-differs', 'SpecificSingleObjectWriter::write_ref / SpecificSingleObjectReader::read: count, header ++ same datum bytes, typed read back, generic read: %s' % show(so_), case)
            if len(o[11]) > 4 and tag(o[11][4]) != 'skipped' and show(o[11][4]) != '(ok 1 1 1)':
                run.fail('typed-writer-explicit-schema-header', 'SpecificSingleObjectWriter::builder().resolved(S): [S has another fingerprint, header = fingerprint of S, the reader for S reads the message] = %s' % show(o[11][4]), case)
            if show(wadr) != '(ok 1 1)':
                run.fail('write-avro-datum-ref-differs', 'write_avro_datum_ref: count / same bytes as write_ser: %s' % show(wadr), case)
            if fromv != '1':
                if t in FROMV_UNSUPPORTED and tag(fromv) == 'err':
                    run.count('from-value-unsupported:' + t)          # tuples and tuple variants: the schema-less path has no record form for them
                else:
                    run.fail('from-value-differs', 'from_value on the generically decoded value: %s' % show(fromv), case)
        val = canon(m[1], True)
        per_value.setdefault((t, i), {})[b] = val
        # the schema-less generic path
        if t in PLAIN:
            if tag(tov) != 'ok' or tag(tov[2]) != 'ok':
                run.fail('generic-path-fails', 'to_value / resolve / encode: %s' % show(tov)[-80:], case)
            else:
                mt = model.get(k + '|tv')
                if mt is None or tag(mt) != 'ok' or mt[2] != '#' or canon(mt[1], True) != val:
                    run.fail('generic-path-differs', 'the generic path encodes another datum: %s' % (show(mt)[:100] if mt is not None else ''), case)
        run.nontrivial_case('%s:%s' % (t, i))
    for (t, i), d in per_value.items():
        if len(set(map(str, d.values()))) > 1:
            run.fail('block-size-changes-value', 'block sizes %s give different data' % sorted(d), {'type': t, 'seed_index': int(i)})
    run.sample({'types': TYPES, 'block_sizes': BLOCKS}, limit=1)

def run(tier, seed):
    run_ = fw.Run(PROP, tier, seed)
    run_.proof = fw.proof_step(PROP, THEOREMS)
    judge(run_, *collect(tier, seed))
    return fw.finish(run_, 'theorems C16_* (byte-level contract) + differential check of the serde paths on a corpus of Rust types', RULE, search)

def explore(run_, tier, seed):
    judge(run_, *collect(tier, seed))

def search(run_):
    r2 = fw.Run(PROP, run_.tier, run_.seed + 1)
    judge(r2, *collect('quick', run_.seed + 1))
    return r2.failures

def replay(rp):
    f = rp.get('failure')
    print(f)
    return 0
