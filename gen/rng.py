"""One PRNG for every random choice (splitmix64): a seed replays a run exactly."""
M = (1 << 64) - 1

class Rng:
    def __init__(self, seed):
        self.s = seed & M
    def next(self):
        self.s = (self.s + 0x9E3779B97F4A7C15) & M
        z = self.s
        z = ((z ^ (z >> 30)) * 0xBF58476D1CE4E5B9) & M
        z = ((z ^ (z >> 27)) * 0x94D049BB133111EB) & M
        return z ^ (z >> 31)
    def below(self, n):
        return self.next() % n if n > 0 else 0
    def range(self, lo, hi):          # inclusive
        return lo + self.below(hi - lo + 1)
    def choice(self, l):
        return l[self.below(len(l))]
    def chance(self, num, den):
        return self.below(den) < num
    def bytes(self, n):
        return bytes(self.below(256) for _ in range(n))
    def fork(self, k):
        return Rng(self.next() ^ (k * 0xD6E8FEB86659FD93))
    def shuffle(self, l):
        for i in range(len(l) - 1, 0, -1):
            j = self.below(i + 1)
            l[i], l[j] = l[j], l[i]
