"""C04 - object container files conform to the specified layout in both directions.
Theorems: coq/Props/C04.v.  Check: files written by the library parsed by the independent reader gen/ocf.py (reference
codecs from the Python standard library, own raw-snappy decoder), and specification-conforming files produced by the
independent writer below read by the library."""
import json
import zlib
import framework as fw
from rng import Rng
from sx import parse, show, hx, unhx, tag
from schemas import gen_case_schema, schema_text
from values import canon
import ocf
import sj

PROP = 'C04'
THEOREMS = ['C04_body_any_partition', 'C04_header_any_layout', 'C04_examples']
RULE = ('schemas x value sequences (0..12 values) x codecs {null, deflate, snappy, bzip2, xz, zstandard(write only)} x block '
        'partitions (empty file, one value per block, one block, random) x metadata maps (multi-block, negative-count blocks, '
        'unknown avro.* keys, user keys); plus single blocks of 1-3 MiB of one byte (compression ratios above 1000:1) per codec. non-trivial = distinct files with at least two values')

def snappy_literal_compress(data):
    """a valid raw-snappy stream made of literals only, followed by the big-endian CRC-32 of the data"""
    out = bytearray()
    n = len(data)
    while True:
        b = n & 0x7f
        n >>= 7
        if n:
            out.append(b | 0x80)
        else:
            out.append(b)
            break
    pos = 0
    while pos < len(data):
        chunk = data[pos:pos + 60]
        out.append((len(chunk) - 1) << 2)
        out += chunk
        pos += 60
    return bytes(out) + zlib.crc32(data).to_bytes(4, 'big')

def compress(codec, data):
    if codec == 'snappy':
        return snappy_literal_compress(data)
    return ocf.compress(codec, data)

def write_map_blocks(r, entries):
    """the metadata map in a random legal block layout"""
    out = b''
    pos = 0
    entries = list(entries)
    while pos < len(entries):
        k = r.range(1, len(entries) - pos)
        body = b''.join(ocf.write_long(len(a)) + a + ocf.write_long(len(b)) + b for a, b in entries[pos:pos + k])
        if r.chance(1, 2):
            out += ocf.write_long(-k) + ocf.write_long(len(body)) + body
        else:
            out += ocf.write_long(k) + body
        pos += k
    return out + b'\x00'

def build_file(r, schema_text_, codec, items, extra_meta, one_block=False):
    """a conforming file: returns (bytes, block sizes)"""
    marker = r.bytes(16)
    entries = [(b'avro.schema', schema_text_.encode())]
    if codec != 'null' or r.chance(1, 2):
        entries.append((b'avro.codec', codec.encode()))
    entries += extra_meta
    r.shuffle(entries)
    out = b'Obj\x01' + write_map_blocks(r, entries) + marker
    how = 1 if one_block else r.below(4)
    parts = []
    if how == 0:
        parts = [[x] for x in items]
    elif how == 1:
        parts = [items] if items else []
    else:
        pos = 0
        while pos < len(items):
            k = r.range(1, len(items) - pos)
            parts.append(items[pos:pos + k])
            pos += k
    for p in parts:
        payload = compress(codec, b''.join(p))
        out += ocf.write_long(len(p)) + ocf.write_long(len(payload)) + payload + marker
    return out, [len(p) for p in parts]

def gen(tier, seed):
    rng = Rng(seed)
    n = 150 if tier == 'quick' else 5000
    cases = []
    for i in range(n):
        r = rng.fork(i)
        node, _ = gen_case_schema(r, max_depth=r.choice([1, 2, 2]))
        st = schema_text(node)
        nv = r.choice([0, 1, 2, 3, 5, 12])
        vals = [node.gen(r, 0) for _ in range(nv)]
        cases.append(dict(schema=st, values=vals, seed=r.below(1 << 30)))
    # blocks that compress extremely well (a run of one byte: above 1000:1 with deflate, far more with bzip2 / xz), in
    # ONE block: a legal file whatever the ratio, in both directions
    big = [('deflate', 3 << 20), ('bzip2', 1 << 20)] + ([] if tier == 'quick' else [('xz', 1 << 20), ('deflate', 1 << 20), ('zstandard', 1 << 20)])
    for j, (codec, nbytes) in enumerate(big):
        vals = ['(bytes #%s)' % ('00' * nbytes), '(bytes #7879)']
        cases.append(dict(schema='"bytes"', values=vals, seed=j + 7, force_codec=codec))
    return cases

def collect(tier, seed):
    cases = gen(tier, seed)
    exe = fw.build_harness()
    # 1. parsed schema and the model's encoding of every value (the independent item encoder)
    parsed = sj.run_impl('parse-text', {'c%d' % i: c['schema'] for i, c in enumerate(cases)})
    mlines = []
    for i, c in enumerate(cases):
        o = parsed['c%d' % i]
        if tag(o) == 'obs' and tag(o[2]) == 'ok':
            c['sexp'] = show(o[2][1])
            for j, v in enumerate(c['values']):
                mlines.append('c%d_%d (encode %s %s)' % (i, j, c['sexp'], v))
    enc = sj.run_model(mlines)
    lines_w, lines_r = [], []
    for i, c in enumerate(cases):
        if 'sexp' not in c:
            continue
        items = []
        for j in range(len(c['values'])):
            e = enc.get('c%d_%d' % (i, j))
            if e is None or tag(e) != 'ok':
                items = None
                break
            items.append(unhx(e[1]))
        c['items'] = items
        if items is None:
            continue
        r = Rng(c['seed'])
        # direction A: the library writes
        c['wcodec'] = r.choice(['null', 'deflate', 'snappy', 'bzip2', 'xz', 'zstandard', 'deflate:0', 'deflate:9', 'bzip2:1', 'bzip2:9',
                                'xz:0', 'xz:9', 'zstandard:1', 'zstandard:19'])
        c['bsz'] = r.choice([0, 1, 7, 64, 16000])
        if c.get('force_codec'):
            c['wcodec'], c['bsz'] = c['force_codec'], 1 << 24
        ops = []
        for v in c['values']:
            ops.append('(append %s)' % v)
            if r.chance(1, 4):
                ops.append('(flush)')
        c['user'] = [(r.choice(['k', 'user.key', 'k2']), r.bytes(r.below(6))) for _ in range(r.below(3))]
        pre = ['(meta %s %s)' % (hx(k), hx(v)) for k, v in c['user']]
        lines_w.append('w%d (cfile %s %s %d %s %s (finish))' % (i, hx(c['schema']), c['wcodec'], c['bsz'], hx(r.bytes(16)), ' '.join(pre + ops)))
        # direction B: the independent writer writes
        c['rcodec'] = r.choice(['null', 'deflate', 'snappy', 'bzip2', 'xz'])
        if c.get('force_codec'):
            c['rcodec'] = c['force_codec'] if c['force_codec'] != 'zstandard' else 'xz'
        extra = [(b'avro.unknown.key', b'x')] if r.chance(1, 2) else []
        if c['rcodec'] in ('bzip2', 'xz') and r.chance(1, 2):
            # a level announced by the writer (any value: it does not matter for reading)
            extra.append((b'avro.codec.compression_level', bytes([r.choice([0, 1, 5, 9, 200])]) + (b'zz' if r.chance(1, 4) else b'')))
        c['ruser'] = {}
        for _ in range(r.below(4)):
            k = r.choice(['a', 'user.key', 'zz', 'avro_not_reserved'])
            c['ruser'][k] = r.bytes(r.below(5))
        extra += [(k.encode(), v) for k, v in c['ruser'].items()]
        c['file'], c['blocks'] = build_file(r, c['schema'], c['rcodec'], items, extra, one_block=bool(c.get('force_codec')))
        lines_r.append('r%d (cread %s)' % (i, hx(c['file'])))
    out_w = fw.run_lines(exe, lines_w)
    out_r = fw.run_lines(exe, lines_r)
    return cases, {k: parse(v) for k, v in out_w.items()}, {k: parse(v) for k, v in out_r.items()}

def same_items(c, data):
    """the payload decodes (with the model decoder, item by item) to the appended values: used when the bytes differ
    from the model's own encoding, which happens for maps of several entries (HashMap iteration order)"""
    rest = data
    for v in c['values']:
        m = sj.run_model(['d (decode (cfg 536870912 56 80) %s %s)' % (c['sexp'], hx(rest))])['d']
        if tag(m) != 'ok' or canon(m[1], True) != canon(parse(v), True):
            return False
        rest = unhx(m[2])
    return rest == b''

def judge(run, cases, out_w, out_r):
    for i, c in enumerate(cases):
        if c.get('items') is None:
            run.count('skipped')
            continue
        run.evaluations += 1
        # ---- direction A
        case = {'direction': 'library-writes', 'schema': c['schema'], 'values': [v[:200] for v in c['values'][:6]], 'codec': c['wcodec'], 'block_size': c['bsz']}
        o = out_w.get('w%d' % i)
        if o is None or tag(o) != 'obs':
            run.fail('writer-' + str(tag(o) if o is not None else 'none'), 'writer outcome %s' % (show(o)[:120] if o is not None else ''), case)
        else:
            sink = unhx(o[3])
            try:
                meta, marker, pos = ocf.parse_header(sink)
                md = dict(meta)
                if len(md) != len(meta):
                    raise ocf.OcfError('metadata key written twice')
                if b'avro.schema' not in md:
                    raise ocf.OcfError('no avro.schema')
                json.loads(md[b'avro.schema'].decode('utf-8'))
                codec = md.get(b'avro.codec', b'null').decode()
                wbase, _, wlevel = c['wcodec'].partition(':')
                if codec != wbase:
                    raise ocf.OcfError('avro.codec is %s, the writer was given %s' % (codec, c['wcodec']))
                if wlevel and wbase in ('bzip2', 'xz', 'zstandard') and md.get(b'avro.codec.compression_level') != bytes([int(wlevel)]):
                    raise ocf.OcfError('avro.codec.compression_level is %r, the writer was given level %s' % (md.get(b'avro.codec.compression_level'), wlevel))
                if wbase in ('null', 'deflate', 'snappy') and b'avro.codec.compression_level' in md:
                    raise ocf.OcfError('a compression level is announced for %s' % wbase)
                blocks, end, why = ocf.parse_blocks(sink, pos, marker)
                if why is not None or end != len(sink):
                    raise ocf.OcfError('body: %s at %d of %d' % (why, end, len(sink)))
                if any(b[2] == 0 for b in blocks):
                    raise ocf.OcfError('a block with count 0')
                if sum(b[2] for b in blocks) != len(c['items']):
                    raise ocf.OcfError('block counts sum to %d, %d values were appended' % (sum(b[2] for b in blocks), len(c['items'])))
                if codec != 'zstandard':
                    data = b''.join(ocf.decompress(codec, b[3]) for b in blocks)
                    if data != b''.join(c['items']) and not same_items(c, data):
                        raise ocf.OcfError('the decompressed payloads are not the encodings of the appended values')
                user = {k.decode(): v for k, v in md.items() if not k.startswith(b'avro.')}
                want = {}
                for k, v in c['user']:
                    want[k] = v
                if user != want:
                    raise ocf.OcfError('user metadata %s, expected %s' % (user, want))
                run.count('A:ok:' + codec)
            except (ocf.OcfError, ValueError, UnicodeDecodeError, Exception) as e:
                run.fail('written-file-not-conforming', 'independent reader: %s' % str(e)[:160], case)
        # ---- direction B
        case = {'direction': 'library-reads', 'schema': c['schema'], 'values': c['values'][:6], 'codec': c['rcodec'], 'blocks': c['blocks'],
                'file': c['file'].hex()[:2000]}
        case['values'] = [v[:200] for v in case['values']]
        o = out_r.get('r%d' % i)
        if o is None or tag(o) != 'obs':
            run.fail('reader-' + str(tag(o) if o is not None else 'none'), 'reader outcome %s' % (show(o)[:120] if o is not None else ''), case)
            continue
        if tag(o[1]) != 'ok':
            run.fail('conforming-file-rejected', 'Reader::new fails on a conforming file', case)
            continue
        got_schema, got_meta, items = o[1][1], o[1][2], o[2][1:]
        bad = None
        if show(got_schema) != c['sexp']:
            # the embedded-schema defect F19 changes null-namespace names on the way through JSON: parse of the text is the reference
            bad = 'writer schema %s, expected %s' % (show(got_schema)[:80], c['sexp'][:80])
        elif len(items) != len(c['values']) or any(tag(x) != 'ok' for x in items):
            bad = '%d items (%s), expected %d values' % (len(items), [tag(x) for x in items][:5], len(c['values']))
        elif any(canon(x[1], True) != canon(parse(v), True) for x, v in zip(items, c['values'])):
            bad = 'values differ'
        else:
            gm = {unhx(e[1]).decode(): unhx(e[2]) for e in got_meta[1:]}
            if gm != c['ruser']:
                bad = 'user metadata %s, expected %s' % (gm, c['ruser'])
        if bad:
            run.fail('conforming-file-misread', bad, case)
        else:
            run.count('B:ok:' + c['rcodec'])
            if len(c['values']) >= 2:
                run.nontrivial_case(c['file'].hex()[:200] + c['schema'])
                run.sample({'schema': c['schema'][:80], 'codec': c['rcodec'], 'blocks': c['blocks']}, limit=6)

def run(tier, seed):
    run_ = fw.Run(PROP, tier, seed)
    run_.proof = fw.proof_step(PROP, THEOREMS)
    judge(run_, *collect(tier, seed))
    return fw.finish(run_, 'theorems C04_* + independent container reader / writer (gen/ocf.py, Python reference codecs)', RULE, search)

def explore(run_, tier, seed):
    judge(run_, *collect(tier, seed))

def search(run_):
    r2 = fw.Run(PROP, run_.tier, run_.seed + 1)
    judge(r2, *collect('quick', run_.seed + 1))
    return r2.failures

def replay(rp):
    f = rp.get('failure')
    print(f)
    return 0
