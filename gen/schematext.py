"""Schema-text generator for C10/C11/C12/C20: accepted-by-design schema JSON with every feature the serializer has to
carry (nested namespaces: inherited, overridden, explicitly empty; dotted names; references in every spelling; aliases
on types and fields; docs with characters needing escapes; defaults of every JSON kind; custom attributes on every
node, also with keys that mean something on other node kinds; every logical type on every base, valid and invalid)."""
import json
from rng import Rng

PRIMS = ['null', 'boolean', 'int', 'long', 'float', 'double', 'bytes', 'string']
DOCS = ['plain', 'with "quotes"', 'back\\slash', 'tab\there', 'nl\nline', 'uni é € 😀', 'ctl \u0001 \u001f', '', '</script>', '  sep']
ATTR_KEYS = ['x', 'custom.attr', 'precision', 'scale', 'size', 'symbols', 'items', 'values', 'fields', 'default', 'order',
             'aliases2', 'logicalType2', 'é', 'a b', 'Type', 'name2', 'namespace2', 'doc2']
ATTR_VALS = [None, True, 0, -5, 1 << 40, 1.5, 'txt', [], [1, 'a', None], {}, {'k': {'n': [1]}}, 'é"\\']
NAMESPACES = [None, '', 'ns1', 'org.example', 'a.b.c', 'ns1']
LOGICALS = {'int': ['date', 'time-millis'], 'long': ['time-micros', 'timestamp-millis', 'timestamp-micros', 'timestamp-nanos',
            'local-timestamp-millis', 'local-timestamp-micros', 'local-timestamp-nanos'],
            'bytes': ['decimal', 'big-decimal', 'uuid'], 'string': ['uuid'], 'fixed': ['decimal', 'uuid', 'duration']}

class Gen:
    def __init__(self, rng, max_depth=3, attrs=True, weird=True):
        self.r = rng
        self.max_depth = max_depth
        self.attrs = attrs
        self.weird = weird
        self.defined = {}      # full name -> kind info
        self.n = 0

    def fresh(self, base):
        self.n += 1
        return '%s%d' % (base, self.n)

    def maybe_attrs(self, d, forbidden=()):
        r = self.r
        if self.attrs and r.chance(1, 3):
            for _ in range(r.choice([1, 1, 2, 3])):
                k = r.choice(ATTR_KEYS)
                if k in d or k in forbidden:
                    continue
                d[k] = r.choice(ATTR_VALS)
        return d

    def named_header(self, base, ens):
        """returns (dict with name/namespace/aliases/doc, full name, namespace of the new type)"""
        r = self.r
        simple = self.fresh(base)
        how = r.below(7)
        d = {}
        if how == 6:          # namespace and simple name share text (prefix, equal, extension)
            ns = r.choice([simple[:2], simple[:-1], simple, simple + 'x', simple[0]])
            d['name'] = simple
            d['namespace'] = ns
        elif how == 0:          # plain: inherits
            d['name'] = simple
            ns = ens
        elif how == 1:        # explicit namespace
            ns = r.choice(['ns1', 'org.example', 'a.b.c', '_u', 'x._y.z', 'A_1.b2', '__'])
            d['name'] = simple
            d['namespace'] = ns
        elif how == 2:        # dotted name (namespace attribute ignored)
            ns = r.choice(['d1', 'd1.d2', '_internal', 'com._gen', 'Z9._', 'a_.b_'])
            d['name'] = ns + '.' + simple
            if r.chance(1, 2):
                d['namespace'] = 'ignored.ns'
        elif how == 3:        # explicitly empty namespace
            d['name'] = simple
            d['namespace'] = ''
            ns = None
        elif how == 4:        # same namespace as enclosing, spelled out
            d['name'] = simple
            if ens:
                d['namespace'] = ens
            ns = ens
        else:
            d['name'] = simple
            ns = ens
        if ns == '':
            ns = None
        full = (ns + '.' + simple) if ns else simple
        if r.chance(1, 4):
            d['aliases'] = r.choice([[], ['Old' + simple], ['x.y.Old' + simple, 'Other' + simple]])
        if r.chance(1, 3):
            d['doc'] = r.choice(DOCS)
        return d, full, ns

    def ref_spelling(self, full, ens):
        """a spelling of a reference to `full` valid inside namespace ens"""
        r = self.r
        if '.' in full:
            ns, simple = full.rsplit('.', 1)
            if ns == ens and r.chance(1, 2):
                return simple
            return full
        # null-namespace type: the bare name only works where no namespace is enclosing
        if ens:
            return None
        return full

    def default_for(self, js, depth=0):
        """(has, value): a JSON default for the schema js"""
        r = self.r
        if isinstance(js, str):
            table = {'null': None, 'boolean': r.choice([True, False]), 'int': r.choice([0, -1, 2147483647]), 'long': r.choice([0, 1 << 40, -(1 << 62)]),
                     'float': r.choice([0, 1.5, -2]), 'double': r.choice([0.25, 3, -1e300]), 'bytes': r.choice(['', 'ab', 'ÿ\u0000']),
                     'string': r.choice(['', 'dflt', 'é "q" \\'])}
            if js in table:
                return True, table[js]
            return False, None
        if isinstance(js, list):
            if not js:
                return False, None
            return self.default_for(js[0], depth)
        t = js.get('type')
        lt = js.get('logicalType')
        if t == 'array':
            ok, d = self.default_for(js['items'], depth + 1)
            return True, ([d] if ok and depth < 2 and r.chance(1, 2) else [])
        if t == 'map':
            ok, d = self.default_for(js['values'], depth + 1)
            return True, ({'k': d} if ok and depth < 2 and r.chance(1, 2) else {})
        if t == 'enum':
            return True, js['symbols'][0]
        if t == 'fixed':
            if lt in ('decimal', 'uuid', 'duration'):
                return False, None
            return True, 'x' * js['size']
        if t == 'record':
            out = {}
            for f in js['fields']:
                ok, d = self.default_for(f['type'], depth + 1)
                if not ok:
                    return False, None
                out[f['name']] = d
            return True, out
        if lt is None and isinstance(t, str):
            return self.default_for(t, depth)
        if isinstance(t, (dict, list)):
            return self.default_for(t, depth)
        if lt in ('date', 'time-millis', 'time-micros', 'timestamp-millis', 'timestamp-micros', 'timestamp-nanos',
                  'local-timestamp-millis', 'local-timestamp-micros', 'local-timestamp-nanos'):
            return True, 12345
        return False, None

    def leaf(self, ens):
        r = self.r
        k = r.below(20)
        if k < 8:
            p = r.choice(PRIMS)
            how = r.below(6)
            if how == 0:
                return self.maybe_attrs({'type': p})
            if how == 1 and self.weird:
                return {'type': {'type': p}}
            return p
        if k < 12:
            base = r.choice(['int', 'long', 'bytes', 'string'])
            lt = r.choice(LOGICALS[base])
            d = {'type': base, 'logicalType': lt}
            if lt == 'decimal':
                d['precision'] = r.choice([1, 4, 10, 38])
                d['scale'] = r.choice([0, 1, d['precision']])
                if r.chance(1, 6):
                    del d['scale']
            return self.maybe_attrs(d)
        if k < 14:
            hdr, full, ns = self.named_header('Fx', ens)
            d = dict(hdr, type='fixed', size=r.choice([0, 1, 4, 12, 16]))
            self.defined[full] = 'fixed'
            return self.maybe_attrs(d)
        if k < 16:
            hdr, full, ns = self.named_header('Lf', ens)
            lt = r.choice(['decimal', 'uuid', 'duration'])
            size = {'uuid': 16, 'duration': 12}.get(lt, r.choice([2, 8, 16]))
            if self.weird and r.chance(1, 6):
                size = 5       # uuid / duration on the wrong size: logical type ignored
            d = dict(hdr, type='fixed', size=size, logicalType=lt)
            if lt == 'decimal':
                d['precision'] = r.choice([1, 2, 4])
                d['scale'] = r.choice([0, 1])
            self.defined[full] = 'fixed'
            return self.maybe_attrs(d)
        if k < 18:
            hdr, full, ns = self.named_header('En', ens)
            syms = ['S%d' % i for i in range(r.choice([1, 2, 3, 5]))]
            d = dict(hdr, type='enum', symbols=syms)
            if r.chance(1, 3):
                d['default'] = r.choice(syms)
            self.defined[full] = 'enum'
            return self.maybe_attrs(d, forbidden=('default', 'symbols'))
        if k == 18 and self.weird:
            # unknown / mismatched logical types are ignored
            return {'type': r.choice(['string', 'int', 'boolean']), 'logicalType': r.choice(['unknown-lt', 'date', 'decimal', 'duration'])}
        # reference to a completed named type
        if self.defined:
            full = r.choice(sorted(self.defined))
            sp = self.ref_spelling(full, ens)
            if sp is not None:
                return sp
        return r.choice(PRIMS)

    def schema(self, depth, ens, in_union=False):
        r = self.r
        if depth >= self.max_depth:
            return self.leaf(ens)
        c = r.below(12)
        if c in (0, 1):
            return self.maybe_attrs({'type': 'array', 'items': self.schema(depth + 1, ens)}, forbidden=('items',))
        if c == 2:
            return self.maybe_attrs({'type': 'map', 'values': self.schema(depth + 1, ens)}, forbidden=('values',))
        if c in (3, 4) and not in_union:
            n = r.choice([1, 2, 2, 3])
            out, seen = [], set()
            for _ in range(8):
                if len(out) >= n:
                    break
                snapshot = dict(self.defined)
                b = self.schema(depth + 1, ens, in_union=True)
                key = self.branch_key(b)
                if key in seen or key == 'union':
                    self.defined = snapshot       # a discarded branch defines nothing
                    continue
                seen.add(key)
                out.append(b)
            if r.chance(1, 2) and 'null' not in seen:
                out.insert(r.below(len(out) + 1), 'null')
            return out
        if c in (5, 6, 7, 8):
            hdr, full, ns = self.named_header('Rec', ens)
            fields = []
            nf = r.choice([0, 1, 2, 3, 4])
            self.defined_pending = getattr(self, 'defined_pending', set())
            for i in range(nf):
                fname = r.choice(['f%d', 'a_%d', '_u%d', 'Zz%d']) % i
                if r.chance(1, 7):
                    sp = self.ref_spelling(full, ns)
                    if sp is not None:
                        ft = r.choice([['null', sp], {'type': 'array', 'items': sp}, {'type': 'map', 'values': sp}])
                    else:
                        ft = self.schema(depth + 1, ns)
                else:
                    ft = self.schema(depth + 1, ns)
                f = {'name': fname, 'type': ft}
                if r.chance(1, 3):
                    ok, d = self.default_for(ft)
                    if ok:
                        f['default'] = d
                if r.chance(1, 4):
                    f['doc'] = r.choice(DOCS)
                if r.chance(1, 5):
                    f['aliases'] = r.choice([[], ['old_' + fname], ['o1_' + fname, 'o2_' + fname]])
                if r.chance(1, 6):
                    f['order'] = r.choice(['ascending', 'descending', 'ignore'])
                self.maybe_attrs(f, forbidden=('default', 'order', 'aliases', 'doc'))
                fields.append(f)
            d = dict(hdr, type='record', fields=fields)
            self.defined[full] = 'record'
            return self.maybe_attrs(d, forbidden=('fields',))
        return self.leaf(ens)

    def branch_key(self, b):
        if isinstance(b, str):
            return b if b in PRIMS else 'named:' + b.split('.')[-1]
        if isinstance(b, list):
            return 'union'
        t = b.get('type')
        if t in ('record', 'enum', 'fixed'):
            return 'named:' + b['name'].split('.')[-1]
        if isinstance(t, dict):
            return self.branch_key(t)
        if isinstance(t, list):
            return 'union'
        return t      # a logical type does not change the type of a branch

def gen_schema_json(rng, max_depth=3, attrs=True, weird=True):
    g = Gen(rng, max_depth, attrs, weird)
    return g.schema(0, None)

def dumps(js, rng=None):
    """JSON text; with rng: random key order and spacing (the parser sorts keys anyway)"""
    if rng is None:
        return json.dumps(js, ensure_ascii=False)
    def enc(x):
        if isinstance(x, dict):
            items = list(x.items())
            rng.shuffle(items)
            return '{' + rng.choice(['', ' ']).join([]) + ','.join(json.dumps(k, ensure_ascii=rng.chance(1, 2)) + rng.choice([':', ': ', ' : ']) + enc(v) for k, v in items) + '}'
        if isinstance(x, list):
            return '[' + rng.choice([',', ', ']).join(enc(v) for v in x) + ']'
        return json.dumps(x, ensure_ascii=rng.chance(1, 2))
    return enc(js)
