"""C08 - reading with a different reader schema follows the specification's resolution rules.
Theorems: coq/Props/C08.v.  Oracle: the executable resolution specification (Spec/Resolution.v,
extracted) on (W, R, value) triples from the evolution generator."""
import framework as fw
from sx import parse, show, hx, unhx, tag
from values import canon
import evo

PROP = 'C08'
THEOREMS = ['C08_promotions', 'C08_no_rule_is_error', 'C08_record_fields', 'C08_record_by_name', 'C08_enum_rules',
            'C08_enum_spec', 'C08_idempotent_leaves', 'C08_idempotent_fragment', 'C08_result_validates_fragment', 'C08_fragment_example', 'C08_narrowing_refuted', 'C08_alias_refuted', 'C08_map_as_record_refuted',
            'C08_fixed_logical_by_kind_refuted', 'C08_named_by_structure_refuted', 'C08_logical_not_promoted_refuted',
            'C08_lookup_by_base_kind_refuted', 'C08_read_as_sibling_refuted', 'C08_spec_examples']
RULE = ('(W, R) pairs from generated writer schemas by 1-3 evolution steps (promotions, add/remove/reorder/rename-'
        'with-alias fields, defaults, enum symbol and union branch changes, wrapping in unions, incompatible '
        'changes) x generated values of W. non-trivial = distinct triples with R != W on which the specification '
        'gives a result')

NARROW = ('narrow-long-int', 'narrow-double-float')

def max_prec_for_len(n):
    """types.rs max_prec_for_len: floor(log10(2^(8n-1) - 1)); 0 for n = 0"""
    return 0 if n == 0 else len(str(2 ** (8 * n - 1) - 1)) - 1

def first_diff(a, b):
    """first position (pre-order) where two value terms differ: (a-subterm, b-subterm)"""
    if isinstance(a, str) or isinstance(b, str) or tag(a) != tag(b) or len(a) != len(b):
        return (a, b)
    if tag(a) in ('map', 'record'):
        da = {e[1]: e[2] for e in a[1:]}
        db = {e[1]: e[2] for e in b[1:]}
        if set(da) != set(db):
            return (a, b)
        for k in sorted(da):
            d = first_diff(da[k], db[k])
            if d:
                return d
        return None
    if tag(a) == 'union':
        return (a, b) if a[1] != b[1] else first_diff(a[2], b[2])
    if tag(a) == 'array':
        for x, y in zip(a[1:], b[1:]):
            d = first_diff(x, y)
            if d:
                return d
        return None
    return None if canon(a, True) == canon(b, True) else (a, b)

def decimals_in(t, out):
    if isinstance(t, str):
        return out
    if tag(t) == 'decimal':
        out.append(len(unhx(t[1])))
    for x in t[1:]:
        decimals_in(x, out)
    return out

def bytes_decimal_precisions(js, out):
    if isinstance(js, list):
        for b in js:
            bytes_decimal_precisions(b, out)
    elif isinstance(js, dict):
        if js.get('logicalType') == 'decimal' and js.get('type') == 'bytes':
            out.append(js['precision'])
        for k in ('items', 'values', 'type'):
            if isinstance(js.get(k), (dict, list)):
                bytes_decimal_precisions(js[k], out)
        for f in js.get('fields', []) if isinstance(js.get('fields'), list) else []:
            bytes_decimal_precisions(f['type'], out)
    return out

def has_ref(js):
    """does the schema JSON contain a reference to a named type (a type-name string that is not a primitive)?"""
    if isinstance(js, str):
        return js not in evo.PRIMS
    if isinstance(js, list):
        return any(has_ref(b) for b in js)
    if isinstance(js, dict):
        t = js.get('type')
        if t == 'array':
            return has_ref(js['items'])
        if t == 'map':
            return has_ref(js['values'])
        if t == 'record':
            return any(has_ref(f['type']) for f in js['fields'])
        if isinstance(t, (dict, list)):
            return has_ref(t)
    return False

INT_LOGICAL = ('date', 'time-millis', 'time-micros', 'timestamp-millis', 'timestamp-micros', 'timestamp-nanos',
               'local-timestamp-millis', 'local-timestamp-micros', 'local-timestamp-nanos')

def leaf_pairs(a, b, out):
    """corresponding leaves of the decoded value a and the specification's result b (union wrappers stripped,
    records and maps matched by key)"""
    while not isinstance(a, str) and tag(a) == 'union':
        a = a[2]
    while not isinstance(b, str) and tag(b) == 'union':
        b = b[2]
    if isinstance(a, str) or isinstance(b, str):
        return out
    if tag(a) == 'array' and tag(b) == 'array':
        for x, y in zip(a[1:], b[1:]):
            leaf_pairs(x, y, out)
    elif tag(a) in ('map', 'record') and tag(b) in ('map', 'record'):
        da = {e[1]: e[2] for e in a[1:]}
        for e in b[1:]:
            if e[1] in da:
                leaf_pairs(da[e[1]], e[2], out)
    else:
        out.append((tag(a), tag(b)))
    return out

def lookup_conflict(R, decoded):
    """a reader union holds a uuid branch next to a string-typed branch, or a fixed-backed decimal next to a
    bytes-typed branch (union.rs looks a Uuid value up as String and a Decimal value up as Bytes first), and
    the data contains such a value"""
    has_uuid = contains(decoded, lambda t: tag(t) == 'uuid')
    has_dec = contains(decoded, lambda t: tag(t) == 'decimal')
    defs = {}
    for _, node in evo.positions(R):
        if isinstance(node, dict) and node.get('type') in ('record', 'enum', 'fixed') and 'name' in node:
            defs[node['name'].split('.')[-1]] = node
    for _, node in evo.positions(R):
        if isinstance(node, list):
            keys = [evo.branch_key(b) for b in node]
            node = [defs.get(b.split('.')[-1], b) if isinstance(b, str) and b not in evo.PRIMS else b for b in node]
            logical = [b.get('logicalType') if isinstance(b, dict) else None for b in node]
            for i, b in enumerate(node):
                if logical[i] == 'uuid' and has_uuid and any(k == 'string' for j, k in enumerate(keys) if j != i):
                    return True
                if logical[i] == 'decimal' and has_dec and keys[i].startswith('named:') and any(k == 'bytes' for j, k in enumerate(keys) if j != i):
                    return True
    return False

def contains(t, pred):
    if isinstance(t, str):
        return False
    return pred(t) or any(contains(x, pred) for x in t[1:])

def lenient_pair(a, b):
    """resolve_fixed / resolve_decimal / resolve_uuid / resolve_enum / resolve_string accept string, bytes and fixed
    content of any origin (meant for JSON defaults): a value written with another type is read as these"""
    if a == b or (a, b) in (('string', 'bytes'), ('bytes', 'string')):
        return False
    if (a, b) == ('array', 'bytes'):          # resolve_bytes takes an array of small ints
        return True
    return a in ('string', 'bytes', 'fixed') and b in ('fixed', 'decimal', 'uuid', 'duration', 'enum', 'string')

def classify(mt, kind, spec, read, decoded):
    """known-finding class of a failure, or None.  kind: rejected | differs | invented"""
    import json as _json
    trail = mt['steps'].split('+')
    R = _json.loads(mt['R'])
    if kind in ('invented', 'differs') and (any(s in NARROW for s in trail) or
            any((a, b) in (('long', 'int'), ('double', 'float')) for a, b in leaf_pairs(decoded, read[1], []))):
        return 'narrowing-accepted'
    if kind in ('rejected', 'differs') and 'rename-field-with-alias' in trail:
        return 'reader-field-alias-ignored'
    if kind == 'rejected':
        pairs = leaf_pairs(decoded, spec[1], [])
        if any(a in INT_LOGICAL and b != a for a, b in pairs):
            return 'int-logical-not-promoted'
        if lookup_conflict(R, decoded):
            return 'logical-value-looked-up-by-base-kind'
    if kind == 'differs':
        d = first_diff(spec[1], read[1])
        if d and not isinstance(d[0], str) and not isinstance(d[1], str) and tag(d[0]) == 'union' and tag(d[1]) == 'union':
            a, b = tag(d[0][2]), tag(d[1][2])
            if a == 'map' and b == 'record':
                return 'map-read-as-record'
            if a == b and a in ('uuid', 'decimal', 'duration'):
                return 'fixed-logical-branch-by-kind'
            if a == b and a in ('record', 'enum', 'fixed'):
                return 'named-branch-by-structure'
            if lenient_pair(a, b):
                return 'lenient-cross-type-read'
    if kind == 'invented':
        if _fixed_logical_union(read[1]):
            return 'fixed-logical-branch-by-kind'
        if contains(read[1], lambda t: tag(t) == 'union' and tag(t[2]) == 'record') and \
           contains(decoded, lambda t: tag(t) == 'union' and tag(t[2]) == 'map'):
            return 'map-read-as-record'
        if contains(read[1], lambda t: tag(t) == 'union' and tag(t[2]) in ('record', 'enum', 'fixed')) and \
           contains(decoded, lambda t: tag(t) == 'union' and tag(t[2]) in ('record', 'enum', 'fixed')):
            return 'named-branch-by-structure'
        pairs = leaf_pairs(decoded, read[1], [])
        if any(lenient_pair(a, b) for a, b in pairs):
            return 'lenient-cross-type-read'
    return None

def _fixed_logical_union(t):
    if isinstance(t, str):
        return False
    if tag(t) == 'union' and tag(t[2]) in ('uuid', 'decimal', 'duration'):
        return True
    return any(_fixed_logical_union(x) for x in t[1:])

def judge(run, meta, parsed, model):
    for cid, mt in meta.items():
        run.evaluations += 1
        o = parsed[cid]
        case = dict(mt)
        if tag(o) in ('w-schema', 'r-schema', 'bad-case'):
            run.count('skipped:' + tag(o))
            continue
        if tag(o) != 'obs':
            run.fail('impl-' + str(tag(o)), 'outcome %s' % show(o)[:120], case)
            continue
        enc, read, valid, idem, cread = o[4], o[5], o[6], o[7], o[13]
        if tag(enc) != 'ok':
            run.count('writer-rejects-value')
            continue
        if tag(read) == 'panic' or tag(cread) == 'panic':
            run.fail('panic', 'reading with the reader schema panicked', case)
            continue
        m = model.get(cid)
        if m is None or tag(m) != 'ok':
            run.disagree('read2', case, show(read)[:100], show(m)[:100] if m else 'none')
            continue
        spec, decoded = m[2], m[7]
        run.count('spec:' + tag(spec) + '/impl:' + tag(read))
        # the same datum through the object container with reader_schema(R): one item, the same outcome
        same_schema = mt['W'] == mt['R']
        citem = cread[1] if tag(cread) == 'items' and len(cread) == 2 else None
        if citem is None:
            run.fail('container-read-shape', 'container read gave %s' % show(cread)[:100], case)
        else:
            as_datum = tag(citem) == tag(read) and (tag(read) != 'ok' or canon(citem[1], True) == canon(read[1], True))
            unresolved = same_schema and tag(citem) == 'ok' and canon(citem[1], True) == canon(decoded, True)
            if not as_datum and not unresolved:
                import json as _json
                cls = 'container-reader-refs-use-reader-definitions' if has_ref(_json.loads(mt['W'])) and not same_schema else 'container-vs-datum-reader'
                run.fail(cls, 'Reader(reader_schema) gives %s, GenericDatumReader %s' % (show(citem)[:80], show(read)[:80]), case)
        primary = None
        # a known finding is a behaviour of the modelled (unchanged) code: only a result the faithful model also
        # produces can belong to a known class; anything else is reported as it is
        mr = m[1]
        faithful = tag(mr) == tag(read) and (tag(read) != 'ok' or canon(mr[1], True) == canon(read[1], True))
        classify_ = (lambda *a: classify(*a)) if faithful else (lambda *a: None)
        if tag(spec) == 'some':
            want = canon(spec[1], True)
            if tag(read) != 'ok':
                primary = classify_(mt, 'rejected', spec, read, decoded)
                run.fail(primary or 'spec-result-rejected',
                         'the specification gives %s, the library reports an error' % show(spec[1])[:120], case)
            elif canon(read[1], True) != want:
                primary = classify_(mt, 'differs', spec, read, decoded)
                run.fail(primary or 'spec-result-differs',
                         'the specification gives %s, the library %s' % (show(spec[1])[:100], show(read[1])[:100]), case)
            elif mt['steps'] != 'identity':
                run.nontrivial_case(mt['W'] + mt['R'] + mt['value'])
                run.sample({'W': mt['W'][:80], 'R': mt['R'][:80], 'steps': mt['steps'], 'value': mt['value'][:60], 'read': show(read[1])[:60]}, limit=8)
        else:
            if tag(read) == 'ok':
                primary = classify_(mt, 'invented', spec, read, decoded)
                run.fail(primary or 'value-where-rules-give-none',
                         'the rules give no result, the library returns %s' % show(read[1])[:120], case)
        if tag(read) == 'ok':
            # a value the rules do not prescribe may also fail these (same known class); a prescribed one must not
            if valid != '1':
                run.fail(primary or 'result-not-valid', 'the resolved value does not validate against the reader schema', case)
            if tag(idem) != 'ok' or canon(idem[1], True) != canon(read[1], True):
                run.fail(primary or 'not-idempotent', 'resolving the result again gives %s' % show(idem)[:100], case)
        # correspondence: model resolve = implementation read
        if tag(mr) != tag(read) or (tag(read) == 'ok' and canon(mr[1], True) != canon(read[1], True)):
            run.disagree('resolve', case, show(read)[:200], show(mr)[:200])

def run(tier, seed):
    run_ = fw.Run(PROP, tier, seed)
    run_.proof = fw.proof_step(PROP, THEOREMS)
    exe = fw.build_harness()
    drv = fw.build_ocaml()
    lines, meta = evo.gen_triples(tier, seed)
    parsed, model = evo.run_both(lines, meta, exe, drv)
    judge(run_, meta, parsed, model)
    return fw.finish(run_, 'executable resolution specification + theorems C08_* + differential check', RULE, search)

def search(run_):
    exe = fw.build_harness()
    drv = fw.build_ocaml()
    r2 = fw.Run(PROP, run_.tier, run_.seed + 1)
    lines, meta = evo.gen_triples('quick', run_.seed + 1)
    parsed, model = evo.run_both(lines, meta, exe, drv)
    judge(r2, meta, parsed, model)
    return r2.failures

def replay(rp):
    f = rp.get('failure')
    print(f)
    if f:
        exe = fw.build_harness()
        c = f['case']
        print(fw.run_lines(exe, ['r0 (read2 %s %s %s)' % (hx(c['W']), hx(c['R']), c['value'])]))
    return 0
