"""C14 - a truncated or marker-corrupted file yields only a true prefix, then an error.
Theorems: coq/Props/C14.v.  Correspondence / predicate: library-written files with several blocks
(all codecs, counts needing 1 and 2 varint bytes, zero-width / fixed / variable items) cut at EVERY
byte offset and with EVERY single-byte alteration of every marker occurrence and of the magic."""
import framework as fw
from rng import Rng
from sx import parse, show, hx, unhx, tag
from values import canon
import ocf

PROP = 'C14'
THEOREMS = ['C14_cut_anywhere', 'C14_whole_file', 'C14_marker_corruption', 'C14_header_cut', 'C14_iterator_latches', 'C14_example']
CFG = '(cfg 536870912 56 80)'
RULE = ('files written by the library: 3-5 blocks x codecs {null,deflate,snappy,bzip2,xz,zstandard} x per-block '
        'counts {3,100,200} x item schemas {null, long, record}; exhaustive over cut offsets (every byte) and '
        'over single-byte alterations (xor 0x01 and xor 0x80) of every marker byte and every magic byte. '
        'non-trivial = distinct damaged files whose damage lies after the header')

ITEMS = [
    ('"null"', lambda r, i: '(null)'),
    ('"long"', lambda r, i: '(long %d)' % r.range(-2**40, 2**40)),
    ('{"type":"record","name":"T","fields":[{"name":"s","type":"string"},{"name":"x","type":["null","double"]}]}',
     lambda r, i: '(record (kv #73 (string %s)) (kv #78 (union 1 (double %d))))' % (hx('v%d' % i * r.range(1, 3)), r.next())),
]

def gen_files(tier, seed):
    rng = Rng(seed)
    lines, meta = [], {}
    codecs = ['null', 'deflate', 'snappy', 'bzip2', 'xz', 'zstandard']
    combos = []
    for ci, codec in enumerate(codecs):
        for ii in range(3):
            if tier == 'quick' and codec != 'null' and ii != (ci % 3):
                continue
            combos.append((codec, ii))
    for n, (codec, ii) in enumerate(combos):
        r = rng.fork(n)
        st, g = ITEMS[ii]
        ops = []
        nblocks = r.range(3, 5) if tier == 'thorough' else 3
        counts = []
        for b in range(nblocks):
            cnt = r.choice([3, 100, 200]) if (tier == 'thorough' or codec == 'null') else r.choice([3, 100])
            if b == 1:
                cnt = 100          # a count that needs two varint bytes
            counts.append(cnt)
            for i in range(cnt):
                ops.append('(append %s)' % g(r, i))
            ops.append('(flush)')
        ops.append('(finish)')
        cid = 'f%d' % n
        lines.append('%s (cfile %s %s 1000000 %s %s)' % (cid, hx(st), codec, hx(r.bytes(16)), ' '.join(ops)))
        meta[cid] = dict(schema=st, codec=codec, counts=counts)
    return lines, meta

def evaluate(run, lines, meta, exe, drv):
    files = fw.run_lines(exe, lines, shards=len(lines))
    rl = []
    info = {}
    for l in lines:
        cid = l.split(' ', 1)[0]
        o = parse(files.get(cid, '(missing)'))
        if tag(o) != 'obs':
            run.fail('impl-' + str(tag(o)), 'cannot write the base file: %s' % show(o)[:100], meta[cid])
            continue
        f = unhx(o[3])
        hm, marker, body = ocf.parse_header(f)
        blocks, _, e = ocf.parse_blocks(f, body, marker)
        if e or [b[2] for b in blocks] != meta[cid]['counts']:
            run.fail('base-file-layout', 'the base file does not have the expected blocks (%s)' % e, meta[cid])
            continue
        info[cid] = (f, o[1], marker, body, blocks)
        rl.append('%s (cread %s)' % (cid, hx(f)))
    base = fw.run_lines(exe, rl, shards=len(rl) or 1)
    dl, dmeta = [], {}
    n = 0
    for cid, (f, sterm, marker, body, blocks) in info.items():
        rd = parse(base[cid])
        items = rd[2][1:]
        if tag(rd[1]) != 'ok' or any(tag(x) != 'ok' for x in items) or len(items) != sum(meta[cid]['counts']):
            run.fail('base-unreadable', 'the undamaged file does not read back', meta[cid])
            continue
        vals = [show(canon(x[1])) for x in items]
        ends = [b[1] for b in blocks]
        cum = []
        t = 0
        for b in blocks:
            t += b[2]; cum.append(t)
        # every cut offset
        for k in range(len(f)):
            did = 'd%d' % n; n += 1
            dl.append('%s (cread %s)' % (did, hx(f[:k])))
            if k < body:
                exp = ('open-err', [], None)
            else:
                nb = sum(1 for e_ in ends if e_ <= k)
                boundary = (k == body) or (k in ends)
                exp = ('ok', vals[:cum[nb - 1]] if nb else [], 'clean' if boundary else 'err')
            dmeta[did] = (cid, 'cut@%d' % k, f[:k], exp, k >= body)
        # every marker byte (header occurrence + each block), two alterations each; every magic byte
        occ = [(body - 16, -1)] + [(b[1] - 16, i) for i, b in enumerate(blocks)]
        for (pos, bi) in occ:
            for j in range(16):
                for x in (0x01, 0x80):
                    g = bytearray(f); g[pos + j] ^= x
                    did = 'd%d' % n; n += 1
                    dl.append('%s (cread %s)' % (did, hx(bytes(g))))
                    if bi == -1:
                        exp = ('ok', [], 'err')
                    else:
                        exp = ('ok', vals[:cum[bi - 1]] if bi else [], 'err')
                    dmeta[did] = (cid, 'marker%d[%d]^%02x' % (bi, j, x), bytes(g), exp, True)
        for j in range(4):
            g = bytearray(f); g[j] ^= 0x01
            did = 'd%d' % n; n += 1
            dl.append('%s (cread %s)' % (did, hx(bytes(g))))
            dmeta[did] = (cid, 'magic[%d]' % j, bytes(g), ('open-err', [], None), False)
    got = fw.run_lines(exe, dl)
    ml = []
    for did, (cid, what, g, exp, nt) in dmeta.items():
        if meta[cid]['codec'] == 'null':
            ml.append('%s (cread %s %s %s)' % (did, CFG, show(info[cid][1]), hx(g)))
    mod = fw.run_lines(drv, ml)
    for did, (cid, what, g, exp, nt) in dmeta.items():
        run.evaluations += 1
        run.count(meta[cid]['codec'] + ':' + what.split('@')[0].split('[')[0].rstrip('0123456789-'))
        o = parse(got.get(did, '(missing)'))
        case = {'base': meta[cid], 'damage': what, 'file_len': len(g)}
        if tag(o) != 'obs':
            run.fail('impl-' + str(tag(o)), 'outcome %s' % show(o)[:100], case)
            continue
        if exp[0] == 'open-err':
            obs = ('open-err', [], None) if tag(o[1]) == 'open-err' else ('ok', None, None)
        else:
            items = o[2][1:]
            oks = []
            end = 'clean'
            late = 0
            for x in items:
                if tag(x) == 'ok' and end == 'clean':
                    oks.append(show(canon(x[1])))
                elif tag(x) == 'ok':
                    late += 1           # a caller that keeps iterating after Some(Err(_)) (a plain for loop does)
                else:
                    end = 'err'
            obs = ('ok' if tag(o[1]) == 'ok' else 'open-err', oks, end)
            # the deserializing iterator (into_deser_iter) over the same bytes: same number of values, same kind of end
            if len(o) > 3 and tag(o[3]) == 'deser':
                dn, dend, dlate = int(o[3][1]), o[3][2], int(o[3][3])
                run.count('deser-iter:' + dend)
                if dlate:
                    run.fail('values-after-error', '%s: the deserializing iterator delivered %d values AFTER its error' % (what, dlate), case)
                    continue
                if (dn, dend) != (len(oks), 'clean' if end == 'clean' else 'err'):
                    run.fail('deser-iterator-differs', '%s: Reader delivers %d values and ends %s, into_deser_iter delivers %d and ends %s' % (what, len(oks), end, dn, dend), case)
                    continue
            if late:
                run.fail('values-after-error', '%s: %d values were delivered AFTER the error was reported (the reader must stop)' % (what, late), case)
                continue
        if obs != exp:
            if exp[0] == 'ok' and obs[0] == 'ok' and obs[1] == exp[1] and exp[2] == 'err' and obs[2] == 'clean':
                cls = 'damage-not-reported'
            elif exp[0] == 'ok' and obs[0] == 'ok' and obs[1] != exp[1]:
                cls = 'not-a-true-prefix'
            else:
                cls = 'wrong-outcome'
            run.fail(cls, '%s: delivered %d values end=%s, expected %d values end=%s (open: %s vs %s)' % (
                what, len(obs[1] or []), obs[2], len(exp[1]), exp[2], obs[0], exp[0]), case)
        elif nt:
            run.nontrivial_case(cid + what)
        if did in mod:
            m = parse(mod[did])
            if tag(m) == 'open-err':
                mobs = ('open-err', [], None)
            elif tag(m) == 'ok':
                mobs = ('ok', [show(canon(x)) for x in m[2][1:]], 'clean' if m[3] == 'clean' else 'err')
            else:
                mobs = (show(m)[:50], [], None)
            if mobs != obs:
                run.disagree('cread', case, '%s %d %s' % (obs[0], len(obs[1] or []), obs[2]), '%s %d %s' % (mobs[0], len(mobs[1]), mobs[2]))
    run.sample({'files': [dict(meta[c], length=len(info[c][0])) for c in list(info)[:6]]})

def run(tier, seed):
    run_ = fw.Run(PROP, tier, seed)
    run_.proof = fw.proof_step(PROP, THEOREMS)
    exe = fw.build_harness()
    drv = fw.build_ocaml()
    lines, meta = gen_files(tier, seed)
    evaluate(run_, lines, meta, exe, drv)
    run_.extra['exhaustive'] = True
    return fw.finish(run_, 'theorems C14_* (any blocks, any cut, any marker alteration) + exhaustive damage sweep', RULE, search)

def search(run_):
    exe = fw.build_harness()
    drv = fw.build_ocaml()
    r2 = fw.Run(PROP, 'thorough', run_.seed + 1)
    lines, meta = gen_files('quick', run_.seed + 1)
    evaluate(r2, lines, meta, exe, drv)
    return r2.failures

def replay(rp):
    print(rp.get('failure'))
    return 0
