"""C07 - values accepted by validation are written readably; rejected ones write nothing.
Theorems: coq/Props/C07.v.  Check: canonical values and systematic non-canonical variants (bare value
in a union position, string for enum, int for long, float for double, bytes for fixed/decimal/uuid,
fixed for decimal/duration, missing / reordered / duplicated record fields, map for record,
out-of-range enum index, inconsistent fixed length) plus near-miss rejected values, through the
datum writer, the single-object writer and the container writer."""
import json
import framework as fw
from rng import Rng
from sx import parse, show, hx, unhx, tag
from schemas import gen_case_schema, schema_text
from values import canon

PROP = 'C07'
THEOREMS = ['C07_rejected_writes_nothing', 'C07_rejected_single_object', 'C07_rejected_container',
            'C07_accepted_canonical', 'C07_leaf_table', 'C07_bare_union_refuted', 'C07_enum_index_refuted',
            'C07_missing_field_refuted', 'C07_map_for_record_refuted', 'C07_bytes_for_decimal_refuted',
            'C07_fixed_for_decimal_refuted', 'C07_uuid_text_refuted']
CFG = '(cfg 536870912 56 80)'
RULE = ('generated (schema, canonical value) pairs x term-level mutations towards accepted-but-non-canonical and '
        'near-miss forms; three validating write paths. non-trivial = distinct mutated values that validation accepts')

def mutations(rng, t):
    """yield (name, mutated term) for one random position of the value term t"""
    nodes = []
    def walk(x, path):
        if isinstance(x, str):
            return
        nodes.append((path, x))
        for i, y in enumerate(x):
            walk(y, path + (i,))
    walk(t, ())
    def replace(root, path, new):
        if not path:
            return new
        r = list(root)
        r[path[0]] = replace(root[path[0]], path[1:], new)
        return r
    rng.shuffle(nodes)
    out = []
    for path, x in nodes[:6]:
        k = tag(x)
        m = []
        if k == 'union':
            m += [('bare-record-in-union' if tag(x[2]) in ('record', 'null') else 'bare-in-union', x[2]), ('union-index-oob', ['union', '99', x[2]])]
            # a null under every small index (Value::from(None) always says 0)
            m += [('union-null-at-index', ['union', str(j), ['null']]) for j in (0, 1, 2) if not (tag(x[2]) == 'null' and j == int(x[1]))]
        elif k == 'enum':
            m += [('string-for-enum', ['string', x[2]]), ('enum-index-oob', ['enum', '77', x[2]]),
                  ('enum-wrong-symbol', ['enum', x[1], hx('nope')])]
        elif k == 'long':
            z = int(x[1])
            if -2**31 <= z < 2**31:
                m.append(('int-for-long', ['int', x[1]]))
            m.append(('string-for-long', ['string', hx('x')]))
        elif k == 'int':
            m += [('long-for-int', ['long', x[1]])]
        elif k == 'double':
            m += [('float-for-double', ['float', str(int(x[1]) & 0xffffffff)]), ('int-for-double', ['int', '3'])]
        elif k == 'float':
            m += [('double-for-float', ['double', x[1]])]
        elif k in ('date', 'time-millis'):
            m += [('int-for-' + k, ['int', x[1]])]
        elif k in ('time-micros', 'timestamp-millis', 'timestamp-micros', 'timestamp-nanos',
                   'local-timestamp-millis', 'local-timestamp-micros', 'local-timestamp-nanos'):
            m += [('long-for-' + k, ['long', x[1]])]
        elif k == 'fixed':
            b = unhx(x[2])
            m += [('bytes-for-fixed', ['bytes', x[2]]), ('fixed-wrong-n', ['fixed', str(len(b) + 1), x[2]]),
                  ('fixed-short-payload', ['fixed', x[1], hx(b[:-1])]) if b else ('fixed-long-payload', ['fixed', x[1], hx(b'\x01')])]
        elif k == 'decimal':
            b = unhx(x[1])
            m += [('bytes-for-decimal', ['bytes', x[1]]), ('fixed-for-decimal', ['fixed', str(len(b)), x[1]]),
                  ('decimal-wider', ['decimal', hx(b'\x01' + b'\x00' * 40)])]
        elif k == 'uuid':
            b = unhx(x[1])
            h = b.hex()
            text = '%s-%s-%s-%s-%s' % (h[:8], h[8:12], h[12:16], h[16:20], h[20:])
            m += [('string-for-uuid', ['string', hx(text)]), ('bytes-for-uuid', ['bytes', x[1]]),
                  ('fixed-for-uuid', ['fixed', '16', x[1]]), ('long-text-for-uuid', ['string', hx('z' * 40)])]
        elif k == 'duration':
            raw = b''.join(int(v).to_bytes(4, 'little') for v in x[1:4])
            m += [('fixed-for-duration', ['fixed', '12', hx(raw)]), ('fixed12-short-for-duration', ['fixed', '12', hx(raw[:5])])]
        elif k == 'record':
            ents = x[1:]
            if ents:
                m.append(('record-drop-field', ['record'] + ents[:-1]))
                m.append(('record-drop-first', ['record'] + ents[1:]))
                m.append(('record-reordered', ['record'] + ents[::-1]))
                m.append(('record-duplicate-field', ['record'] + ents + [ents[0]]))
                m.append(('record-extra-field', ['record'] + ents + [['kv', hx('zz_extra'), ['null']]]))
            m.append(('map-for-record', ['map'] + ents))
        elif k == 'array':
            m.append(('array-with-bad-item', ['array'] + x[1:] + [['union', '99', ['null']]]))
        elif k == 'string':
            m.append(('bytes-for-string', ['bytes', x[1]]))
        elif k == 'bytes':
            m.append(('string-for-bytes', ['string', hx('s')]))
        elif k == 'null':
            m.append(('bool-for-null', ['boolean', '1']))
        for name, new in m:
            out.append((name, replace(t, path, new)))
    return out

NUM = {'int', 'long', 'date', 'time-millis', 'time-micros', 'timestamp-millis', 'timestamp-micros', 'timestamp-nanos',
       'local-timestamp-millis', 'local-timestamp-micros', 'local-timestamp-nanos'}
RAW = {'bytes', 'fixed', 'uuid', 'decimal'}

def _payload(t):
    return unhx(t[2]) if tag(t) == 'fixed' else unhx(t[1])

def _f64(t):
    import struct
    if tag(t) == 'double':
        return int(t[1])
    return struct.unpack('<Q', struct.pack('<d', struct.unpack('<f', struct.pack('<I', int(t[1])))[0]))[0] if not _isnan32(int(t[1])) else None

def _isnan32(b):
    return (b & 0x7f800000) == 0x7f800000 and (b & 0x7fffff) != 0

def same_info(a, d, drop=False):
    """does the decoded value d carry the same information as the (possibly non-canonical) input a?
    drop=True: a bare record in a union may additionally have lost fields (known finding F39)"""
    if drop:
        return _same_info_drop(a, d)
    ka, kd = tag(a), tag(d)
    if kd == 'union':
        if ka == 'union':
            return a[1] == d[1] and same_info(a[2], d[2])
        return same_info(a, d[2])
    if ka == 'union':
        return False
    if ka in NUM and kd in NUM:
        return int(a[1]) == int(d[1])
    if ka in ('float', 'double') and kd in ('float', 'double'):
        if ka == kd:
            return a[1] == d[1]
        fa, fd = _f64(a), _f64(d)
        return fa is None or fd is None or fa == fd          # NaN payloads are not compared across widths
    if ka in RAW and kd in RAW:
        from schemas import minimal
        if ka == 'decimal' and kd == 'decimal':
            return minimal(_payload(a)) == minimal(_payload(d))
        return _payload(a) == _payload(d)
    if ka == 'string' and kd == 'enum':
        return a[1] == d[2]
    if ka == 'enum' and kd == 'enum':
        return a[2] == d[2]
    if ka == 'string' and kd == 'uuid':
        txt = unhx(a[1]).decode('utf-8', 'replace').replace('-', '').lower()
        return txt == unhx(d[1]).hex()
    if ka == 'duration' and kd == 'duration':
        return a[1:] == d[1:]
    if ka == 'fixed' and kd == 'duration':
        raw = b''.join(int(v).to_bytes(4, 'little') for v in d[1:4])
        return _payload(a) == raw
    if ka == 'array' and kd == 'array':
        return len(a) == len(d) and all(same_info(x, y) for x, y in zip(a[1:], d[1:]))
    if ka in ('map', 'record') and kd in ('map', 'record'):
        da = {e[1]: e[2] for e in a[1:]}
        dd = {e[1]: e[2] for e in d[1:]}
        return set(da) == set(dd) and all(same_info(da[k], dd[k]) for k in da)
    return show(a) == show(d)

def _same_info_drop(a, d):
    ka, kd = tag(a), tag(d)
    if ka == 'record' and kd == 'union' and tag(d[2]) == 'record':
        da = {e[1]: e[2] for e in a[1:]}
        dd = {e[1]: e[2] for e in d[2][1:]}
        return set(dd) <= set(da) and all(_same_info_drop(da[k], dd[k]) for k in dd)
    if ka == 'union' and kd == 'union':
        return a[1] == d[1] and _same_info_drop(a[2], d[2])
    if ka == 'array' and kd == 'array':
        return len(a) == len(d) and all(_same_info_drop(x, y) for x, y in zip(a[1:], d[1:]))
    if ka in ('map', 'record') and kd in ('map', 'record'):
        da = {e[1]: e[2] for e in a[1:]}
        dd = {e[1]: e[2] for e in d[1:]}
        return set(da) == set(dd) and all(_same_info_drop(da[k], dd[k]) for k in da)
    return same_info(a, d)

def sibling_union_case(r):
    """a union of record variants with overlapping field names (optionally inside an array or a record field)
    and a bare record value of one of the variants: the encoder has to try the variants in turn"""
    nv = r.choice([2, 2, 3, 4])
    pool = ['id', 'name', 'score', 'tag', 'n']
    types = {'id': 'long', 'name': 'string', 'score': 'double', 'tag': 'bytes', 'n': 'int'}
    vals = {'id': lambda: '(long %d)' % r.choice([0, 1, -1, 64, 1 << 40]), 'name': lambda: '(string %s)' % hx(r.choice(['', 'x', 'hello'])),
            'score': lambda: '(double %d)' % r.choice([0, 4607182418800017408]), 'tag': lambda: '(bytes %s)' % hx(bytes([r.below(256)]).decode('latin1')) if False else '(bytes #%02x)' % r.below(256),
            'n': lambda: '(int %d)' % r.choice([0, 7, -3])}
    variants = []
    seen = set()
    for j in range(nv):
        for _ in range(10):
            k = r.choice([1, 2, 2, 3])
            fs = ['id'] if r.chance(3, 4) else []
            rest = [x for x in pool if x not in fs]
            r.shuffle(rest)
            fs = fs + rest[:k]
            if tuple(fs) not in seen:
                seen.add(tuple(fs))
                break
        variants.append(fs)
    branches = [{'type': 'record', 'name': 'V%d' % j, 'fields': [{'name': f, 'type': types[f]} for f in fs]} for j, fs in enumerate(variants)]
    if r.chance(1, 3):
        branches.insert(r.below(len(branches) + 1), 'null')
    pick = r.choice([j for j, b in enumerate(branches) if b != 'null'])
    fs = [f['name'] for f in branches[pick]['fields']]
    rec = '(record%s)' % ''.join(' (kv %s %s)' % (hx(f), vals[f]()) for f in fs)
    shape = r.below(3)
    if shape == 0:
        return json.dumps(branches), rec
    if shape == 1:
        return json.dumps({'type': 'array', 'items': branches}), '(array %s (union %d %s))' % (rec, pick, rec)
    return (json.dumps({'type': 'record', 'name': 'Outer', 'fields': [{'name': 'a', 'type': 'int'}, {'name': 'ev', 'type': branches}]}),
            '(record (kv #61 (int 5)) (kv #6576 %s))' % rec)

def gen_cases(tier, seed):
    rng = Rng(seed)
    n = 300 if tier == 'quick' else 12000
    lines, meta = [], {}
    k = 0
    for i in range(n // 4):
        r = rng.fork(1000000 + i)
        st, v = sibling_union_case(r)
        cid = 'v%d' % k; k += 1
        lines.append('%s (vw %s %s)' % (cid, hx(st), v))
        meta[cid] = (st, v, 'bare-record-in-union')
    # values whose encoding is zero bytes wide, and values of one byte: every writer must still write them
    for st, v in [('"null"', '(null)'), ('{"type":"record","name":"E0","fields":[]}', '(record)'),
                  ('{"type":"record","name":"N2","fields":[{"name":"a","type":"null"},{"name":"b","type":"null"}]}', '(record (kv #61 (null)) (kv #62 (null)))'),
                  ('{"type":"fixed","name":"F0","size":0}', '(fixed 0 #)'),
                  ('{"type":"record","name":"W","fields":[{"name":"e","type":{"type":"record","name":"E1","fields":[]}},{"name":"f","type":{"type":"fixed","name":"F00","size":0}}]}', '(record (kv #65 (record)) (kv #66 (fixed 0 #)))'),
                  ('"boolean"', '(boolean 0)'), ('["null","int"]', '(union 0 (null))'), ('{"type":"array","items":"null"}', '(array)')]:
        cid = 'v%d' % k; k += 1
        lines.append('%s (vw %s %s)' % (cid, hx(st), v))
        meta[cid] = (st, v, 'canonical')
    # a null carried under the index of another branch (what Value::from(None::<T>) produces for [T, "null"])
    for st in ['["string","null"]', '["int","null","string"]',
               '{"type":"record","name":"O","fields":[{"name":"a","type":["string","null"]},{"name":"b","type":"long"}]}',
               '{"type":"array","items":["long","null"]}']:
        inner = {'["string","null"]': '%s', '["int","null","string"]': '%s',
                 '{"type":"record","name":"O","fields":[{"name":"a","type":["string","null"]},{"name":"b","type":"long"}]}': '(record (kv #61 %s) (kv #62 (long 9)))',
                 '{"type":"array","items":["long","null"]}': '(array %s (union 0 (long 3)))'}[st]
        for j in (0, 1, 2):
            cid = 'v%d' % k; k += 1
            v = inner % ('(union %d (null))' % j)
            lines.append('%s (vw %s %s)' % (cid, hx(st), v))
            meta[cid] = (st, v, 'union-null-at-index')
    for i in range(n):
        r = rng.fork(i)
        node, _ = gen_case_schema(r, max_depth=r.choice([1, 2, 2, 3]))
        st = schema_text(node)
        v = node.gen(r, 0)
        cands = [('canonical', parse(v))] + mutations(r, parse(v))
        for name, t in cands[:14]:
            cid = 'v%d' % k; k += 1
            lines.append('%s (vw %s %s)' % (cid, hx(st), show(t)))
            meta[cid] = (st, show(t), name)
    return lines, meta

def classify(name, st):
    """known-finding class of an accepted-but-mishandled mutation"""
    table = {'bare-in-union': 'bare-value-in-union', 'enum-index-oob': 'enum-index-out-of-range-with-default',
             'record-drop-field': 'record-missing-nullable-field', 'record-drop-first': 'record-missing-nullable-field',
             'map-for-record': 'map-for-record', 'bytes-for-decimal': 'bytes-for-decimal',
             'fixed-for-decimal': 'fixed-for-decimal', 'long-text-for-uuid': 'non-uuid-text-for-uuid',
             'string-for-uuid': 'non-uuid-text-for-uuid', 'decimal-wider': 'decimal-wider-than-fixed',
             'fixed12-short-for-duration': 'fixed-length-inconsistent', 'fixed-short-payload': 'fixed-length-inconsistent',
             'fixed-long-payload': 'fixed-length-inconsistent', 'fixed-wrong-n': 'fixed-length-inconsistent'}
    return table.get(name)

def evaluate(run, lines, meta, exe, drv):
    impl = fw.run_lines(exe, lines)
    mlines, parsed = [], {}
    for cid, (st, v, name) in meta.items():
        run.evaluations += 1
        o = parse(impl.get(cid, '(missing)'))
        if tag(o) in ('schema-err', 'bad-case'):
            run.count('skipped:' + str(tag(o)))
            continue
        case = {'schema': st, 'value': v, 'mutation': name}
        if tag(o) != 'obs':
            run.fail('impl-' + str(tag(o)), 'outcome %s' % show(o)[:160], case)
            continue
        parsed[cid] = o
        mlines.append('%s (vw %s %s %s)' % (cid, CFG, show(o[1]), show(o[2])))
    model = fw.run_lines(drv, mlines)
    for cid, o in parsed.items():
        st, v, name = meta[cid]
        case = {'schema': st, 'value': v, 'mutation': name}
        valid, resolved, datum, dec, so, cont, cread = o[3], o[4], o[5], o[6], o[7], o[8], o[9]
        # a known finding is a behaviour of the modelled (unchanged) code: validation and the written bytes must be
        # the ones the faithful model gives, otherwise the failure is reported unclassified
        m0 = parse(model.get(cid, '(missing)'))
        faithful = tag(m0) == 'ok' and (m0[1][1] if tag(m0[1]) == 'ok' else tag(m0[1])) == valid and \
            tag(m0[3]) == tag(datum) and (tag(datum) != 'ok' or m0[3][1] == datum[1])
        if tag(m0) == 'unresolvable' and tag(valid) == 'panic' and all(tag(x) in ('writer-err', 'err') for x in (datum, so, cont)) \
                and fw.null_ns_schema(st):
            # the names of the schema do not resolve (null-namespace type nested in a namespaced one, F19 / F26): Value::validate
            # panics as its documentation says, no writer can be built; the faithful model agrees that resolution fails
            run.fail('unresolvable-reference-accepted', 'the parser accepted the schema but its references do not resolve: Value::validate panics (documented), no writer can be built', case)
            continue
        if tag(valid) == 'panic' or any(tag(x) == 'panic' for x in (datum, so, cont)):
            run.fail('panic', 'validation or a writer panicked', case)
            continue
        run.count('%s:%s' % (name, 'accepted' if valid == '1' else 'rejected'))
        if valid == '1':
            want = canon(resolved[1], True) if tag(resolved) == 'ok' else None
            bad = None
            other_writer = False
            if tag(datum) != 'ok':
                bad = 'accepted by validation but the datum writer returns an error'
            elif tag(dec) != 'ok' or dec[2] != '#':
                bad = 'accepted, written as %s, but that does not decode as one datum (%s)' % (datum[1][:60], show(dec)[:60])
            elif not same_info(parse(v), dec[1]):
                bad = 'accepted, but reads back as %s (Value::resolve gives %s)' % (show(dec[1])[:100], show(resolved)[:100])
            elif tag(so) != 'ok' or not so[1].endswith(datum[1][1:]):
                bad, other_writer = 'single-object writer disagrees with the datum writer (%s)' % show(so)[:60], True
            elif tag(cont) != 'ok' or tag(cread) != 'items' or len(cread) != 2 or tag(cread[1]) != 'ok' or canon(cread[1][1], True) != canon(dec[1], True):
                bad, other_writer = 'container writer/reader disagrees with the datum writer (%s / %s)' % (show(cont)[:40], show(cread)[:80]), True
            if bad and other_writer:
                # the datum path is fine and another writer disagrees with it: never a known class (the classes below are
                # about what the datum writer does with an accepted value, which the faithful model reproduces)
                run.fail('writers-disagree:' + name, bad, case)
            elif bad:
                cls = classify(name, st) if faithful else None
                if cls is None and faithful and tag(dec) == 'ok' and dec[2] == '#' and same_info(parse(v), dec[1], drop=True):
                    cls = 'bare-record-encoded-as-earlier-variant'
                if cls is None and faithful and name == 'bare-record-in-union' and tag(datum) == 'ok':
                    # same defect, other symptom: the fields were written under the earlier variant's field schemas and the
                    # bytes do not decode (or decode to something unrelated); the faithful model writes the same bytes
                    cls = 'bare-record-encoded-as-earlier-variant'
                run.fail(cls or ('accepted-not-written:' + name), bad, case)
            else:
                if name != 'canonical':
                    run.nontrivial_case(st + v)
                    run.sample({'schema': st[:90], 'value': v[:90], 'mutation': name, 'reads_back': show(dec[1])[:90]}, limit=8)
        else:
            # rejected: every validating path errors and not a byte of the value reaches the output
            if tag(datum) == 'ok' or datum[1] != '#':
                run.fail('rejected-but-written', 'datum writer: %s' % show(datum)[:80], case)
            elif tag(so) == 'ok' or so[1] != '#':
                run.fail('rejected-but-written', 'single-object writer wrote %s' % show(so)[:80], case)
            elif tag(cont) == 'ok' or (tag(cread) == 'items' and len(cread) > 1):
                run.fail('rejected-but-written', 'container writer: %s %s' % (show(cont)[:40], show(cread)[:60]), case)
        # correspondence with the model
        m = parse(model.get(cid, '(missing)'))
        if tag(m) != 'ok':
            run.disagree('vw', case, 'obs', show(m)[:120])
            continue
        mv = m[1][1] if tag(m[1]) == 'ok' else tag(m[1])
        if mv != valid:
            run.disagree('validate', case, valid, show(m[1])[:60])
        if tag(m[2]) != tag(resolved) or (tag(resolved) == 'ok' and canon(m[2][1], True) != canon(resolved[1], True)):
            run.disagree('resolve', case, show(resolved)[:200], show(m[2])[:200])
        if tag(m[3]) != tag(datum) or (tag(datum) == 'ok' and m[3][1] != datum[1]):
            run.disagree('write', case, show(datum)[:200], show(m[3])[:200])

def run(tier, seed):
    run_ = fw.Run(PROP, tier, seed)
    run_.proof = fw.proof_step(PROP, THEOREMS)
    exe = fw.build_harness()
    drv = fw.build_ocaml()
    lines, meta = gen_cases(tier, seed)
    evaluate(run_, lines, meta, exe, drv)
    return fw.finish(run_, 'theorems C07_* + differential check of validation / resolution / three writers', RULE, search)

def search(run_):
    exe = fw.build_harness()
    drv = fw.build_ocaml()
    r2 = fw.Run(PROP, run_.tier, run_.seed + 1)
    lines, meta = gen_cases('quick', run_.seed + 1)
    evaluate(r2, lines, meta, exe, drv)
    return r2.failures

def replay(rp):
    f = rp.get('failure')
    print(f)
    if f:
        exe = fw.build_harness()
        print(fw.run_lines(exe, ['r0 (vw %s %s)' % (hx(f['case']['schema']), f['case']['value'])]))
    return 0
