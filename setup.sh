#!/bin/sh
# Builds the whole framework offline from files on disk: Coq development (full .vo build),
# extracted model + OCaml driver, Rust harness against /repo's current working tree.
set -e
cd "$(dirname "$0")"
export CARGO_NET_OFFLINE=true
[ -f harness/Cargo.lock ] || cp /repo/Cargo.lock harness/Cargo.lock
exec ./check setup
