From Coq Require Import List ZArith NArith Lia Bool Arith.
Import ListNotations.
Notation byte := N (only parsing).
Notation bytes := (list N) (only parsing).

Section Trunc.
(* varint layer abstracted by the three laws the truncation theorem needs *)
Variable enc : nat -> bytes.
Variable dec : bytes -> option (nat * bytes).
Hypothesis enc_nonempty : forall n, enc n <> [].
Hypothesis dec_enc : forall n rest, dec (enc n ++ rest) = Some (n, rest).
Hypothesis dec_prefix : forall n j, j < length (enc n) -> dec (firstn j (enc n)) = None.
Variable marker : bytes.
Hypothesis marker_len : length marker = 16.
Variable bytes_eqb : bytes -> bytes -> bool.
Hypothesis bytes_eqb_spec : forall a b, bytes_eqb a b = true <-> a = b.

Record block := { cnt : nat; payload : bytes }.
Definition enc_block (b : block) : bytes := enc (cnt b) ++ enc (length (payload b)) ++ payload b ++ marker.

Inductive status := Clean | Error.
(* reader/block.rs:143-176 (with the mid-varint EOF reported as an error) *)
Fixpoint read (fuel : nat) (bs : bytes) : list (nat * bytes) * status :=
  match fuel with O => ([], Error) | S f =>
  match bs with [] => ([], Clean) | _ =>
  match dec bs with None => ([], Error) | Some (c, r) =>
  match dec r with None => ([], Error) | Some (sz, r') =>
    if length r' <? sz + 16 then ([], Error) else
    if bytes_eqb (firstn 16 (skipn sz r')) marker then
      let '(vs, st) := read f (skipn (sz + 16) r') in ((c, firstn sz r') :: vs, st)
    else ([], Error) end end end end.

Definition file (bl : list block) : bytes := concat (map enc_block bl).

(* what a cut at k should deliver *)
Fixpoint expected (bl : list block) (k : nat) : list (nat * bytes) * status :=
  match bl with
  | [] => ([], Clean)
  | b :: bl' =>
    let n := length (enc_block b) in
    if k =? 0 then ([], Clean)
    else if k <? n then ([], Error)
    else let '(vs, st) := expected bl' (k - n) in ((cnt b, payload b) :: vs, st)
  end.

Lemma firstn_app_le {A} (l1 l2 : list A) j : j <= length l1 -> firstn j (l1 ++ l2) = firstn j l1.
Proof. intros. rewrite firstn_app. replace (j - length l1) with 0 by lia. cbn. apply app_nil_r. Qed.
Lemma firstn_app_ge {A} (l1 l2 : list A) j : length l1 <= j -> firstn j (l1 ++ l2) = l1 ++ firstn (j - length l1) l2.
Proof. intros. rewrite firstn_app. rewrite firstn_all2 by lia. reflexivity. Qed.

(* a strict, non-empty prefix of one encoded block is an error *)
Lemma partial_block_error : forall f b j, 0 < j < length (enc_block b) ->
  read (S f) (firstn j (enc_block b)) = ([], Error).
Proof.
  intros f b j [Hj0 Hj]. unfold enc_block in *.
  assert (Hc0 : 0 < length (enc (cnt b))) by (pose proof (enc_nonempty (cnt b)); destruct (enc (cnt b)); [congruence|cbn; lia]).
  set (c := enc (cnt b)) in *. set (s := enc (length (payload b))) in *. set (p := payload b) in *.
  cbn [read].
  destruct (firstn j (c ++ s ++ p ++ marker)) as [|x xs] eqn:Hfn.
  { exfalso. apply (f_equal (@length _)) in Hfn. rewrite firstn_length in Hfn. cbn [length] in Hfn.
    rewrite !app_length in *. lia. }
  rewrite <- Hfn. clear Hfn x xs.
  destruct (le_lt_dec (length c) j) as [Hc|Hc].
  2:{ rewrite firstn_app_le by lia. unfold c. rewrite dec_prefix by (fold c; lia). reflexivity. }
  rewrite firstn_app_ge by lia. unfold c at 1. rewrite dec_enc. fold c.
  set (j1 := j - length c).
  destruct (le_lt_dec (length s) j1) as [Hs|Hs].
  2:{ rewrite firstn_app_le by lia. unfold s. rewrite dec_prefix by (fold s; lia). reflexivity. }
  rewrite firstn_app_ge by lia. unfold s at 1. rewrite dec_enc. fold s.
  set (j2 := j1 - length s).
  assert (Hlt : length (firstn j2 (p ++ marker)) < length p + 16).
  { rewrite firstn_length, app_length, marker_len. rewrite !app_length, marker_len in Hj. subst j2 j1. lia. }
  fold p. apply Nat.ltb_lt in Hlt. rewrite Hlt. reflexivity.
Qed.

Lemma whole_block_step : forall f b rest,
  read (S f) (enc_block b ++ rest) =
    let '(vs, st) := read f rest in ((cnt b, payload b) :: vs, st).
Proof.
  intros f b rest. unfold enc_block.
  cbn [read].
  destruct ((enc (cnt b) ++ enc (length (payload b)) ++ payload b ++ marker) ++ rest) as [|x xs] eqn:He.
  { exfalso. pose proof (enc_nonempty (cnt b)). destruct (enc (cnt b)); [congruence|discriminate]. }
  rewrite <- He. clear He x xs.
  rewrite <- !app_assoc. rewrite dec_enc, dec_enc.
  assert (Hlen : (length (payload b ++ marker ++ rest) <? length (payload b) + 16) = false).
  { apply Nat.ltb_ge. rewrite !app_length, marker_len. lia. }
  rewrite Hlen.
  rewrite skipn_app, skipn_all, Nat.sub_diag. cbn [skipn app].
  assert (E1 : firstn 16 (marker ++ rest) = marker).
  { rewrite <- marker_len. rewrite firstn_app_le by lia. apply firstn_all. }
  rewrite E1.
  assert (Hm : bytes_eqb marker marker = true) by (apply bytes_eqb_spec; reflexivity). rewrite Hm.
  assert (E2 : skipn (length (payload b) + 16) (payload b ++ marker ++ rest) = rest).
  { rewrite <- marker_len, <- app_length, app_assoc.
    rewrite skipn_app, skipn_all, Nat.sub_diag. reflexivity. }
  assert (E3 : firstn (length (payload b)) (payload b ++ marker ++ rest) = payload b).
  { rewrite firstn_app_le by lia. apply firstn_all. }
  rewrite E2, E3. reflexivity.
Qed.

Theorem cut_anywhere : forall bl k f, length bl < f -> k <= length (file bl) ->
  read f (firstn k (file bl)) = expected bl k.
Proof.
  induction bl as [|b bl IH]; intros k f Hf Hk.
  - cbn in *. destruct f; [lia|]. replace k with 0 by lia. reflexivity.
  - destruct f as [|f]; [lia|]. cbn [length] in Hf.
    unfold file in *. cbn [map concat] in *. cbn [expected].
    destruct (Nat.eqb_spec k 0) as [->|Hk0]. { reflexivity. }
    destruct (Nat.ltb_spec k (length (enc_block b))) as [Hlt|Hge].
    + rewrite firstn_app_le by lia. apply partial_block_error. lia.
    + rewrite firstn_app_ge by lia. rewrite whole_block_step.
      rewrite IH; [reflexivity|lia|]. rewrite app_length in Hk. lia.
Qed.
End Trunc.
Print Assumptions cut_anywhere.
