From Coq Require Import List ZArith NArith Lia Bool.
Import ListNotations.

Notation byte := N (only parsing).
Notation bytes := (list N) (only parsing).

Inductive res (A : Type) := Ok (a : A) | Err | OutOfFuel.
Arguments Ok {A}. Arguments Err {A}. Arguments OutOfFuel {A}.
Definition bind {A B} (r : res A) (k : A -> res B) : res B :=
  match r with Ok a => k a | Err => Err | OutOfFuel => OutOfFuel end.
Notation "'do' x <- r ; k" := (bind r (fun x => k)) (at level 200, x pattern, r at level 100, k at level 200).

Inductive schema :=
| SLong | SArray (s : schema) | SRecord (fs : list schema) | SUnion (bs : list schema) | SRef (n : nat).
Inductive value :=
| VLong (z : Z) | VArray (l : list value) | VRecord (l : list value) | VUnion (i : nat) (v : value).

Section Core.
Variable enc_long : Z -> bytes.
Variable dec_long : bytes -> option (Z * bytes).
Hypothesis long_rt : forall z rest, (- 2^63 <= z < 2^63)%Z -> dec_long (enc_long z ++ rest) = Some (z, rest).
Hypothesis enc_long_0 : enc_long 0 = [0%N].
Hypothesis enc_long_nonempty : forall z, enc_long z <> [].
Hypothesis dec_long_shrinks : forall bs z r, dec_long bs = Some (z, r) -> length r < length bs.
Variable names : list schema.
Definition deref (s : schema) : option schema :=
  match s with SRef n => match nth_error names n with Some (SRef _) => None | o => o end | _ => Some s end.
Definition in_i64 (z : Z) := ((- 2^63 <=? z) && (z <? 2^63))%Z.

(* list helpers, parameterised by the element function *)
Fixpoint enc_list (e : value -> res bytes) (l : list value) : res bytes :=
  match l with [] => Ok [] | x :: xs => do a <- e x; do b <- enc_list e xs; Ok (a ++ b) end.
Fixpoint enc_fields (e : schema -> value -> res bytes) (fs : list schema) (l : list value) : res bytes :=
  match fs, l with
  | [], [] => Ok []
  | s :: fs, x :: xs => do a <- e s x; do b <- enc_fields e fs xs; Ok (a ++ b)
  | _, _ => Err end.

Fixpoint encode (fuel : nat) (s : schema) (v : value) {struct fuel} : res bytes :=
  match fuel with O => OutOfFuel | S f =>
  match deref s with None => Err | Some s =>
  match s, v with
  | SLong, VLong z => if in_i64 z then Ok (enc_long z) else Err
  | SArray it, VArray l =>
      match l with
      | [] => Ok [0%N]
      | _ => if in_i64 (Z.of_nat (length l)) then
               do b <- enc_list (encode f it) l; Ok (enc_long (Z.of_nat (length l)) ++ b ++ [0%N])
             else Err
      end
  | SRecord fs, VRecord l => enc_fields (encode f) fs l
  | SUnion bs, VUnion i x =>
      match nth_error bs i with None => Err | Some b =>
        if in_i64 (Z.of_nat i) then do a <- encode f b x; Ok (enc_long (Z.of_nat i) ++ a) else Err end
  | _, _ => Err
  end end end.

Fixpoint dec_items (d : bytes -> res (value * bytes)) (n : nat) (bs : bytes) : res (list value * bytes) :=
  match n with O => Ok ([], bs) | S n' => do (x, r) <- d bs; do (xs, r') <- dec_items d n' r; Ok (x :: xs, r') end.
Fixpoint dec_blocks (d : bytes -> res (value * bytes)) (g : nat) (bs : bytes) : res (list value * bytes) :=
  match g with O => OutOfFuel | S g' =>
  match dec_long bs with None => Err | Some (c, r) =>
    if (c =? 0)%Z then Ok ([], r) else if (c <? 0)%Z then Err else
    do (xs, r') <- dec_items d (Z.to_nat c) r; do (ys, r'') <- dec_blocks d g' r'; Ok (xs ++ ys, r'') end end.
Fixpoint dec_fields (d : schema -> bytes -> res (value * bytes)) (fs : list schema) (bs : bytes) : res (list value * bytes) :=
  match fs with [] => Ok ([], bs) | s :: fs' => do (x, r) <- d s bs; do (xs, r') <- dec_fields d fs' r; Ok (x :: xs, r') end.

Fixpoint decode (fuel : nat) (s : schema) (bs : bytes) {struct fuel} : res (value * bytes) :=
  match fuel with O => OutOfFuel | S f =>
  match deref s with None => Err | Some s =>
  match s with
  | SLong => match dec_long bs with Some (z, r) => Ok (VLong z, r) | None => Err end
  | SArray it => do (l, r) <- dec_blocks (decode f it) (S (length bs)) bs; Ok (VArray l, r)
  | SRecord fs => do (l, r) <- dec_fields (decode f) fs bs; Ok (VRecord l, r)
  | SUnion brs =>
      match dec_long bs with None => Err | Some (i, r) =>
        if (i <? 0)%Z then Err else
        match nth_error brs (Z.to_nat i) with None => Err | Some b =>
          do (x, r') <- decode f b r; Ok (VUnion (Z.to_nat i) x, r') end end
  | SRef _ => Err
  end end end.

(* ---- round trip ---- *)
Lemma in_i64_spec z : in_i64 z = true -> (- 2^63 <= z < 2^63)%Z.
Proof. unfold in_i64. rewrite andb_true_iff, Z.leb_le, Z.ltb_lt. tauto. Qed.

Lemma bind_ok {A B} (r : res A) (k : A -> res B) b : bind r k = Ok b -> exists a, r = Ok a /\ k a = Ok b.
Proof. destruct r; cbn; intros H; try discriminate. eauto. Qed.

Lemma items_rt (e : value -> res bytes) (d : bytes -> res (value * bytes)) :
  forall l b rest,
    (forall x a r, In x l -> e x = Ok a -> d (a ++ r) = Ok (x, r)) ->
    enc_list e l = Ok b -> dec_items d (length l) (b ++ rest) = Ok (l, rest).
Proof.
  induction l as [|x xs IH]; intros b rest Hd He; cbn in *.
  - inversion He; subst. reflexivity.
  - apply bind_ok in He as (a & Ha & He). apply bind_ok in He as (b' & Hb & He). inversion He; subst.
    rewrite <- app_assoc. rewrite (Hd x a _ (or_introl eq_refl) Ha). cbn.
    rewrite (IH b' rest); [reflexivity| |assumption]. intros; eapply Hd; eauto.
Qed.

Lemma fields_rt (e : schema -> value -> res bytes) (d : schema -> bytes -> res (value * bytes)) :
  forall fs l b rest,
    (forall s x a r, e s x = Ok a -> d s (a ++ r) = Ok (x, r)) ->
    enc_fields e fs l = Ok b -> dec_fields d fs (b ++ rest) = Ok (l, rest).
Proof.
  induction fs as [|s fs IH]; intros [|x xs] b rest Hd He; cbn in *; try discriminate.
  - inversion He; subst; reflexivity.
  - apply bind_ok in He as (a & Ha & He). apply bind_ok in He as (b' & Hb & He). inversion He; subst.
    rewrite <- app_assoc, (Hd _ _ _ _ Ha). cbn. rewrite (IH xs b' rest Hd Hb). reflexivity.
Qed.

Theorem roundtrip : forall fe s v bs, encode fe s v = Ok bs ->
  forall fd rest, fe <= fd -> decode fd s (bs ++ rest) = Ok (v, rest).
Proof.
  induction fe as [|f IH]; intros s v bs He fd rest Hfd; [discriminate|].
  destruct fd as [|g]; [lia|]. assert (Hfg : f <= g) by lia.
  cbn [encode decode] in *.
  destruct (deref s) as [s'|]; [|discriminate].
  destruct s' as [|it|fs|brs|n], v as [z|l|l|i x]; try discriminate.
  - (* long *)
    destruct (in_i64 z) eqn:Hz; [|discriminate]. inversion He; subst.
    rewrite long_rt by (apply in_i64_spec; assumption). reflexivity.
  - (* array *)
    destruct l as [|x xs].
    + inversion He; subst. cbn [app length dec_blocks].
      change (0%N :: rest) with ([0%N] ++ rest). rewrite <- enc_long_0, long_rt by lia.
      cbn. reflexivity.
    + remember (x :: xs) as l eqn:Hl.
      destruct (in_i64 (Z.of_nat (length l))) eqn:Hlen; [|discriminate].
      apply bind_ok in He as (b & Hb & He). inversion He; subst bs. clear He.
      assert (Hpos : (0 < Z.of_nat (length l))%Z) by (subst l; cbn [length]; lia).
      rewrite <- !app_assoc.
      cbn [dec_blocks]. rewrite long_rt by (apply in_i64_spec; assumption).
      assert (H0 : (Z.of_nat (length l) =? 0)%Z = false) by (apply Z.eqb_neq; lia).
      assert (H1 : (Z.of_nat (length l) <? 0)%Z = false) by (apply Z.ltb_ge; lia).
      rewrite H0, H1, Nat2Z.id.
      rewrite (items_rt (encode f it) (decode g it) l b ([0%N] ++ rest)); [|intros; eapply IH; eauto|assumption].
      cbn [bind].
      (* remaining fuel: length (enc_long n ++ b ++ [0] ++ rest) >= 1 *)
      destruct (enc_long (Z.of_nat (length l))) as [|e0 es] eqn:Hen; [exfalso; eapply enc_long_nonempty; eauto|].
      cbn [app length dec_blocks].
      change (0%N :: rest) with ([0%N] ++ rest). rewrite <- enc_long_0, long_rt by lia. cbn. rewrite app_nil_r. reflexivity.
  - (* record *)
    rewrite (fields_rt (encode f) (decode g) fs l bs rest); [reflexivity| |assumption].
    intros; eapply IH; eauto.
  - (* union *)
    destruct (nth_error brs i) as [b|] eqn:Hn; [|discriminate].
    destruct (in_i64 (Z.of_nat i)) eqn:Hi; [|discriminate].
    apply bind_ok in He as (a & Ha & He). inversion He; subst.
    rewrite <- app_assoc, long_rt by (apply in_i64_spec; assumption).
    assert (Hneg : (Z.of_nat i <? 0)%Z = false) by (apply Z.ltb_ge; lia). rewrite Hneg.
    rewrite Nat2Z.id, Hn. rewrite (IH _ _ _ Ha g rest Hfg). reflexivity.
Qed.
End Core.
Print Assumptions roundtrip.
