From Coq Require Import List ZArith NArith Lia ZifyN ZifyBool.
Import ListNotations.
Open Scope N_scope.
Ltac Zify.zify_post_hook ::= Z.div_mod_to_equations.

Definition byte := N.

(* encode_variable: util.rs:112 *)
Fixpoint enc_var (fuel : nat) (z : N) : list byte :=
  match fuel with
  | O => []
  | S f => if z <=? 127 then [z mod 128] else (128 + z mod 128) :: enc_var f (z / 128)
  end.

(* decode_variable: util.rs:138; j counts bytes read so far; acc accumulates mod 2^64 *)
Fixpoint dec_var (fuel : nat) (j : N) (acc : N) (bs : list byte) : option (N * list byte) :=
  match fuel with
  | O => None
  | S f =>
    if 9 <? j then None else
    match bs with
    | [] => None
    | b :: rest =>
      let acc' := (acc + (b mod 128) * 2 ^ (7 * j)) mod 2^64 in
      if b / 128 =? 0 then Some (acc', rest) else dec_var f (j + 1) acc' rest
    end
  end.

Lemma enc_dec_gen : forall fuel z j acc rest,
  z < 2 ^ (64 - 7 * j) -> 7 * j <= 63 -> acc < 2 ^ (7 * j) ->
  (N.to_nat (N.log2 z / 7) < fuel)%nat ->
  dec_var fuel j acc (enc_var fuel z ++ rest) = Some (acc + z * 2 ^ (7 * j), rest).
Proof.
  induction fuel as [|f IH]; intros z j acc rest Hz Hj Hacc Hf; [lia|].
  cbn [enc_var dec_var].
  assert (Hj9 : (9 <? j) = false) by (apply N.ltb_ge; lia).
  rewrite Hj9.
  destruct (z <=? 127) eqn:Hle.
  - apply N.leb_le in Hle. cbn [app].
    assert (Hm : (z mod 128) mod 128 = z) by (rewrite N.mod_mod by lia; apply N.mod_small; lia).
    rewrite Hm.
    assert (Hd : z mod 128 / 128 = 0) by (apply N.div_small; apply N.mod_lt; lia).
    rewrite Hd. rewrite N.eqb_refl.
    f_equal. f_equal.
    apply N.mod_small.
    assert (Hp : 2 ^ (7*j) * 2 ^ (64 - 7*j) = 2 ^ 64) by (rewrite <- N.pow_add_r; f_equal; lia).
    rewrite <- Hp.
    remember (2 ^ (7*j)) as P. remember (2 ^ (64 - 7*j)) as Q. nia.
  - apply N.leb_gt in Hle. cbn [app].
    assert (Hm : (128 + z mod 128) mod 128 = z mod 128).
    { pose proof (N.mod_lt z 128 ltac:(lia)) as Hlt.
      symmetry. apply (N.mod_unique _ _ 1); lia. }
    rewrite Hm.
    assert (Hd : (128 + z mod 128) / 128 =? 0 = false).
    { apply N.eqb_neq. intro H0. apply N.div_small_iff in H0; lia. }
    rewrite Hd.
    assert (Hpow : 2 ^ (7*j) * 2 ^ (64 - 7*j) = 2 ^ 64) by (rewrite <- N.pow_add_r; f_equal; lia).
    assert (H7 : 2 ^ (7 * (j+1)) = 2 ^ (7*j) * 128).
    { replace (7 * (j+1)) with (7*j + 7) by lia. rewrite N.pow_add_r. reflexivity. }
    assert (Hjlt : 7 * (j + 1) <= 63).
    { (* z >= 128 and z < 2^(64-7j) so 64-7j > 7 *)
      destruct (N.le_gt_cases (7 * (j+1)) 63) as [|Hgt]; [assumption|].
      exfalso. assert (64 - 7 * j <= 7) by lia.
      assert (2 ^ (64 - 7*j) <= 2 ^ 7) by (apply N.pow_le_mono_r; lia).
      change (2^7) with 128 in *. lia. }
    assert (Hsmall : (acc + z mod 128 * 2 ^ (7 * j)) mod 2 ^ 64 = acc + z mod 128 * 2 ^ (7 * j)).
    { apply N.mod_small.
      assert (z mod 128 < 128) by (apply N.mod_lt; lia).
      assert (2 ^ (7*j) * 128 <= 2 ^ 63).
      { rewrite <- H7. apply N.pow_le_mono_r; lia. }
      assert (2 ^ 63 < 2 ^ 64) by (apply N.pow_lt_mono_r; lia).
      nia. }
    rewrite Hsmall.
    rewrite IH.
    + f_equal. f_equal. rewrite H7.
      pose proof (N.div_mod z 128 ltac:(lia)). nia.
    + (* z/128 < 2^(64 - 7(j+1)) *)
      assert (Hsplit : 2 ^ (64 - 7*j) = 2 ^ (64 - 7*(j+1)) * 128).
      { replace (64 - 7*j) with (64 - 7*(j+1) + 7) by lia. rewrite N.pow_add_r. reflexivity. }
      apply N.div_lt_upper_bound; [lia|]. lia.
    + assumption.
    + rewrite H7. assert (z mod 128 < 128) by (apply N.mod_lt; lia). nia.
    + (* fuel *)
      assert (N.log2 (z / 128) = N.log2 z - 7).
      { change 128 with (2^7). rewrite <- N.shiftr_div_pow2. apply N.log2_shiftr. }
      assert (7 <= N.log2 z) by (change 7 with (N.log2 128); apply N.log2_le_mono; lia).
      assert ((N.log2 z - 7) / 7 = N.log2 z / 7 - 1).
      { replace (N.log2 z) with ((N.log2 z - 7) + 1 * 7) at 2 by lia. rewrite N.div_add by lia. lia. }
      assert (1 <= N.log2 z / 7) by (apply N.div_le_lower_bound; lia).
      lia.
Qed.

Theorem varint_roundtrip : forall z rest, z < 2^64 ->
  dec_var 10 0 0 (enc_var 10 z ++ rest) = Some (z, rest).
Proof.
  intros z rest Hz.
  rewrite enc_dec_gen; try (cbn; lia).
  - f_equal. f_equal. cbn. lia.
  - assert (N.log2 z < 64) by (destruct (N.eq_dec z 0) as [->|]; [cbn; lia| apply N.log2_lt_pow2; lia]).
    assert (N.log2 z / 7 <= 9) by (apply N.div_le_upper_bound; lia). lia.
Qed.
Print Assumptions varint_roundtrip.
