From Coq Require Import List ZArith NArith Lia Bool Arith.
Import ListNotations.
Notation bytes := (list N) (only parsing).

Section W.
Variable enc : nat -> bytes.
Variable marker header : bytes.
Variable block_size : nat.

Record wstate := { buf : bytes; nvals : nat; has_header : bool; sink : bytes }.
Inductive wop := Append (item : bytes) | Flush.

Definition maybe_header (st : wstate) : wstate :=
  if has_header st then st else {| buf := buf st; nvals := nvals st; has_header := true; sink := sink st ++ header |}.

(* writer/mod.rs:404-429 *)
Definition flush (st : wstate) : wstate :=
  let st := maybe_header st in
  if nvals st =? 0 then st else
  {| buf := []; nvals := 0; has_header := true;
     sink := sink st ++ enc (nvals st) ++ enc (length (buf st)) ++ buf st ++ marker |}.

(* writer/mod.rs:261-278 *)
Definition step (st : wstate) (o : wop) : wstate :=
  match o with
  | Flush => flush st
  | Append item =>
      let st := maybe_header st in
      let st := {| buf := buf st ++ item; nvals := S (nvals st); has_header := true; sink := sink st |} in
      if block_size <=? length (buf st) then flush st else st
  end.

Definition init := {| buf := []; nvals := 0; has_header := false; sink := [] |}.
Definition run (ops : list wop) := fold_left step ops init.
Definition finish (st : wstate) := flush st.   (* into_inner / Drop *)

(* abstract view *)
Definition items_of (ops : list wop) : list bytes :=
  flat_map (fun o => match o with Append i => [i] | Flush => [] end) ops.

Record block := { cnt : nat; payload : bytes }.
Definition enc_block (b : block) := enc (cnt b) ++ enc (length (payload b)) ++ payload b ++ marker.

(* invariant: the sink is header ++ well-formed blocks; flushed ++ pending = everything appended *)
Definition Inv (its : list bytes) (st : wstate) : Prop :=
  exists (bl : list block) (pending : list bytes),
    (has_header st = true -> sink st = header ++ concat (map enc_block bl)) /\
    (has_header st = false -> sink st = [] /\ bl = [] /\ pending = []) /\
    buf st = concat pending /\ nvals st = length pending /\
    Forall (fun b => 0 < cnt b) bl /\
    (exists groups : list (list bytes),
        map (fun g => {| cnt := length g; payload := concat g |}) groups = bl /\
        concat groups ++ pending = its).

Lemma inv_init : Inv [] init.
Proof. exists [], []. cbn. repeat split; try discriminate; auto. exists []. auto. Qed.

Lemma inv_flush its st : Inv its st -> Inv its (flush st) /\ nvals (flush st) = 0 /\ has_header (flush st) = true.
Proof.
  intros (bl & pend & Hs & Hn & Hb & Hc & Hpos & groups & Hg & Hi).
  unfold flush, maybe_header.
  destruct (has_header st) eqn:Hh.
  - destruct (nvals st =? 0) eqn:Hz.
    + apply Nat.eqb_eq in Hz. split; [|auto].
      exists bl, pend. rewrite Hh. repeat split; auto; try discriminate. exists groups; auto.
    + apply Nat.eqb_neq in Hz. cbn. split; [|auto].
      exists (bl ++ [{| cnt := length pend; payload := concat pend |}]), [].
      cbn. repeat split; try discriminate; auto.
      * intros _. rewrite (Hs eq_refl), map_app, concat_app. cbn. unfold enc_block. cbn.
        rewrite Hb, Hc, app_nil_r, <- !app_assoc. reflexivity.
      * apply Forall_app. split; auto. constructor; auto. cbn. lia.
      * exists (groups ++ [pend]). rewrite map_app, concat_app. cbn. rewrite Hg, !app_nil_r. auto.
  - destruct (Hn eq_refl) as (Hs0 & -> & ->). cbn in Hc. cbn [nvals buf sink has_header]. rewrite Hc. cbn. split; [|auto].
    exists [], []. cbn. repeat split; try discriminate; auto.
    + intros _. rewrite Hs0, app_nil_r. reflexivity.
    + exists groups. auto.
Qed.

Lemma inv_step its st o : Inv its st ->
  Inv (its ++ match o with Append i => [i] | Flush => [] end) (step st o).
Proof.
  intros HI. destruct o as [item|]; cbn [step].
  - (* append *)
    set (st1 := {| buf := buf (maybe_header st) ++ item; nvals := S (nvals (maybe_header st));
                   has_header := true; sink := sink (maybe_header st) |}).
    assert (H1 : Inv (its ++ [item]) st1).
    { destruct HI as (bl & pend & Hs & Hn & Hb & Hc & Hpos & groups & Hg & Hi).
      unfold st1, maybe_header. destruct (has_header st) eqn:Hh; cbn.
      - exists bl, (pend ++ [item]). cbn. repeat split; try discriminate; auto.
        + rewrite concat_app, Hb. cbn. rewrite app_nil_r. reflexivity.
        + rewrite app_length, Hc. cbn. lia.
        + exists groups. split; auto. rewrite app_assoc, Hi. reflexivity.
      - destruct (Hn eq_refl) as (Hs0 & -> & ->). cbn in Hb, Hc.
        assert (groups = []) by (destruct groups; [reflexivity|discriminate]). subst groups. cbn in Hi. subst its.
        exists [], [item]. cbn. rewrite Hs0, Hb, Hc. cbn. rewrite !app_nil_r.
        repeat split; try discriminate; auto. exists []. auto. }
    destruct (block_size <=? length (buf st1)); [apply inv_flush; exact H1|exact H1].
  - rewrite app_nil_r. apply inv_flush; exact HI.
Qed.

Theorem run_inv ops : Inv (items_of ops) (run ops).
Proof.
  unfold run, items_of.
  induction ops as [|o ops IH] using rev_ind; [apply inv_init|].
  rewrite fold_left_app, flat_map_app. cbn [fold_left flat_map]. rewrite app_nil_r.
  apply inv_step. exact IH.
Qed.

(* the file a finished history leaves: header, then blocks that partition exactly the appended items, in order *)
Theorem finished_file ops :
  exists groups : list (list bytes),
    sink (finish (run ops)) = header ++ concat (map (fun g => enc_block {| cnt := length g; payload := concat g |}) groups)
    /\ concat groups = items_of ops /\ Forall (fun g => g <> []) groups.
Proof.
  destruct (inv_flush _ _ (run_inv ops)) as ((bl & pend & Hs & _ & _ & Hc & Hpos & groups & Hg & Hi) & Hn0 & Hh).
  unfold finish. exists groups. rewrite (Hs Hh), <- Hg, map_map. split; [reflexivity|]. split.
  - rewrite Hn0 in Hc. destruct pend; [|discriminate]. rewrite app_nil_r in Hi. exact Hi.
  - rewrite <- Hg in Hpos. rewrite Forall_map in Hpos. eapply Forall_impl; [|exact Hpos].
    cbn. intros g Hlen ->. cbn in Hlen. lia.
Qed.
End W.
Print Assumptions finished_file.
