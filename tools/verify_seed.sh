#!/bin/bash
# verify_seed.sh <worktree> <PROP> : confirms a seeded change independently.
#  1. with the change: the demonstration test fails, the 775 existing tests pass
#  2. without the library change: the demonstration test passes
# writes <worktree>/seeded_out/verify.txt
wt=$1; p=$2
cd "$wt" || exit 2
export CARGO_NET_OFFLINE=true
out=seeded_out/verify.txt
demo=$(ls avro/tests/ | grep -i "seeded" | head -1 | sed 's/\.rs$//')
echo "demo test: $demo" > $out
cargo test -p apache-avro --test "$demo" --offline > seeded_out/demo_with.log 2>&1
echo "demo with change: exit $? ($(grep -E '^test result' seeded_out/demo_with.log | head -1))" >> $out
cargo nextest run --workspace --no-fail-fast --offline > seeded_out/suite_with.log 2>&1
echo "suite with change: $(grep -E 'Summary' seeded_out/suite_with.log | tail -1)" >> $out
grep -E "^\s+FAIL" seeded_out/suite_with.log | sort -u | head -10 >> $out
# no `git stash` here: the stash is shared by all worktrees of the repository
git add -N avro/src avro_derive/src      # new source files belong to the change
git diff -- avro/src avro_derive/src > seeded_out/patch.verified.diff
git apply -R seeded_out/patch.verified.diff
cargo test -p apache-avro --test "$demo" --offline > seeded_out/demo_without.log 2>&1
echo "demo without change: exit $? ($(grep -E '^test result' seeded_out/demo_without.log | head -1))" >> $out
git apply seeded_out/patch.verified.diff
echo "patch lines: $(wc -l < seeded_out/patch.verified.diff)" >> $out
cat $out
