#!/bin/bash
# Re-runs every stored seeded change against the quick check of its property (developer aid, VERIF_ALT_REPO mode):
# each must be reported (exit 1 with a VIOLATION line).  Four lanes, each its own scratch worktree of /repo.
# usage: tools/recheck_seeds.sh [name-pattern]      result: /var/tmp/recheck/summary.txt
cd /verif
mkdir -p /var/tmp/recheck; rm -f /var/tmp/recheck/summary.txt
for i in 1 2 3 4; do
  [ -d /var/tmp/lane$i ] || git -C /repo worktree add --detach /var/tmp/lane$i HEAD -q
done
ls seeded | grep -E "${1:-.}" > /var/tmp/recheck/list.txt
lane() {
  i=$1
  awk "NR % 4 == $((i-1))" /var/tmp/recheck/list.txt | while read name; do
    prop=${name%%-*}
    git -C /var/tmp/lane$i checkout -q -- . ; git -C /var/tmp/lane$i clean -fdq avro/src avro_derive/src
    if ! git -C /var/tmp/lane$i apply /verif/seeded/$name/patch.diff 2>/dev/null; then echo "$name APPLY-FAILED" >> /var/tmp/recheck/summary.txt; continue; fi
    VERIF_ALT_REPO=/var/tmp/lane$i ./check $prop --tier quick > /var/tmp/recheck/$name.log 2>&1
    rc=$?
    echo "$name exit=$rc violations=$(grep -c '^VIOLATION' /var/tmp/recheck/$name.log)" >> /var/tmp/recheck/summary.txt
    git -C /var/tmp/lane$i checkout -q -- . ; git -C /var/tmp/lane$i clean -fdq avro/src avro_derive/src
  done
}
for i in 1 2 3 4; do lane $i & done
wait
sort /var/tmp/recheck/summary.txt
