#!/bin/bash
# runs the thorough tier of every property in turn on /repo; log and timing under /var/tmp/thorough
cd /verif
for p in ${@:-C01 C02 C03 C04 C05 C06 C07 C08 C09 C10 C11 C12 C13 C14 C15 C16 C17 C18 C19 C20}; do
  s=$(date +%s)
  timeout 7200 ./check $p --tier thorough > /var/tmp/thorough/$p.log 2>&1
  rc=$?
  echo "$p exit=$rc wall=$(( $(date +%s) - s ))s violations=$(grep -c '^VIOLATION' /var/tmp/thorough/$p.log)" >> /var/tmp/thorough/summary.txt
done
echo done >> /var/tmp/thorough/summary.txt
