#!/usr/bin/env python3
"""Writes MANIFEST.json from the table below (kept in one place so it stays valid)."""
import json, os
ROOT = os.path.dirname(os.path.dirname(os.path.abspath(__file__)))
props = [json.loads(l)['id'] for l in open(os.path.join(ROOT, 'properties.jsonl'))]

CHECKS = {
 'C01': dict(
   text='Theorem (Coq, all schemas/values/fuel, no bound): for every value the model encoder accepts, '
        'the model decoder returns exactly that value and exactly the bytes that followed it '
        '(C01_roundtrip, C01_concat), and validation does not change the bytes (C01_validate_irrelevant). '
        'The model is tied to /repo on every run by differential execution of GenericDatumWriter/Reader '
        'against the extracted model on generated (schema, value) pairs (byte lengths at the varint boundaries included); '
        'the property predicate is also evaluated directly on the implementation outputs, and the other public entry points '
        'of the same round trip (to_avro_datum, to_avro_datum_schemata, write_value_to_vec, write_value, from_avro_datum, '
        'from_avro_datum_schemata) must write the same bytes and read the same value. A schema for which no writer can be '
        'built (null-namespace names inside a namespace, F26) is a known class.',
   note='hand-written model of encode.rs/decode.rs/util.rs/decimal.rs/bigdecimal.rs/resolve.rs; '
        'num-bigint byte conversions and uuid text are modelled and validated, not verified; '
        'HashMap iteration order is a parameter (the value term lists entries in iteration order)',
   technique='Coq proof by induction on encoder fuel + differential correspondence (extracted model vs Rust)',
   design='DESIGN.md 5/C01'),
 'C12': dict(
   text='Theorem (Coq, every byte string): the table-driven 64-bit Rabin fingerprint of rabin.rs equals '
        'CRC-64-AVRO defined bit by bit from the polynomial (C12_rabin_is_crc64), digest bytes little-endian. '
        'Canonical form: model of Schema::canonical_form (the pass over the serialised JSON value with its defined-names '
        'set, ordering table and integer rule; Model/SchemaJson.v) against the specification\'s normalisation written '
        'directly on the schema (Spec/PCF.v): equal on primitives and references (C12_pcf_leaves) and on a composite '
        'witness with full names, stripped doc/aliases/default/attributes and a repeated named type (C12_pcf_examples); '
        'FALSE for logical types and for "order" / attributes named like schema keys (C12_pcf_*_refuted, known findings '
        'F16, F17). Check every run: Rabin digests against the extracted model; fingerprint::<Rabin|Md5|Sha256> against the '
        'model / hashlib over the reported canonical form; canonical form = extracted specification form; unchanged by '
        'irrelevant edits (key order, spacing, doc, aliases, defaults, custom attributes, namespace spelling); canonical '
        'form of the parsed canonical form is itself; model canonical form = implementation on every schema.',
   note='MD5 and SHA-256 are not modelled (hashlib is the reference); the general theorem canonical_form s = '
        'spec_canonical_form s for all attribute-free, logical-type-free schemas is not proved, only checked',
   technique='Coq proof (bit-level linearity of the CRC step; vm_compute witnesses for the canonical form) + executable specification as differential oracle',
   design='DESIGN.md 5/C12'),
 'C15': dict(
   text='PARTIAL by proof: the compression algorithms (miniz_oxide, snap, bzip2, liblzma, zstd, crc32fast) are external libraries '
        'that no model here covers; they appear as Section variables of Model/CodecFrame.v. Proved, for every payload and every '
        'block, is the code around them: a snappy block is the raw block followed by the big-endian CRC-32 of the uncompressed '
        'data and round-trips (C15_snappy_roundtrip); any wrong checksum and any block shorter than a checksum is rejected '
        '(C15_snappy_checksum_enforced); decompressing arbitrary bytes yields an error or data no larger than the allocation limit '
        '- snappy bounds the announced length before allocating, the streaming decoders are capped (C15_output_bounded); the cap '
        'does not break payloads within the limit (C15_capped_roundtrip); CRC-32 is specified bit by bit from the polynomial '
        '(C15_crc32_check_value). The library hypotheses (decompress o compress = id, announced snappy length) are tested every run: '
        'Codec::compress / decompress on empty, 1-byte, constant, text-like, random, 70 KiB and 300 KiB payloads x six codecs x '
        'every level; reference decoders (zlib raw deflate, bz2, lzma, own raw-snappy decoder) read the library\'s output and the '
        'library reads theirs; snappy trailers equal the model\'s CRC-32; flipped checksums rejected; mutated and random bytes '
        'never panic; 4 MiB bombs are stopped by a 64 KiB limit while 60000-byte payloads pass.',
   note='zstandard has no independent decoder in this sandbox: round trip and frame magic only. The round-trip law of each '
        'compression library is an assumption of the theorems, validated by testing, not a theorem.',
   technique='Coq proof of the framing / checksum / output-cap code with the compression libraries as Section variables; reference-codec differential check for the library laws',
   design='DESIGN.md 5/C15'),
 'C16': dict(
   category='other',
   text='PARTIAL, and mostly NOT by proof: the serde machinery (ser_schema / deser_schema, about 4000 lines of trait '
        'implementations) is not modelled, so no theorem speaks about the serializer itself. Proved is the byte-level contract it '
        'has to meet: any two legal encodings of one value - whatever partition of arrays and maps into blocks, with or without '
        'byte sizes - decode to that value and consume exactly their own bytes (C16_block_partition_irrelevant, from the C02 '
        'specification relation), and every layout the generic encoder can be asked for is legal (C16_generic_layouts_legal). '
        'Checked every run on a corpus of 41 Rust types (derived structs and enums, tuples, fixed arrays, vectors of zero-width items, structs whose field order differs from a hand-written schema - reversed, interleaved, rotated, with schema defaults; enums under serde rename rules) x generated values x block sizes {none, 1, 16, large}: the '
        'serializer output is read by the EXTRACTED decoder as exactly one datum, equal to what the generic decoder gives; the '
        'returned count is the number of bytes emitted; the schema-aware deserializer returns an equal Rust value; for types '
        'without data-carrying enums and tuples, to_value + resolve + the generic encoder give an encoding of the same datum; all block '
        'sizes give the same datum.',
   note='honest level: differential testing with a proved decoder as oracle; the corpus is finite (BTreeMap and tuple-typed struct '
        'fields are rejected by the derive macro at compile time; tuples and arrays appear as top-level types) and values come '
        'from a PRNG inside the harness',
   technique='Coq theorems for the byte-level contract only; corpus-based differential check of the serde paths against the extracted decoder',
   design='DESIGN.md 5/C16'),
 'C17': dict(
   category='other',
   text='PARTIAL, and mostly NOT by proof: the derive macro and the serde implementations are not modelled. Decided with the proof '
        'machinery: the JSON of every derived schema is parsed by the extracted model parser on every run, and everything that '
        'parser accepts satisfies the C11 well-formedness theorems (restated for records as C17_accepted_record_well_formed); its '
        'JSON repeats no key (C17_derived_json_strict). Checked every run on 43 types (field types, serde rename rules on structs and enums incl. rename_all_fields with a variant override, Option / Vec / HashMap '
        'nestings, recursion, generics, rename / rename_all / namespace / alias / doc / skip / default, unit and data-carrying '
        'enums, 1-tuples / pairs / fixed arrays over single-field and recursive records, zero-width items): get_schema does not panic and gives the same schema twice; the schema survives a JSON round trip, its names '
        'resolve, no name is defined twice; every generated value serializes, deserializes to an equal value, also through a '
        'container file. Two classes fail on the unchanged tree and are known findings (F54 a data-carrying enum used twice is '
        'defined twice; F55 Option of a data-carrying enum panics in get_schema).',
   note='honest level: corpus testing; flatten and transparent are not in the corpus; tuple-typed struct fields are rejected by the '
        'derive macro at compile time (tuples and arrays are covered as top-level types)',
   technique='C11 theorems applied to the derived JSON through the extracted parser; corpus-based round-trip check of derived types',
   design='DESIGN.md 5/C17'),
 'C18': dict(
   text='Theorems (Coq): header = C3 01 ++ LE CRC-64-AVRO (10 bytes); for EVERY history of writes through one '
        'writer (good values, rejected values, encode failures, failing sinks) the reusable buffer is the header '
        'again after each call and each emitted message is header ++ datum of that call (C18_buffer_inv); each '
        'message of a conforming value decodes alone to that value (C18_roundtrip_each, via C01); any header '
        'that differs, or a message shorter than the header, is rejected without decoding. Correspondence: real '
        'GenericSingleObjectWriter/Reader driven through generated histories, all 80 single-bit flips and all '
        'truncations of the header.',
   note='model of writer/single_object.rs and reader/single_object.rs as of the fix commits; the typed '
        '(Specific*) writer is covered by the C07/C16 harness types, not here; union search in validation is not '
        'modelled yet (histories avoid bare values in union positions)',
   technique='Coq proof (invariant over operation histories) + differential correspondence',
   design='DESIGN.md 5/C18'),
 'C03': dict(
   text='Theorems (Coq): for EVERY history of writer operations (appends, rejected appends, appends whose '
        'encoding fails, flushes, add_user_metadata, reset), every block size and every codec with total '
        'compress, the finished sink is header ++ whole non-empty blocks whose datums in order are exactly the '
        'datums of the successful appends since the last reset (C03_finished_file, invariant by induction over '
        'the op list); the reader turns those blocks back into exactly the values with a clean end '
        '(C03_reads_back, composes C14_whole_file and the C01 item law); failed appends leave buffer and '
        'count untouched; append_to with the same marker continues the invariant. Correspondence: real '
        'Writer driven through generated histories - append, unvalidated append, append_ser, extend_from_slice, '
        'failing appends of each kind (rejected by validation, encoder or serializer failing after partial output), '
        'reset with values pending, plus directed reset -> failing append -> good append histories (byte-exact against the extracted model for the null '
        'codec, value-level for deflate/snappy/bzip2/xz/zstandard), file read back with Reader.',
   note='sink assumed reliable here (short writes / sink errors are C13); compressors enter as functions with '
        'the law decompress(compress x) = x; blocks must fit the reader allocation limit; metadata order in '
        'the header is compared semantically; F19 (embedded schema of null-namespace nested types) is a '
        'known finding',
   technique='Coq proof (invariant + refinement over operation histories) + differential correspondence',
   design='DESIGN.md 5/C03'),
 'C14': dict(
   text='Theorems (Coq): for ANY list of spec-conforming blocks (any codec inverse, any item decoder, counts of '
        'any varint length, zero- or variable-width items) and ANY cut offset into the block section, reading '
        'delivers exactly the values of the blocks wholly before the cut and ends cleanly iff the cut is on a '
        'block boundary (C14_cut_anywhere, from the varint prefix law); replacing any block marker by any other '
        '16 bytes delivers only the earlier blocks and then an error (C14_marker_corruption); the header the writer '
        'emits, cut at ANY offset - in the magic, anywhere in the metadata map, in the marker - cannot be opened, for every '
        'metadata map (C14_header_cut, from the strict-prefix theorem of the datum decoder); the Reader as an iterator hands out '
        'those values, then the error once, then None for every later call (C14_iterator_latches). Check: library-'
        'written files (all six codecs) damaged at EVERY byte offset and at every marker/magic byte, compared '
        'with the expected prefix computed by an independent python parser, and with the model for the null codec; the reader is '
        'iterated to exhaustion, and any value delivered AFTER an error item is a violation (the reader must stop).',
   note='the codec is a Section variable (decompress o compress = id is an assumption, checked by C15); the embedded schema text is '
        'opaque bytes to the header theorem (a header that parses but whose avro.schema is cut is covered by the sweep only)',
   technique='Coq proof (induction over blocks, varint prefix law) + exhaustive damage sweep',
   design='DESIGN.md 5/C14'),
 'C06': dict(
   text='Theorems (Coq, every schema / byte string / fuel): whenever the model decoder succeeds the value has '
        'the canonical shape of the schema and a prefix of the input was consumed (C06_decoded_conforms, by '
        'induction over decode with dec_blocks / map / record inversion lemmas); hence it validates, re-encodes '
        'and re-decodes to itself (C06_validates_and_reencodes, composing C01); every strict prefix of the '
        'encoding of a conforming value is an error (C06_truncation_is_error, from the varint prefix law). '
        'Check: exhaustive byte strings up to length 2/3 x 31 schemas, every prefix and single-byte mutation of '
        'generated valid encodings, random strings; on the implementation: decoded => validates, re-encodes, '
        're-decodes equal; prefixes are errors; the schema-aware deserializer agrees on success and consumed length, into a '
        'target that keeps every field (universal serde target) and into one that keeps nothing (serde::de::IgnoredAny: Ok '
        'there requires Ok and the same consumption from the generic decoder), and into targets that ask for only every second '
        'field of a top-level record (the kept fields must equal a full capture, the same bytes must be consumed); all strings of '
        '3-4 length-like bytes for schemas with lengths nested in lengths; long valid encodings of collections of 63..2048 items; '
        'extracted model = implementation on every case.',
   note='hypotheses: schema_wfb (distinct field names, <= 2^32 union branches, fixed decimals >= 1 byte: what the '
        'parser guarantees), allocation limit in [36, 2^63), element sizes >= 2, leaf_ok (excludes the zero-length '
        'decimal - now re-encodable after fix F36, numerically equal - and a big-decimal regrowing past the '
        'limit). Decoder agreement is not compared for uuid / big-decimal payload content (an untyped serde '
        'target cannot check it). The serde deserializer itself is not modelled yet (C16).',
   technique='Coq proof (induction over the decoder; prefix law) + exhaustive-short / mutation differential check',
   design='DESIGN.md 5/C06'),
 'C13': dict(
   text='Theorems (Coq): for EVERY sink script (any accepted length per call, a failure or Interrupted at any '
        'call index) write_all delivers the whole buffer or reports an error after a strict prefix '
        '(C13_write_all), and an operation that hands any sequence of pieces to write_all either succeeds with '
        'the sink holding exactly the concatenation - what an in-memory buffer would hold - or fails '
        '(C13_all_or_error); the reusable single-object writer, for every history of calls (values that encode and '
        'values that do not) against every sink script, has its buffer back at the header after each call, and a call '
        'returning Ok(n) delivered exactly header ++ payload of that call with n its length - nothing of a failed '
        'message travels with a later one (C13_single_object_writer_reuse, model sow_run of write_value_ref). '
        'Check: every write path (datum writer, serde datum writer with block sizes, '
        'single-object writer, container writer with header/blocks/markers and codecs) first on a reliable sink '
        '(reference bytes and the pieces it issues), then under scripts: 1/3/7/random bytes per call, a failure '
        'and an Interrupted injected at each call index, failing flush, fail-recover-retry; Ok => sink == '
        'reference (semantically for unordered maps / header metadata), counts where documented, no panic in '
        'drop; the extracted write_pieces model predicts result, bytes and number of calls of single-op scenarios; the '
        'extracted sow_run model predicts result, count and delivered bytes of every call of the 3-message '
        'single-object histories (short messages included), and each Ok message after a fault is compared alone.',
   note='the model is of std::io::Write::write_all over scripted sinks, plus the fact (checked by the call log of '
        'the instrumented sink) that every write site uses write_all; which pieces a writer issues is observed, '
        'not modelled. A fault during Drop is not reportable by design and not counted.',
   technique='Coq proof (induction over buffer + script) + fault-injection sweep with model-predicted outcomes',
   design='DESIGN.md 5/C13'),
 'C19': dict(
   text='Theorems (Coq): for EVERY schedule of set / get-or-init operations on a write-once cell (any number of '
        'threads, any interleaving linearised at OnceLock granularity) the first operation fixes the value for '
        'ever, the first caller is told so, every later get-style call is told that value and every later set '
        'is refused (C19_first_wins, C19_stable); the limit in force, for ANY value, is exactly the acceptance '
        'threshold of byte lengths, block counts and count*element-size (C19_limit_enforced_*). Check: fresh '
        'processes with 2..16 threads racing on the allocation limit, the human-readable flag, the four '
        'validators and the equality comparator; observations must be explained by the extracted model on some '
        'linearisation; the limit is probed by bisection on the real decoders (bytes/string/array/map: l accepted, l+1 refused).',
   note='OnceLock::get_or_init / set linearisability and single-initialiser are std guarantees, assumed; weak-memory '
        'interleavings are only sampled by repeated processes; limits above 2^24 are observed only through the '
        'returned value (probing a declared length really allocates it)',
   technique='Coq proof (induction over schedules) + racing-threads differential check with linearisation search',
   design='DESIGN.md 5/C19'),
 'C02': dict(
   text='Theorems (Coq): Spec/BinEnc.v is the Avro binary encoding as an inductive RELATION transcribed from the '
        'specification (zig-zag varints as a relation, blocks with positive or negative counts and byte sizes, '
        'logical types on their base types), independent of the model functions. Proved: every byte string the '
        'encoder produces for a conforming value is in the relation (C02_encoder_in_spec); EVERY byte string in '
        'the relation - any block partition, any sign of counts - is decoded to exactly that value, consuming '
        'exactly it (C02_decoder_accepts_spec); the executable layout generator is sound w.r.t. the relation '
        '(C02_layout_sound); a strict reading of the block framing (Spec/BlockAudit.v: a block with a negative count is '
        'cut out by its announced byte size and must hold exactly |count| items) accepts EVERY byte string in the relation '
        '(C02_audit_accepts_spec); the specification\'s own examples are derivable. Check: implementation bytes = '
        'in-spec model bytes; certified layouts (blocks of 1-3, +/- counts) fed to GenericDatumReader and the '
        'schema-aware deserializer must read back the value; the bytes of the generic encoder AND of the serde writer '
        '(17 corpus types x target block sizes none/1/16/64/large: the path that emits negative counts with byte sizes) '
        'pass the extracted strict auditor, are one datum, the same datum for every block size.',
   note='the relation is the independent implementation; a second codebase is not available offline. The serde '
        'block writer (target_block_size) is audited here on corpus types and compared in full under C16. The decoder is laxer '
        'than the relation (over-long varints, ignored byte sizes): not part of the statement, and proved so - C02_audit_only_spec_refuted exhibits 80 00, which decoder and auditor read as the long 0 and which encodes no value in the relation; the class is characterised in general by C02_decoder_padding_invariant / C02_padded_long_decodes (any terminating byte may become continuation + k empty groups + zero within ten bytes) and C02_padded_long_accepted_outside_spec (every such form of every long is accepted and encodes no value in the relation), and C02_decode_head_padding_invariant (the datum decoder cannot tell padded from minimal at the head of any schema that starts with a variable-length integer: numbers, lengths, symbol and branch indices); padded integers in every position, generated with exactly that padding and across the ten-byte limit, are replayed on the implementation on every run (tried by hand: moving the limit of decode_variable from ten to nine bytes is reported by this class, replay with the padded input) (class overlong: both readers must read them as the minimal form); the auditor is what sees a '
        'wrong announced size. A schema with a leading-dot reference inside a namespace cannot be given a writer (F26): known class.',
   technique='Coq proof (inductive specification relation; inversion + induction on fuel) + certified-layout differential check',
   design='DESIGN.md 5/C02'),
 'C04': dict(
   text='Theorems (Coq): for EVERY partition of the item encodings into non-empty blocks, every codec with decompress o compress '
        '= id and every marker, the reader yields exactly the values in order and ends cleanly (C04_body_any_partition); the '
        'header reader accepts the metadata map in ANY layout the binary encoding allows - several blocks, negative counts with '
        'byte sizes, any key order, unknown keys - and returns exactly its entries, the marker and the position of the first block '
        '(C04_header_any_layout, through the C02 theorem that the decoder accepts every specification-legal encoding). The writing '
        'direction is C03\'s theorems. Check every run, both directions: files written by the library (all six codecs, block sizes, '
        'flush points, user metadata) are parsed by the independent reader gen/ocf.py (magic, metadata, marker, count/size/payload/'
        'marker blocks, raw-deflate / bzip2 / xz via the Python standard library, own raw-snappy decoder + CRC-32) and their '
        'payloads are the model encodings of the appended values; conforming files produced by the independent writer (random block '
        'partition incl. empty file / one per block / one block, multi-block and negative-count metadata maps, unknown avro.* keys, '
        'user keys, five codecs) are read by the library to the same values, schema and user metadata.',
   note='codec libraries are outside the model (Section hypothesis decompress (compress x) = x; C15 checks it); zstandard has no '
        'independent decoder here: for it only the container structure and block counts are checked in the writing direction',
   technique='Coq proof (induction over blocks; C02 specification relation for the header) + independent reader/writer differential check',
   design='DESIGN.md 5/C04'),
 'C05': dict(
   text='PARTIAL by proof: the theorems carry what is logic - the datum decoder model (the one C01/C02/C06 tie to decode.rs) is a '
        'total function that never takes a panic branch for ANY schema, name table, limit and byte string (C05_decode_never_panics, '
        'induction on fuel through arrays, maps, unions, records, references); every declared byte length is compared with the '
        'allocation limit before the payload is taken and every declared block count, and the running total times the in-memory '
        'item size, before the first item is decoded (C05_declared_length_bounded, C05_declared_count_bounded); decompression output '
        'is capped (C15_output_bounded). What no model here can exhibit - allocator aborts, stack exhaustion on deeply nested data, '
        'wall-clock time, the behaviour of the schema-aware deserializer and of the codec libraries - is checked on the implementation: '
        'every reading entry point (datum reader + deserializer, container reader incl. header and embedded schema, single-object '
        'reader, block decompression) on exhaustive short strings, truncations and byte alterations of valid data, hostile counts / '
        'sizes / schemas and random bytes, under limits of 4 KiB, 64 KiB and 1 MiB, with a counting allocator in the harness '
        '(largest single request <= limit + 96 KiB of incidental allocations + codec working memory; peak growth) and per-case time limits.',
   note='four defects repaired earlier (F12 empty compression level, F13 fixed size vs limit, F14 deserializer count bound, F1 EOF); '
        'one open finding F53 (hash table capacity rounding: up to ~2.3x the limit for a declared map block). Working memory of '
        'the bzip2 (block state <= 3.6 MB) and zstd (128 KiB input buffer) decoders is not counted as memory for a declared length; '
        'liblzma and zstd allocate through malloc, which the counting allocator does not see.',
   technique='Coq proof (panic-freedom and allocation guards of the decoder model) + counting-allocator and time-limit sweep of all entry points',
   design='DESIGN.md 5/C05'),
 'C07': dict(
   text='Theorems (Coq): a value validation rejects is written by none of the validating paths - datum writer '
        'errs before encoding, single-object writer emits nothing and keeps its buffer, container writer state '
        'is untouched (C07_rejected_*); canonical conforming values are accepted, written and read back unchanged '
        '(C07_accepted_canonical); benign non-canonical leaves (int for long/date/time, long for long-based logical '
        'types, bytes for fixed, symbol string for enum) are accepted and decode to the canonical representation '
        '(C07_leaf_table). The full statement is FALSE of the code in nine classes; each has a refutation witness '
        'proved in Coq by vm_compute on the faithful model (C07_*_refuted), is replayed on the implementation on '
        'every run, and is listed in known_findings.json. Check: generated values x term-level mutations towards '
        'accepted-non-canonical and near-miss forms through the three validating writers; the extracted model '
        '(validate with the real union search, resolve, encode) agrees with the implementation on every case.',
   note='model now includes Value::resolve, UnionSchema::find_schema and JSON->Value (coq/Model/Resolve.v, '
        'Floats.v); the nested generalisation of C07_leaf_table (benign forms inside arrays/records) is covered '
        'by the correspondence only; nine known-finding classes F2,F4,F5,F6,F33,F34,F35,F37,F38 stay open '
        '(validation and encoder are two independent match tables; repairing them is not a small change)',
   technique='Coq proof (definitional lemmas, leaf table, refutation witnesses) + mutation-based differential check',
   design='DESIGN.md 5/C07'),
 'C08': dict(
   text='Executable resolution specification in Coq (Spec/Resolution.v: spec_read, written from the specification text, '
        'independent of resolve_*) and a model of Value::resolve / UnionSchema::find_schema / record defaults '
        '(Model/Resolve.v). Theorems: on primitive types every prescribed promotion is what resolve returns and every '
        'pair without a rule is an error except four lenient pairs (C08_promotions, C08_no_rule_is_error); a resolved '
        'record has exactly the reader fields in reader order and a reader field present in the data takes the written '
        'value wherever it stands (C08_record_fields, C08_record_by_name); enum symbols by name, reader default for '
        'unknown symbols, error without one, equal to the specification function (C08_enum_rules, C08_enum_spec); '
        'resolution is idempotent on every leaf schema (C08_idempotent_leaves), and at EVERY depth on reader schemas built from '
        'leaves, arrays, maps and records the result validates against the reader schema and resolving it again changes nothing '
        '(C08_result_validates_fragment, C08_idempotent_fragment: induction on fuel through map_res and resolve_fields; unions, '
        'references and plain fixed are outside the fragment). The full statement is FALSE of the code '
        'in eight classes, all around union branch selection and leniency; each has a vm_compute witness on the faithful '
        'model (C08_*_refuted), is replayed on the implementation every run and is listed in known_findings.json. '
        'Check: (W, R, value) triples from the evolution generator through GenericDatumReader(reader_schema) and '
        'Reader::builder().reader_schema(); oracle = extracted spec_read; result validates; re-resolution is identity; '
        'model resolve = implementation on every case.',
   note='two genuine defects repaired (F40 small decimals rejected on resolution; F43 Reader decoded writer references '
        'with the reader schema\'s definitions); the specification oracle prefers an identical type over the same '
        'underlying type over a promotion when the reader is a union (the literal "first match" would contradict the '
        'property\'s own idempotence clause) - see DESIGN.md; idempotence and result-validates are proved at every depth for '
        'leaves, arrays, maps and records (plain fixed excluded: a string read as a fixed is not idempotent), and checked by the '
        'correspondence through unions and references',
   technique='Coq executable specification + theorems on the resolve model + refutation witnesses; differential check against the extracted specification',
   design='DESIGN.md 5/C08'),
 'C09': dict(
   text='Model of SchemaCompatibility::can_read / mutual_read (Model/Compat.v). Theorems: every schema with unique field '
        'names is fully compatible with itself (C09_reflexive, induction on fuel through unions, records, enums, references); '
        'mutual_read is symmetric (C09_mutual_symmetric); on primitive types the verdict is Full exactly for identical types and '
        'the specification\'s promotions (C09_primitive_table); the always-safe reader steps keep the verdict - field added '
        'with a default, field removed, union branch added (C09_reader_*). Soundness (Full => every value W accepts reads '
        'with R) is PROVED on a fragment at every depth and size (C09_full_sound_fragment: primitives without bytes->string, '
        'arrays, maps, fixed, enums, records without reader aliases whose reader fields all exist in the writer) and is FALSE '
        'of the code outside it in five classes; each has a vm_compute witness on the faithful model '
        '(C09_*_refuted), is replayed on the implementation every run and is listed in known_findings.json. Check: the C08 '
        'evolution triples plus all 2116 ordered pairs of a 46-schema enumeration (reader unions holding a single numeric type included) x values of W: Full => the read succeeds; '
        'safe steps never incompatible; can_read(W, W) Full; mutual_read symmetric; model verdicts = implementation verdicts.',
   note='the pointer-keyed memo of the checker is not modelled (it replays the result of a deterministic function of the '
        'pair); recursion-cache effects are covered by the correspondence on recursive generated schemas only',
   technique='Coq proof (induction on fuel over the can_read model) + refutation witnesses; differential check of verdicts against actual reads',
   design='DESIGN.md 5/C09'),
 'C10': dict(
   text='Models of the hand-written Serialize impls and of serde_json::to_value (Model/SchemaJson.v) and of the parser '
        '(Model/Parser.v). Theorems: the serialised schema repeats no key in any object, for every schema whose custom '
        'attributes are what get_custom_attributes leaves (C10_strict_json, induction over the nested schema type, covers the '
        'fixed inside a decimal after fix F49); Name::new reads back what Name::fullname writes for every name of the grammar '
        '(C10_name_roundtrip); every unnamed leaf (primitives, every logical type on bytes/string/int/long) is read back '
        'from its serialisation (C10_leaf_roundtrip); a composite witness with namespaces, aliases, docs, defaults, references '
        'and attributes round-trips (C10_examples). FALSE in one class (C10_null_namespace_refuted, known finding F19). Check: '
        'generated accepted texts -> parse, serialise, parse, serialise: strict JSON (duplicate-key detection), equal schema, '
        'identical second text; the model serialiser emits the same tree entry for entry and the model parser the same schema.',
   note='the general round-trip theorem parse (ser s) = s for all parser-produced schemas is NOT proved (the default check '
        'depends on the table of names parsed so far); it is checked by the correspondence. The header embedding is C03\'s check.',
   technique='Coq proof (nested induction over schemas, name grammar lemmas, vm_compute witnesses) + differential check of serialiser and parser models',
   design='DESIGN.md 5/C10'),
 'C11': dict(
   text='Model of Schema::parse_str over the serde_json value (Model/Parser.v: Name::new / Name::parse and the four grammars, '
        'the resolving / parsed tables, RecordField::parse with the default check by resolution, UnionSchemaBuilder::variant, '
        'logical-type conversion), a total function by construction. Theorems about every accepted schema: names match the '
        'grammar (C11_names_grammar); unions have no nested union, no repeated name, no two unnamed branches of one type '
        '(C11_union_rules); enum symbols match the grammar, are distinct, the default is a symbol (C11_enum_rules); fixed sizes '
        'fit u64 (C11_fixed_rules); field names match the grammar and are distinct (C11_record_rules); an accepted default '
        'resolves against the field schema (C11_default_conforms). Two clauses are FALSE of the code (C11_*_refuted: a full '
        'name defined twice is accepted, F25; a leading-dot reference inside a namespace is accepted but cannot be resolved, '
        'F26). Check: arbitrary strings, arbitrary JSON, generated schemas and JSON-level mutations through parse_str (no '
        'panic, no hang), accepted schemas through canonical form / serialisation / name resolution / Debug (no panic), '
        'generated well-formed schemas accepted, model outcome = implementation outcome on every text.',
   note='three panics repaired (F48, F50 canonical form on attributes named like schema keys - also reachable from parse_str; '
        'F15 earlier); JSON text -> serde_json::Value is outside the model (trusted: serde_json)',
   technique='Coq proof (lemmas on the parser model\'s components) + refutation witnesses; differential check of the parser model on mutated and arbitrary texts',
   design='DESIGN.md 5/C11'),
 'C20': dict(
   text='Model of Schema::parse_list (Model/Parser.v: collect_inputs, drain of the pending HashMap with its iteration order '
        'as a parameter, on-demand parse of referenced inputs in fetch_schema_ref, results collected in input order). '
        'Theorems: two inputs with the same full name are rejected up front for every list and every hash order '
        '(C20_collision_rejected); the result has one schema per input in input order (C20_input_order_result); cycles '
        'through inputs parse to the same schemas in both processing orders (C20_examples). The order-independence clause '
        'is FALSE of the code (C20_order_dependence_refuted, known finding F52: a reference to a type defined nested '
        'inside another input resolves only if that input is processed first; the HashMap order makes it run-dependent). '
        'Check: generated sets (chains, diamonds, cycles, cross-namespace references, nested definitions, conflicting '
        'duplicates, dangling references) x all permutations x 3 runs in separate processes: same verdict and same schemas '
        'for every ordering and run, verdict as the rules say, model outcome = implementation outcome per processing order.',
   note='one panic repaired (F51: .expect in parse_list); a full name defined both nested and as an input is accepted '
        '(F25b); the general confluence theorem (outcome independent of hash_order for sets without nested definitions) '
        'is not proved, only checked; identical schemas from every ordering imply identical encodings (C01/C02)',
   technique='Coq proof (lemmas on the parse_list model) + refutation witness; permutation and repeated-run differential check',
   design='DESIGN.md 5/C20'),
}
NOT_YET = 'check not built yet in this round (work in progress; see DESIGN.md section 6 for the plan)'

m = {
 'version': 1,
 'setup_cmd': './setup.sh',
 'hooks': {
   'guard': 'apache_avro_rs_verif',
   'enable': 'none needed: every observation goes through the public API; no hook commits exist',
   'baseline_off_cmd': 'cd /repo && cargo nextest run --workspace --no-fail-fast --offline || cargo test --workspace --no-fail-fast --offline',
   'source_commits': [],
   'add_only': True,
 },
 'engines': [
   {'name': 'coq', 'path': 'coq', 'serves_properties': sorted(CHECKS), 'kind_free_text': 'Coq 8.16.1 development: Model/ (executable), Proofs/, Props/ (property theorems)'},
   {'name': 'correspondence', 'path': 'gen', 'serves_properties': sorted(CHECKS), 'kind_free_text': 'python generators/differ + Rust harness (harness/) + extracted OCaml model driver (ocaml/)'},
 ],
 'checks': [],
 'not_applicable': [],
 'notes': 'Machine-checked proof in Coq over a hand-written model; model tied to /repo by a checked correspondence on every run. See DESIGN.md.',
}
for p in props:
    if p in CHECKS:
        c = CHECKS[p]
        m['checks'].append({
          'property_id': p,
          'quick_cmd': './check %s --tier quick' % p,
          'thorough_cmd': './check %s --tier thorough' % p,
          'evidence_file': 'evidence/%s.json' % p,
          'replay_cmd_template': './check replay {path}',
          'engine': 'coq+correspondence',
          'level_claimed': {'category': c.get('category', 'proof'), 'text': c['text'], 'design_ref': c['design']},
          'level_note': c['note'],
          'technique': c['technique'],
        })
    else:
        m['not_applicable'].append({'property_id': p, 'reason': NOT_YET})
json.dump(m, open(os.path.join(ROOT, 'MANIFEST.json'), 'w'), indent=1)
print('checks:', [c['property_id'] for c in m['checks']])
