#!/usr/bin/env python3
"""Writes MANIFEST.json from the table below (kept in one place so it stays valid)."""
import json, os
ROOT = os.path.dirname(os.path.dirname(os.path.abspath(__file__)))
props = [json.loads(l)['id'] for l in open(os.path.join(ROOT, 'properties.jsonl'))]

CHECKS = {
 'C01': dict(
   text='Theorem (Coq, all schemas/values/fuel, no bound): for every value the model encoder accepts, '
        'the model decoder returns exactly that value and exactly the bytes that followed it '
        '(C01_roundtrip, C01_concat), and validation does not change the bytes (C01_validate_irrelevant). '
        'The model is tied to /repo on every run by differential execution of GenericDatumWriter/Reader '
        'against the extracted model on generated (schema, value) pairs; the property predicate is also '
        'evaluated directly on the implementation outputs.',
   note='hand-written model of encode.rs/decode.rs/util.rs/decimal.rs/bigdecimal.rs/resolve.rs; '
        'num-bigint byte conversions and uuid text are modelled and validated, not verified; '
        'HashMap iteration order is a parameter (the value term lists entries in iteration order)',
   technique='Coq proof by induction on encoder fuel + differential correspondence (extracted model vs Rust)',
   design='DESIGN.md 6/C01'),
}
NOT_YET = 'check not built yet in this round (work in progress; see DESIGN.md section 6 for the plan)'

m = {
 'version': 1,
 'setup_cmd': './setup.sh',
 'hooks': {
   'guard': 'apache_avro_rs_verif',
   'enable': 'none needed: every observation goes through the public API; no hook commits exist',
   'baseline_off_cmd': 'cd /repo && cargo nextest run --workspace --no-fail-fast --offline || cargo test --workspace --no-fail-fast --offline',
   'source_commits': [],
   'add_only': True,
 },
 'engines': [
   {'name': 'coq', 'path': 'coq', 'serves_properties': sorted(CHECKS), 'kind_free_text': 'Coq 8.16.1 development: Model/ (executable), Proofs/, Props/ (property theorems)'},
   {'name': 'correspondence', 'path': 'gen', 'serves_properties': sorted(CHECKS), 'kind_free_text': 'python generators/differ + Rust harness (harness/) + extracted OCaml model driver (ocaml/)'},
 ],
 'checks': [],
 'not_applicable': [],
 'notes': 'Machine-checked proof in Coq over a hand-written model; model tied to /repo by a checked correspondence on every run. See DESIGN.md.',
}
for p in props:
    if p in CHECKS:
        c = CHECKS[p]
        m['checks'].append({
          'property_id': p,
          'quick_cmd': './check %s --tier quick' % p,
          'thorough_cmd': './check %s --tier thorough' % p,
          'evidence_file': 'evidence/%s.json' % p,
          'replay_cmd_template': './check replay {path}',
          'engine': 'coq+correspondence',
          'level_claimed': {'category': 'proof', 'text': c['text'], 'design_ref': c['design']},
          'level_note': c['note'],
          'technique': c['technique'],
        })
    else:
        m['not_applicable'].append({'property_id': p, 'reason': NOT_YET})
json.dump(m, open(os.path.join(ROOT, 'MANIFEST.json'), 'w'), indent=1)
print('checks:', [c['property_id'] for c in m['checks']])
