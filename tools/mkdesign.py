#!/usr/bin/env python3
"""mkdesign.py : assembles DESIGN.md from the hand-written parts in tools/design_parts and from the authoritative
tables (tools/mkmanifest.py CHECKS, gen/cXX.py THEOREMS, known_findings.json, seeded/*/meta.json)."""
import glob, json, os, re, subprocess
ROOT = os.path.dirname(os.path.dirname(os.path.abspath(__file__)))
src = open(os.path.join(ROOT, 'tools/mkmanifest.py')).read()
ns = {}
exec(src[src.index('CHECKS = {'):src.index('NOT_YET')], ns)
CH = ns['CHECKS']
kf = json.load(open(os.path.join(ROOT, 'known_findings.json')))['findings']
props = {json.loads(l)['id']: json.loads(l) for l in open(os.path.join(ROOT, 'properties.jsonl'))}
seeds = {}
for d in sorted(glob.glob(os.path.join(ROOT, 'seeded/*'))):
    m = json.load(open(d + '/meta.json'))
    seeds.setdefault(m['property'], []).append((os.path.basename(d), m))

out = ['## 5. The properties\n', 'For each property: the theorems of its `Props` file, what the check claims, its limits, its findings and the '
       'seeded changes tried against it.\n']
for pid in sorted(CH):
    mod = open(os.path.join(ROOT, 'gen/%s.py' % pid.lower())).read()
    th = re.search(r"THEOREMS = \[(.*?)\]", mod, re.S).group(1)
    th = [x.strip().strip("'") for x in th.replace('\n', ' ').split(',') if x.strip()]
    out.append('### %s — %s\n' % (pid, props[pid]['title']))
    out.append('*Theorems* (`coq/Props/%s.v`, each followed by `Print Assumptions` in the proof step and pinned in `pins/%s.json`): %s.\n'
               % (pid, pid, ', '.join('`%s`' % t for t in th)))
    out.append('*What is claimed.* ' + CH[pid]['text'] + '\n')
    out.append('*Limits.* ' + CH[pid]['note'] + '\n')
    fs = [f for f in kf if f['property'] == pid]
    if fs:
        out.append('*Findings for this property* (`known_findings.json`):\n')
        for f in fs:
            st = 'open' if f['status'] == 'open' else 'fixed (%s)' % f['status'].split()[2]
            out.append('- %s `%s` — %s: %s' % (f['id'], f['class'], st, f['what'][:260]))
        out.append('')
    if pid in seeds:
        out.append('*Seeded changes* (`seeded/`):\n')
        for n, m in seeds[pid]:
            out.append('- `%s`: %s — %s' % (n, str(m.get('summary', '')).replace('\n', ' ')[:200], m.get('caught_by', '')))
        out.append('')
props_md = '\n'.join(out)

fixed = [f for f in kf if f['status'] != 'open']
openf = [f for f in kf if f['status'] == 'open']
commits = [l.split()[0] for l in subprocess.run(['git', '-C', '/repo', 'log', '--oneline'], capture_output=True, text=True).stdout.splitlines() if 'fix:' in l]
s = ['## 6. Genuine defects of the unchanged code\n',
     'Each was first reproduced on the real code with the failing input, then either repaired by one minimal unguarded `fix:` commit in '
     '/repo (the unedited 775-test suite passes after each; validated in the scratch worktree `/var/tmp/avro-scratch`, then '
     'cherry-picked) or recorded as an open finding because a repair is not small: it would change documented leniency, break a pinned '
     'test, or need a redesign (union branch selection by trial resolution, reader aliases, null-namespace spelling).\n',
     '### 6.1 Repaired (`fixed:` entries of known_findings.json; they suppress nothing)\n',
     '| id | property | commit | what failed |\n|---|---|---|---|']
for f in fixed:
    s.append('| %s | %s | `%s` | %s |' % (f['id'], f['property'], f['status'].split()[2], f['what'].replace('|', '/')[:230]))
s.append('\n%d fix commits in /repo: %s.\n' % (len(commits), ', '.join('`%s`' % c for c in commits)))
s.append('Two repairs were tried and dropped: making the encoder of a bare record under a union pick the variant the record validates '
         'against (F39) passes the suite but would need the validation predicate inside the model encoder and every encoder theorem '
         'reworked - left open; removing "precision"/"scale" from the attributes of the fixed inside a decimal at parse time breaks the '
         'pinned test `test_serialize_decimal_fixed`, so F49 was repaired on the serializer side instead.\n')
s.append('### 6.2 Open findings (printed as `KNOWN-FINDING:` lines, exit 0; a different violation of the same property is still reported)\n')
s.append('| id | property | class | what fails | example |\n|---|---|---|---|---|')
for f in openf:
    s.append('| %s | %s | `%s` | %s | %s |' % (f['id'], f['property'], f['class'], f['what'].replace('|', '/')[:260], str(f.get('example', '')).replace('|', '/')[:150]))
defects_md = '\n'.join(s) + '\n'

allseeds = [x for v in seeds.values() for x in v]
missed = sum(1 for n, m in allseeds if any(w in str(m.get('caught_by', '')).lower() for w in ('missed', 'after', 'before')))
t = ['## 8. Seeded changes: which check catches which\n',
     'Each change was written by a fresh sub-agent that saw only the text of one property and its own scratch worktree, then confirmed by '
     'me (`tools/verify_seed.sh`: with the change the demonstration fails and the 775 existing tests pass; without it the demonstration '
     'passes), applied to /repo (`git apply`), run against the checks, and undone (`git checkout -- .`). None is committed in /repo. '
     '%d changes are kept, one or more per property; %d of them were missed or only half caught (a broken correspondence without a failing '
     'input) by the check as it stood and led to a stronger generator or a tighter classification, recorded in the last column. The '
     'changes came in four rounds (one per property in the first three, ten properties in the fourth), each round told what the earlier '
     'ones had changed so that it would look elsewhere; `tools/recheck_seeds.sh` re-applies every stored change to a scratch worktree '
     'and runs the quick check of its property (developer mode `VERIF_ALT_REPO`), and all of them are reported by the checks as they '
     'stand now (last run: `docs/seeds_recheck.txt`, 69 of 69). What the misses had in common, and what was done about each kind: a public entry point the harness never called '
     '(typed single-object writers, `from_value`, `write_avro_datum_ref`, `parse_str_with_list`, `Reader::into_deser_iter`, the '
     '`Writer` methods beside `append_value_ref`, deserialization into targets that ignore fields) - section 2 lists what is driven now; '
     'a boundary the generators never hit (lengths of 64 and 65535 bytes, 1024 items, 64 symbols, block sizes after growth, compression '
     'ratios above 1000:1); state carried from one call to the next (a writer reused after a failure, a second writer in the process, a '
     'codec after a failed frame, a block after a consumed block); and three known-finding classes that were broad enough to swallow a '
     'new defect (section 7).\n' % (len(allseeds), missed),
     '| seeded change | property | what it does | outcome |\n|---|---|---|---|']
for n, m in sorted(allseeds):
    t.append('| `%s` | %s | %s | %s |' % (n, m['property'], str(m.get('summary', '')).replace('|', '/').replace('\n', ' ')[:330], str(m.get('caught_by', '')).replace('|', '/')[:420]))
seeds_md = '\n'.join(t) + '\n'

P = os.path.join(ROOT, 'tools/design_parts')
doc = open(P + '/10_head.md').read() + props_md + '\n' + defects_md + '\n' + open(P + '/70_false_alarms.md').read() + '\n' + seeds_md + '\n' + open(P + '/90_trusted_base.md').read()
doc = doc.replace('9 of 26 seeded changes', '%d of %d seeded changes' % (missed, len(allseeds)))
open(os.path.join(ROOT, 'DESIGN.md'), 'w').write(doc)
print('DESIGN.md', len(doc.splitlines()), 'lines;', len(allseeds), 'seeds,', missed, 'strengthened;', len(fixed), 'fixed,', len(openf), 'open')
