#!/usr/bin/env python3
"""collect_seed.py <PROP> <name> <caught-by> : stores a verified seeded change under /verif/seeded/<name>/"""
import json, os, shutil, sys
prop, name, caught = sys.argv[1], sys.argv[2], sys.argv[3]
wt = '/tmp/seed/wt_%s' % (sys.argv[4] if len(sys.argv) > 4 else prop)
src = os.path.join(wt, 'seeded_out')
dst = os.path.join('/verif/seeded', name)
os.makedirs(dst, exist_ok=True)
shutil.copy(os.path.join(src, 'patch.verified.diff'), os.path.join(dst, 'patch.diff'))
for f in os.listdir(os.path.join(wt, 'avro', 'tests')):
    if 'seeded' in f.lower():
        shutil.copy(os.path.join(wt, 'avro', 'tests', f), os.path.join(dst, f))
meta = json.load(open(os.path.join(src, 'meta.json')))
verify = open(os.path.join(src, 'verify.txt')).read()
meta['property'] = prop
meta['verified_by_me'] = verify.strip().splitlines()
meta['caught_by'] = caught
meta['ran'] = ['tools/verify_seed.sh %s %s (demo with change fails, 775 existing tests pass, demo without change passes)' % (wt, prop),
               'git -C /repo apply seeded/%s/patch.diff ; ./check %s --tier quick ; git -C /repo checkout -- .' % (name, prop)]
json.dump(meta, open(os.path.join(dst, 'meta.json'), 'w'), indent=1)
print('stored', dst)
