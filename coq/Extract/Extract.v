(* Extraction of the executable model.  ExtrOcamlBasic only: bool, option, unit, list, prod,
   sumbool map to OCaml natives; nat, positive, N, Z, ascii, string stay inductive.
   No Extract Constant / Extract Inductive directive of our own. *)
From Coq Require Import Extraction ExtrOcamlBasic.
From AvroV Require Import Base Sexp Driver.
Extraction Language OCaml.
Extraction "../ocaml/model.ml" run_case.
