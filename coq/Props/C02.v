(* C02 - binary encoding follows the Avro specification (cross-implementation interop). *)
From AvroV Require Import Base Varint Schema Bytes Names Codec Conforms Layout BinEnc BlockAudit.
From AvroV Require Import VarintP CodecP SpecP AuditP PaddedP PaddedSpecP PaddedHeadP.
Open Scope N_scope.

(* Forward: the bytes written for a conforming value are a specification-legal encoding of it
   (Spec/BinEnc.v: a relation transcribed from the specification, independent of the model code). *)
Theorem C02_encoder_in_spec :
  forall (c : cfg) (nmz : names) (s : schema) (v : value) (fuel : nat) (bs : bytes),
    names_okb nmz = true -> conforms fuel c nmz None s v = true ->
    encode fuel nmz None s v = Ok bs -> spec nmz None s v bs.
Proof.
  intros c nmz s v fuel bs Hn Hc He.
  exact (encode_in_spec c nmz (names_okb_ok nmz Hn) fuel s v None None bs (agree_of_nsq None None s eq_refl) Hc He).
Qed.

(* Reverse: EVERY specification-legal encoding of a conforming value - arrays and maps split into
   any number of blocks, positive counts or negative counts followed by byte sizes, any union
   branch - is decoded to exactly that value, consuming exactly its bytes. *)
Theorem C02_decoder_accepts_spec :
  forall (c : cfg) (nmz : names) (s : schema) (v : value) (fuel : nat) (bs rest : bytes),
    spec nmz None s v bs -> conforms fuel c nmz None s v = true ->
    decode fuel c nmz None s (bs ++ rest) = Ok (v, rest).
Proof. intros c nmz s v fuel bs rest Hs Hc. exact (spec_decodes c nmz fuel s v None bs Hs Hc rest). Qed.

(* The layout generator used to exercise the implementation's decoder is itself certified: whatever
   it outputs is specification-legal. *)
Theorem C02_layout_sound :
  forall (c : cfg) (nmz : names) (s : schema) (v : value) (fuel k : nat) (neg : bool) (bs : bytes),
    names_okb nmz = true -> conforms fuel c nmz None s v = true ->
    lay fuel k neg nmz None s v = Ok bs -> spec nmz None s v bs.
Proof.
  intros c nmz s v fuel k neg bs Hn Hc Hl.
  exact (lay_in_spec c nmz (names_okb_ok nmz Hn) fuel k neg s v None bs Hc Hl).
Qed.

(* The specification's own examples are derivable (zig-zag longs, the {a: 27, b: "foo"} record, the
   array [3, 27], the union ["null","string"]). *)
Example C02_spec_longs :
  slong 0 [0] /\ slong (-1) [1] /\ slong 1 [2] /\ slong (-2) [3] /\ slong 2 [4] /\
  slong (-64) [0x7f] /\ slong 64 [0x80; 0x01] /\ slong 8192 [0x80; 0x80; 0x01] /\ slong (-8193) [0x81; 0x80; 0x01].
Proof.
  split; [exact (slong_enc 0 eq_refl)|]. split; [exact (slong_enc (-1) eq_refl)|].
  split; [exact (slong_enc 1 eq_refl)|]. split; [exact (slong_enc (-2) eq_refl)|].
  split; [exact (slong_enc 2 eq_refl)|]. split; [exact (slong_enc (-64) eq_refl)|].
  split; [exact (slong_enc 64 eq_refl)|]. split; [exact (slong_enc 8192 eq_refl)|].
  exact (slong_enc (-8193) eq_refl).
Qed.

Definition spec_rec : schema :=
  SRecord (mkName None [116]) None None
    [(mkFmeta [97] None [] None [], SLong); (mkFmeta [98] None [] None [], SString)] [].
Example C02_spec_record :
  spec [] None spec_rec (VRecord [([97], VLong 27); ([98], VString [102; 111; 111])]) [0x36; 0x06; 0x66; 0x6f; 0x6f].
Proof.
  apply (C02_encoder_in_spec (mkCfg 4096 56 80) [] spec_rec _ 3); reflexivity.
Qed.
Example C02_spec_array :
  spec [] None (SArray SLong []) (VArray [VLong 3; VLong 27]) [0x04; 0x06; 0x36; 0x00].
Proof. apply (C02_encoder_in_spec (mkCfg 4096 56 80) [] _ _ 3); reflexivity. Qed.
Example C02_spec_union :
  spec [] None (SUnion [SNull; SString]) (VUnion 0 VNull) [0x00] /\
  spec [] None (SUnion [SNull; SString]) (VUnion 1 (VString [97])) [0x02; 0x02; 0x61].
Proof. split; apply (C02_encoder_in_spec (mkCfg 4096 56 80) [] _ _ 3); reflexivity. Qed.

(* a layout no Rust writer produces: two blocks with negative counts and byte sizes *)
Example C02_lax_layout :
  lay 3 0 true [] None (SArray SLong []) (VArray [VLong 3; VLong 27]) = Ok [0x01; 0x02; 0x06; 0x01; 0x02; 0x36; 0x00].
Proof. reflexivity. Qed.

(* The block byte sizes.  The library's decoders read a block's announced byte size and ignore it, so
   inside the library a wrong size is invisible; an independent consumer cuts the block out by it.
   Spec/BlockAudit.v reads the framing strictly (a block with a negative count must be exactly
   |count| items in exactly the announced bytes).  EVERY specification-legal encoding passes it,
   leaving exactly what follows the datum; the check applies it to what the writers emit (generic
   encoder and the serde path with target block sizes). *)
Theorem C02_audit_accepts_spec :
  forall (c : cfg) (nmz : names) (s : schema) (v : value) (fuel : nat) (bs rest : bytes),
    spec nmz None s v bs -> conforms fuel c nmz None s v = true ->
    audit fuel c nmz None s (bs ++ rest) = Ok rest.
Proof. intros c nmz s v fuel bs rest Hs Hc. exact (spec_audits c nmz fuel s v None bs Hs Hc rest). Qed.

(* the auditor is not vacuous: it accepts the two-block layout above and rejects the same bytes with
   a block size that is too small, too large, or missing its last item - all of which the lax
   decoder reads as the same array *)
Example C02_audit_example :
  let c := mkCfg 4096 56 80 in
  let s := SArray SLong [] in
  audit 3 c [] None s [0x01; 0x02; 0x06; 0x01; 0x02; 0x36; 0x00] = Ok [] /\
  audit 3 c [] None s [0x01; 0x00; 0x06; 0x01; 0x02; 0x36; 0x00] = Err /\
  audit 3 c [] None s [0x01; 0x04; 0x06; 0x01; 0x02; 0x36; 0x00] = Err /\
  decode 3 c [] None s [0x01; 0x00; 0x06; 0x01; 0x02; 0x36; 0x00] = Ok (VArray [VLong 3; VLong 27], []) /\
  decode 3 c [] None s [0x01; 0x04; 0x06; 0x01; 0x02; 0x36; 0x00] = Ok (VArray [VLong 3; VLong 27], []).
Proof. repeat split; vm_compute; reflexivity. Qed.

(* The converse - the auditor (and the decoder) accept ONLY specification-legal encodings - is false of
   the code: variable-length integers padded with continuation bytes (80 00 for zero) are read by
   decode_variable like the minimal form, and no value has them as a specification-legal encoding.
   The check replays padded integers on the implementation (class overlong) on every run. *)
Theorem C02_audit_only_spec_refuted :
  let c := mkCfg 4096 56 80 in
  audit 3 c [] None SLong [0x80; 0x00] = Ok [] /\
  decode 3 c [] None SLong [0x80; 0x00] = Ok (VLong 0, []) /\
  ~ (exists v, spec [] None SLong v [0x80; 0x00]).
Proof.
  split; [vm_compute; reflexivity|]. split; [vm_compute; reflexivity|].
  intros [v Hs]. exact (spec_long_no_padding [] None v 0x80 Hs).
Qed.

(* The laxness is characterised in general, not only by the witness: in ANY input, a terminating byte
   of a variable-length integer may be replaced by its continuation form followed by k empty groups and
   a zero byte (PaddedP.padding) without changing what decode_variable reads, as long as the integer
   stays within ten bytes; so every long whose minimal form is shorter than ten bytes has padded forms
   and each of them is read as that long.  gen/c02.py generates exactly these forms (and the ones that
   cross the ten-byte limit) for the implementation. *)
Theorem C02_decoder_padding_invariant :
  forall (p : bytes) (b : N) (k : nat) (rest : bytes),
    Forall cont p -> b < 128 -> (length p + k + 2 <= 10)%nat ->
    dec_long (p ++ padding b k ++ rest) = dec_long (p ++ b :: rest).
Proof. exact long_padding_invariant. Qed.

Theorem C02_padded_long_decodes :
  forall (z : Z) (p : bytes) (b : N) (k : nat) (rest : bytes),
    in_i64 z = true -> enc_long z = p ++ [b] -> (length p + k + 2 <= 10)%nat ->
    dec_long (p ++ padding b k ++ rest) = LOk z rest.
Proof. exact long_padded_decodes. Qed.

Example C02_padding_example :
  enc_long 150 = [0xAC] ++ [0x02] /\
  dec_long ([0xAC] ++ padding 0x02 3 ++ [7]) = LOk 150 [7] /\
  [0xAC] ++ padding 0x02 3 ++ [7] = [0xAC; 0x82; 0x80; 0x80; 0x80; 0x00; 7] /\
  dec_long [0x80; 0x80; 0x80; 0x80; 0x80; 0x80; 0x80; 0x80; 0x80; 0x80; 0x00] = LErr.
Proof. repeat split; vm_compute; reflexivity. Qed.

(* ... and the refutation of the converse holds for EVERY such long, not only for 80 00: each padded
   form is read as the long by the datum decoder and is the specification-legal encoding of no value. *)
Theorem C02_padded_long_accepted_outside_spec :
  forall (c : cfg) (nmz : names) (ens : option str) (z : Z) (p : bytes) (b : N) (k fuel : nat),
    in_i64 z = true -> enc_long z = p ++ [b] -> (length p + k + 2 <= 10)%nat ->
    (forall rest, decode (S fuel) c nmz ens SLong (p ++ padding b k ++ rest) = Ok (VLong z, rest)) /\
    (forall v, ~ spec nmz ens SLong v (p ++ padding b k)).
Proof.
  intros c nmz ens z p b k fuel Hz E Hl. split.
  - intros rest. exact (padded_long_datum c nmz ens z p b k rest fuel Hz E Hl).
  - intros v. exact (padded_outside_spec nmz ens z p b k v Hz E Hl).
Qed.

(* The same invariance for the datum decoder at the head position of EVERY schema whose encoding starts
   with a variable-length integer - the number itself, a byte / string length, an enum symbol index,
   a union branch index: padded and minimal input are read alike, whatever follows. *)
Theorem C02_decode_head_padding_invariant :
  forall (c : cfg) (nmz : names) (ens : option str) (s : schema) (fuel : nat) (p : bytes) (b : N) (k : nat) (rest : bytes),
    varint_headed s = true -> Forall cont p -> b < 128 -> (length p + k + 2 <= 10)%nat ->
    decode (S fuel) c nmz ens s (p ++ padding b k ++ rest) = decode (S fuel) c nmz ens s (p ++ b :: rest).
Proof. intros c nmz ens s fuel p b k rest. exact (decode_head_padding_invariant c nmz ens s fuel p b k rest). Qed.

Example C02_head_padding_example :
  let c := mkCfg 4096 56 80 in
  varint_headed (SUnion [SNull; SString]) = true /\
  decode 3 c [] None (SUnion [SNull; SString]) ([] ++ padding 2 1 ++ [0x02; 0x61]) = Ok (VUnion 1 (VString [0x61]), []) /\
  decode 3 c [] None SString ([] ++ padding 2 0 ++ [0x61]) = Ok (VString [0x61], []).
Proof. repeat split; vm_compute; reflexivity. Qed.
