(* C15 - every codec round-trips every payload and interoperates with reference codecs.

   The compression libraries are outside the model (Section variables of Model/CodecFrame.v).  What is
   proved is the code around them, for every payload and every block; what is assumed of the libraries
   (decompress (compress x) = x, the length a snappy block announces) is tested on every run by
   gen/c15.py against the reference codecs of the Python standard library, an own raw-snappy decoder
   and the CRC-32 specification below.  This property is therefore decided only PARTLY by proof. *)
From AvroV Require Import Base Varint CodecFrame BytesP CodecFrameP.
Open Scope N_scope.

(* Snappy blocks: raw block followed by the big-endian CRC-32 of the uncompressed data; every payload
   within the allocation limit round-trips; *)
Theorem C15_snappy_roundtrip :
  forall max_alloc raw_c raw_len raw_d crc,
    (forall d, crc d < 2 ^ 32) ->
    (forall d, raw_len (raw_c d) = Ok (lenN d) /\ raw_d (raw_c d) = Ok d) ->
    forall d, lenN d <= max_alloc ->
      snappy_decompress max_alloc raw_len raw_d crc (snappy_compress raw_c crc d) = Ok d.
Proof. intros max_alloc raw_c raw_len raw_d crc H1 H2 d Hd. exact (snappy_roundtrip max_alloc raw_c raw_len raw_d crc d H1 H2 Hd). Qed.

(* a wrong checksum (any four bytes that are not the CRC) and a block shorter than a checksum are
   rejected; *)
Theorem C15_snappy_checksum_enforced :
  forall max_alloc raw_c raw_len raw_d crc,
    (forall d, raw_len (raw_c d) = Ok (lenN d) /\ raw_d (raw_c d) = Ok d) ->
    (forall d t, length t = 4%nat -> of_be32 t <> crc d ->
       snappy_decompress max_alloc raw_len raw_d crc (raw_c d ++ t) = Err) /\
    (forall blk, lenN blk < 4 -> snappy_decompress max_alloc raw_len raw_d crc blk = Err).
Proof.
  intros max_alloc raw_c raw_len raw_d crc H. split.
  - intros d t Ht Hne. apply (snappy_wrong_checksum max_alloc raw_c raw_len raw_d crc d t H); assumption.
  - intros blk Hb. exact (snappy_short max_alloc raw_c raw_len raw_d crc blk Hb).
Qed.

(* decompressing arbitrary bytes gives an error or data no larger than the allocation limit: snappy
   (the announced length is bounded before the buffer is allocated) and the capped streaming decoders. *)
Theorem C15_output_bounded :
  forall max_alloc raw_len raw_d crc,
    (forall b out n, raw_len b = Ok n -> raw_d b = Ok out -> lenN out = n) ->
    (forall blk out, snappy_decompress max_alloc raw_len raw_d crc blk = Ok out -> lenN out <= max_alloc) /\
    (forall dec blk out, capped max_alloc dec blk = Ok out -> lenN out <= max_alloc).
Proof.
  intros max_alloc raw_len raw_d crc H. split.
  - intros blk out. apply (snappy_bounded max_alloc (fun x => x) raw_len raw_d crc blk out H).
  - intros dec blk out. exact (capped_bounded max_alloc (fun x => x) raw_len raw_d crc dec blk out).
Qed.

Theorem C15_capped_roundtrip :
  forall max_alloc (cmp : bytes -> bytes) dec d,
    dec (cmp d) = Ok d -> lenN d <= max_alloc -> capped max_alloc dec (cmp d) = Ok d.
Proof.
  intros max_alloc cmp dec d H Hd.
  exact (capped_roundtrip max_alloc (fun x => x) (fun _ => Err) (fun _ => Err) (fun _ => 0) cmp dec d H Hd).
Qed.

(* the CRC-32 specification: the check value of the standard, and the empty string *)
Example C15_crc32_check_value : crc32 [49;50;51;52;53;54;55;56;57] = 0xCBF43926 /\ crc32 [] = 0.
Proof. split; vm_compute; reflexivity. Qed.
