(* C03 - container files return exactly the appended values for any writer history. *)
From AvroV Require Import Base Varint Schema Bytes Names Codec Container VarintP BytesP ContainerP.
Open Scope N_scope.

(* For EVERY history of writer operations (appends that succeed, appends rejected by validation,
   appends whose encoding fails, flushes, metadata, resets; any length, any interleaving), every
   block size (0 included), every codec whose compress is total, every header function that depends
   only on metadata and marker: once finished (into_inner / drop), the sink holds the header followed
   by whole blocks whose datums, concatenated in order, are exactly the datums of the successful
   appends since the last reset - nothing lost, duplicated, reordered or left pending, no block empty. *)
Theorem C03_finished_file :
  forall (cd : codec) (cmp : bytes -> bytes),
    (forall x, c_comp cd x = Ok (cmp x)) ->
  forall (block_size : N) (hdr_of : wstate -> bytes),
    (forall a b, w_meta a = w_meta b -> w_marker a = w_marker b -> hdr_of a = hdr_of b) ->
  forall (ops : list wop) (marker : bytes),
    Forall no_reopen ops ->
    let st := fst (wrun cd block_size hdr_of (winit marker) (ops ++ [WFinish])) in
    exists groups : list (list bytes),
      w_sink st = hdr_of st ++ wbody cmp (w_marker st) groups /\
      concat groups = items_of [] ops /\ Forall (fun g => g <> []) groups.
Proof. exact finished_file. Qed.

(* ... and the reader, given those blocks, yields exactly the corresponding values and a clean end,
   for any codec with decompress (compress x) = x, provided every block fits the reader's
   allocation limit (C19) and all datums of the schema have uniform zero/non-zero width. *)
Theorem C03_reads_back :
  forall (c : cfg) (cd : codec) (cmp : bytes -> bytes),
    (forall x, c_decomp cd (cmp x) = Ok x) ->
  forall (dec_item : bytes -> res (value * bytes)) (marker : bytes) (groups : list (list bytes))
         (vs : list value) (g0 : nat),
    length marker = 16%nat ->
    Forall (fun g => g <> []) groups ->
    Forall2 (item_law dec_item) (concat groups) vs ->
    (Forall (fun d => d = []) (concat groups) \/ Forall (fun d => d <> []) (concat groups)) ->
    Forall (fun g => lenN g < 2 ^ 63 /\ lenN (cmp (concat g)) <= max_alloc c /\ lenN (cmp (concat g)) < 2 ^ 63) groups ->
    (length groups < g0)%nat ->
    read_blocks c cd dec_item g0 marker (wbody cmp marker groups) = (vs, Clean).
Proof. exact written_body_reads. Qed.

(* An append that returns an error leaves no trace of the value: a value rejected by validation
   changes nothing at all; a value whose encoding fails leaves pending block and count untouched
   (the file header may be written, which is not part of any value). *)
Theorem C03_failed_append_no_trace :
  forall cd block_size hdr_of (st : wstate),
    wstep cd block_size hdr_of st WAppendInvalid = (st, false) /\
    let st' := fst (wstep cd block_size hdr_of st WAppendEncErr) in
    snd (wstep cd block_size hdr_of st WAppendEncErr) = false /\
    w_buf st' = w_buf st /\ w_n st' = w_n st /\ (w_hdr st = true -> st' = st).
Proof.
  intros cd bsz hdr_of st. split; [reflexivity|]. cbn [wstep fst snd]. unfold maybe_header.
  destruct (w_hdr st) eqn:E; repeat split; try reflexivity; intros; congruence.
Qed.

(* Reopening a finished output with the same marker (Writer::append_to) continues the same file:
   the block-phase invariant carries over with the same prefix. *)
Theorem C03_reopen_continues :
  forall cd cmp block_size hdr_of pre its (st : wstate),
    InvB cmp pre its st -> w_n st = 0 -> w_buf st = [] ->
    InvB cmp pre its (fst (wstep cd block_size hdr_of st (WReopen (w_marker st)))).
Proof.
  intros cd cmp bsz hdr_of pre its st (Hh & groups & pend & Hs & Hb & Hc & Hne & Hi) Hn Hbuf.
  cbn [wstep fst]. split; [reflexivity|].
  assert (pend = []) by (destruct pend; [reflexivity|rewrite lenN_cons in Hc; lia]). subst pend.
  exists groups, []. cbn [w_sink w_buf w_n w_marker]. repeat split; try assumption; reflexivity.
Qed.

(* non-vacuity: block size 3, a history with failed appends, a flush and metadata *)
Example C03_example :
  let hdr := fun st : wstate => magic ++ enc_meta_map (w_meta st) ++ w_marker st in
  let m := [1;2;3;4;5;6;7;8;9;10;11;12;13;14;15;16] in
  let st := fst (wrun null_codec 3 hdr (winit m)
                  [WAddMeta [107] [118]; WAppend [2]; WAppendInvalid; WAppend [4]; WAppendEncErr;
                   WAppend [6]; WAppend [8]; WFlush; WAddMeta [120] [121]; WFinish]) in
  w_sink st = hdr st ++ wbody (fun x => x) m [[[2]; [4]; [6]]; [[8]]].
Proof. vm_compute. reflexivity. Qed.
