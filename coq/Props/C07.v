(* C07 - values accepted by validation are written readably; rejected ones write nothing. *)
From AvroV Require Import Base Varint Schema Bytes Names Floats Codec Conforms Validate SingleObject Resolve Container.
From AvroV Require Import CodecP ValidateP SingleObjectP C07P.
Open Scope N_scope.

(* A value validation rejects is not written by any validating path: the datum writer errors before
   encoding, the single-object writer emits nothing and keeps its buffer, the container writer's
   state (pending block, count, sink) is untouched. *)
Theorem C07_rejected_writes_nothing :
  forall fuel find nmz s v,
    validate fuel find nmz None s v = Ok false -> write_value fuel find true nmz s v = Err.
Proof. exact rejected_datum. Qed.

Theorem C07_rejected_single_object :
  forall fuel find nmz s v hdr,
    validate fuel find nmz (schema_ns s) s v = Ok false -> 10 <= lenN hdr <= 20 ->
    so_datum fuel find nmz s v = Err /\
    forall sink_ok, so_write hdr (so_datum fuel find nmz s v) sink_ok = (hdr, SoValueErr).
Proof. exact rejected_so. Qed.

Theorem C07_rejected_container :
  forall cd block_size hdr_of (st : wstate), wstep cd block_size hdr_of st WAppendInvalid = (st, false).
Proof. reflexivity. Qed.

(* Canonical conforming values: accepted, written, and read back unchanged. *)
Theorem C07_accepted_canonical :
  forall (c : cfg) (find : find_fn) (nmz : names) (s : schema) (v : value) (fuel : nat),
    names_okb nmz = true -> conforms fuel c nmz None s v = true ->
    validate fuel find nmz None s v = Ok true /\
    exists bs, write_value fuel find true nmz s v = Ok bs /\
      forall g rest, (fuel <= g)%nat -> decode g c nmz None s (bs ++ rest) = Ok (v, rest).
Proof.
  intros c find nmz s v fuel Hn Hc.
  pose proof (conforms_validates c nmz find fuel s v None None (agree_of_nsq None None s eq_refl) Hc) as Hv.
  split; [exact Hv|].
  destruct (roundtrip_gen c nmz (names_okb_ok nmz Hn) fuel s v None None (agree_of_nsq None None s eq_refl) Hc) as (bs & He & Hd).
  exists bs. split; [unfold write_value; rewrite Hv; exact He|exact Hd].
Qed.

(* Benign non-canonical leaves (int for long / date / time-millis, long for the long-based logical
   types, bytes of the right length for fixed, a symbol string for an enum) are accepted, and what is
   written decodes to the canonical representation leaf_canon gives. *)
Theorem C07_leaf_table :
  forall c nmz find e s v cv f g rest,
    leaf_canon s v = Some cv ->
    validate (S f) find nmz e s v = Ok true /\
    exists bs, encode (S f) nmz e s v = Ok bs /\ decode (S g) c nmz e s (bs ++ rest) = Ok (cv, rest).
Proof. exact leaf_table. Qed.

(* The open classes are real in the faithful model (each is replayed on the implementation by the
   check and listed in known_findings.json): validation accepts, the writer errs or writes bytes that
   do not read back. *)
Definition cfg0 : cfg := mkCfg 4096 56 80.
Definition find0 : find_fn := find_impl cfg0 8.
Definition nm (s : list N) : name := mkName None s.

Example C07_bare_union_refuted :     (* F2: Int(3) under ["null","int"] is written as 06, no branch index *)
  validate 4 find0 [] None (SUnion [SNull; SInt]) (VInt 3) = Ok true /\
  write_value 4 find0 true [] (SUnion [SNull; SInt]) (VInt 3) = Ok [6] /\
  decode 4 cfg0 [] None (SUnion [SNull; SInt]) [6] = Err.
Proof. repeat split; vm_compute; reflexivity. Qed.

Example C07_enum_index_refuted :     (* F4 *)
  let s := SEnum (nm [69]) None None [[65]; [66]] (Some [65]) [] in
  validate 4 find0 [] None s (VEnum 77 [90]) = Ok true /\
  write_value 4 find0 true [] s (VEnum 77 [90]) = Ok (enc_long 77) /\
  decode 4 cfg0 [] None s (enc_long 77) = Err.
Proof. repeat split; vm_compute; reflexivity. Qed.

Definition rec_an : schema :=
  SRecord (nm [82]) None None
    [(mkFmeta [97] None [] None [], SLong); (mkFmeta [110] None [] None [], SUnion [SNull; SLong])] [].

Example C07_missing_field_refuted :  (* F5 *)
  validate 4 find0 [(nm [82], rec_an)] None rec_an (VRecord [([97], VLong 1)]) = Ok true /\
  write_value 4 find0 true [(nm [82], rec_an)] rec_an (VRecord [([97], VLong 1)]) = Err.
Proof. split; vm_compute; reflexivity. Qed.

Example C07_map_for_record_refuted : (* F6 *)
  validate 4 find0 [(nm [82], rec_an)] None rec_an (VMap [([97], VLong 1)]) = Ok true /\
  write_value 4 find0 true [(nm [82], rec_an)] rec_an (VMap [([97], VLong 1)]) = Err.
Proof. split; vm_compute; reflexivity. Qed.

Example C07_bytes_for_decimal_refuted : (* F33 *)
  validate 4 find0 [] None (SDecimal 4 1 DBytes) (VBytes [1]) = Ok true /\
  write_value 4 find0 true [] (SDecimal 4 1 DBytes) (VBytes [1]) = Err.
Proof. split; vm_compute; reflexivity. Qed.

Example C07_fixed_for_decimal_refuted : (* F34: written raw, no length prefix *)
  validate 4 find0 [] None (SDecimal 4 1 DBytes) (VFixed 2 [1; 2]) = Ok true /\
  write_value 4 find0 true [] (SDecimal 4 1 DBytes) (VFixed 2 [1; 2]) = Ok [1; 2] /\
  decode 4 cfg0 [] None (SDecimal 4 1 DBytes) [1; 2] = Err.
Proof. repeat split; vm_compute; reflexivity. Qed.

Example C07_uuid_text_refuted :      (* F35: 32 'z' accepted for a uuid string, unreadable *)
  let t := repeat 122 32 in
  validate 4 find0 [] None (SUuid UString) (VString t) = Ok true /\
  (exists bs, write_value 4 find0 true [] (SUuid UString) (VString t) = Ok bs /\
              decode 4 cfg0 [] None (SUuid UString) bs = Err).
Proof. split; [vm_compute; reflexivity|]. eexists. split; vm_compute; reflexivity. Qed.
