(* Every property theorem pinned a second time by its full statement: a theorem in Props/Cxx.v
   cannot be weakened without this file failing to compile. *)
From AvroV Require Import Base Varint Schema Bytes Names Codec Conforms Validate.
From AvroV Require Props.C01.
Open Scope N_scope.

Check Props.C01.C01_roundtrip :
  forall (c : cfg) (nmz : names) (s : schema) (v : value) (fuel : nat),
    names_okb nmz = true -> conforms fuel c nmz None s v = true ->
    exists bs, encode fuel nmz None s v = Ok bs /\
      forall fd rest, (fuel <= fd)%nat -> decode fd c nmz None s (bs ++ rest) = Ok (v, rest).
Check Props.C01.C01_concat :
  forall (c : cfg) (nmz : names) (s : schema) (vs : list value) (fuel : nat),
    names_okb nmz = true -> forallb (conforms fuel c nmz None s) vs = true ->
    exists bs, enc_list (encode fuel nmz None s) vs = Ok bs /\
      forall rest, dec_items (decode fuel c nmz None s) (length vs) (bs ++ rest) = Ok (vs, rest).
Check Props.C01.C01_validate_irrelevant :
  forall (c : cfg) (find : find_fn) (nmz : names) (s : schema) (v : value) (fuel : nat),
    conforms fuel c nmz None s v = true ->
    write_value fuel find true nmz s v = write_value fuel find false nmz s v.
Check Props.C01.C01_decimal_fixed_numeric :
  forall (b e : bytes) (size : N),
    sign_extend size b = Some e -> b <> [] -> minimal e = minimal b /\ lenN e = size.
