(* C09 - compatibility verdicts are sound with respect to actual reading.

   Model/Compat.v is the model of SchemaCompatibility::can_read / mutual_read (tied to the code by
   the differential check gen/c09.py).  Proved: every well-formed schema is fully compatible with
   itself, mutual compatibility is symmetric, the always-safe steps keep a verdict (promotion table,
   reader field added with a default or removed, reader union branch added).  The soundness
   direction (Full => every value reads) is FALSE of the faithful model: refutation witnesses below,
   each a known finding replayed on the implementation. *)
From AvroV Require Import Base Varint Schema Bytes Names Floats Codec Conforms Validate SingleObject Resolve Resolution Compat.
From AvroV Require Import BytesP C08P C09P C09S.
Open Scope N_scope.

Definition prims : list schema := [SNull; SBoolean; SInt; SLong; SFloat; SDouble; SBytes; SString].

(* On primitive types the verdict is Full exactly for identical types and the promotions of the
   specification (int->long/float/double, long->float/double, float->double, string<->bytes),
   incompatible otherwise; numeric promotion is never reported incompatible. *)
Theorem C09_primitive_table :
  forall f W R, In W prims -> In R prims ->
    can_read (S f) W R = if same_prim W R || promotable W R then Ok CFull else Err.
Proof.
  intros f W R HW HR. unfold prims in HW, HR. cbn [In] in HW, HR.
  repeat (destruct HW as [<-|HW]; [repeat (destruct HR as [<-|HR]; [reflexivity|]); destruct HR|]).
  destruct HW.
Qed.

(* Every schema (unique field names in every record) is fully compatible with itself: whenever the
   computation completes the verdict is Full. *)
Theorem C09_reflexive :
  forall fuel s, schema_wfb s = true -> can_read fuel s s = Ok CFull \/ can_read fuel s s = OutOfFuel.
Proof. exact can_read_reflexive. Qed.

(* Mutual compatibility is symmetric: the same verdict in both orders, and an incompatibility in one
   order is one in the other (or the other computation does not complete). *)
Theorem C09_mutual_symmetric :
  forall fuel A B,
    (forall c, mutual_read fuel A B = Ok c -> mutual_read fuel B A = Ok c) /\
    (mutual_read fuel A B = Err -> mutual_read fuel B A = Err \/ mutual_read fuel B A = OutOfFuel).
Proof. intros fuel A B. split; [intros c; apply mutual_symmetric_ok|apply mutual_symmetric_err]. Qed.

(* Always-safe steps on the reader: a field added with a default does not change the verdict, a
   field removed leaves the pair compatible, a union branch added keeps a Full verdict. *)
Theorem C09_reader_field_added_with_default :
  forall f wn wal wd wfs wa rn ral rd rfs ra m rs d,
    wfield_for (f_name m :: f_aliases m) wfs = None -> f_default m = Some d ->
    name_clash (SRecord wn wal wd wfs wa) (SRecord rn ral rd rfs ra) = false ->
    can_read (S f) (SRecord wn wal wd wfs wa) (SRecord rn ral rd (rfs ++ [(m, rs)]) ra) =
    can_read (S f) (SRecord wn wal wd wfs wa) (SRecord rn ral rd rfs ra).
Proof.
  intros f wn wal wd wfs wa rn ral rd rfs ra m rs d Hw Hd Hc.
  cbn [can_read]. change (name_clash (SRecord wn wal wd wfs wa) (SRecord rn ral rd (rfs ++ [(m, rs)]) ra))
    with (name_clash (SRecord wn wal wd wfs wa) (SRecord rn ral rd rfs ra)).
  rewrite Hc. apply record_fields_add_defaulted with (d := d); assumption.
Qed.

Theorem C09_reader_field_removed :
  forall f wn wal wd wfs wa rn ral rd l1 x l2 ra c,
    can_read (S f) (SRecord wn wal wd wfs wa) (SRecord rn ral rd (l1 ++ x :: l2) ra) = Ok c ->
    exists c', can_read (S f) (SRecord wn wal wd wfs wa) (SRecord rn ral rd (l1 ++ l2) ra) = Ok c'.
Proof.
  intros f wn wal wd wfs wa rn ral rd l1 x l2 ra c H. cbn [can_read] in H |- *.
  change (name_clash (SRecord wn wal wd wfs wa) (SRecord rn ral rd (l1 ++ l2) ra))
    with (name_clash (SRecord wn wal wd wfs wa) (SRecord rn ral rd (l1 ++ x :: l2) ra)).
  destruct (name_clash _ _); [discriminate H|]. eapply record_fields_remove; exact H.
Qed.

Theorem C09_reader_union_branch_added :
  forall cr b l, (forall x, cr x <> Panic) ->
    union_reader cr l false false = Ok CFull ->
    union_reader cr (l ++ [b]) false false = Ok CFull \/ union_reader cr (l ++ [b]) false false = OutOfFuel.
Proof. intros cr b l Hnp. apply union_reader_add_branch. exact Hnp. Qed.

(* Soundness on a fragment (Proofs/C09S.v): writer and reader built from the eight primitive types,
   arrays, maps, fixed, enums (a reader default, if any, is one of the reader's symbols) and records
   (reader field names distinct, no reader aliases, every reader field present in the writer), with
   the pair bytes -> string excluded.  There a Full verdict is sound at every depth and size: every
   value the writer schema accepts resolves under the reader schema.  The refutations below are all
   outside this fragment (logical types, bytes -> string, aliases); unions and defaults are not in it. *)
Theorem C09_full_sound_fragment :
  forall fuel W R v fc c nmz ens c' nmz' ens',
    frag fuel W R = true -> can_read fuel W R = Ok CFull -> conforms fc c nmz ens W v = true ->
    exists v', resolve fuel c' nmz' ens' R v = Ok v'.
Proof. exact full_verdict_sound. Qed.

(* The soundness direction fails on the faithful model: Full verdicts whose reads fail. *)
Definition cfg0 : cfg := mkCfg 4096 56 80.
Definition nm (s : list N) : name := mkName None s.
Definition fld (n : list N) (al : list (list N)) : fmeta := mkFmeta n None al None [].
Definition rd (R : schema) (v : value) := resolve 8 cfg0 [] None R v.
Definition rd' (R : schema) (v : value) := resolve 6 cfg0 [] None R v.

Example C09_full_unsound_refuted :
  (* a date read as a long (F45), bytes that are not UTF-8 read as a string, a decimal read as bytes *)
  (can_read 4 SDate SLong = Ok CFull /\ rd SLong (VDate 3) = Err) /\
  (can_read 4 SBytes SString = Ok CFull /\ rd SString (VBytes [255]) = Err) /\
  (can_read 4 (SDecimal 4 1 DBytes) SBytes = Ok CFull /\ rd SBytes (VDecimal [5]) = Err).
Proof. repeat split; vm_compute; reflexivity. Qed.

Example C09_alias_unsound_refuted :       (* the checker honours reader aliases, resolution does not (F29) *)
  let W := SRecord (nm [82]) None None [(fld [97] [], SInt)] [] in
  let R := SRecord (nm [82]) None None [(fld [98] [[97]], SInt)] [] in
  can_read 4 W R = Ok CFull /\ rd R (VRecord [([97], VInt 5)]) = Err.
Proof. split; vm_compute; reflexivity. Qed.

(* non-vacuity *)
Example C09_examples :
  let W := SRecord (nm [82]) None None [(fld [97] [], SInt); (fld [98] [], SString)] [] in
  let R := SRecord (nm [82]) None None [(fld [98] [], SBytes); (fld [97] [], SLong)] [] in
  schema_wfb W = true /\ can_read 4 W W = Ok CFull /\ can_read 4 W R = Ok CFull /\
  mutual_read 4 W R = Err /\ mutual_read 4 R W = Err /\
  can_read 4 (SUnion [SNull; SInt]) (SUnion [SInt]) = Ok CPartial.
Proof. repeat split; vm_compute; reflexivity. Qed.

Example C09_fragment_example :
  let E  := SEnum (nm [69]) None None [[65]; [66]] None [] in
  let E' := SEnum (nm [69]) None None [[66]; [65]; [67]] (Some [67]) [] in
  let W := SRecord (nm [82]) None None [(fld [97] [], SInt); (fld [98] [], SArray E []); (fld [99] [], SMap SFloat [])] [] in
  let R := SRecord (nm [82]) None None [(fld [98] [], SArray E' []); (fld [97] [], SLong)] [] in
  let v := VRecord [([97], VInt 5); ([98], VArray [VEnum 1 [66]; VEnum 0 [65]]); ([99], VMap [([107], VFloat 0)])] in
  frag 6 W R = true /\ can_read 6 W R = Ok CFull /\ conforms 6 cfg0 [] None W v = true /\
  rd' R v = Ok (VRecord [([98], VArray [VEnum 0 [66]; VEnum 1 [65]]); ([97], VLong 5)]) /\
  frag 6 SBytes SString = false /\ frag 6 SDate SLong = false.
Proof. repeat split; vm_compute; reflexivity. Qed.
