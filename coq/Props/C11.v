(* C11 - the schema parser is total and accepts exactly well-formed schemas.

   Model/Parser.v is a total Gallina function (recursion on fuel, bounded by the nesting depth of the
   JSON value), tied to Schema::parse_str by the differential check gen/c11.py on accepted, mutated
   and arbitrary texts.  What an accepted schema satisfies is proved of the model below; the two
   well-formedness clauses the code does not enforce are refuted with witnesses (known findings). *)
From AvroV Require Import Base Varint Schema Bytes Names Floats Codec Conforms Validate SingleObject Resolve Lit SchemaJson Parser.
From AvroV Require Import BytesP ParserP.
From Coq Require Import String.
Open Scope N_scope.

(* Names: every name the parser builds (Name::new with any enclosing namespace, Name::parse from a
   "name"/"namespace" pair) matches the grammar of the specification. *)
Theorem C11_names_grammar :
  (forall s ens n, name_new s ens = Ok n -> valid_name n) /\
  (forall m ens n, name_parse m ens = Ok n -> valid_name n).
Proof. split; [exact name_new_valid|exact name_parse_valid]. Qed.

(* Unions: an accepted union has no nested union, no two branches with the same name and no two
   unnamed branches of the same type (logical types counted as their underlying type). *)
Theorem C11_union_rules :
  forall rec st l ens s st',
    parse_union_with rec st l ens = Ok (s, st') ->
    exists bs, s = SUnion bs /\
      (forall b, In b bs -> schema_name b = None -> kind_eqb (base_kind b) KUnion = false) /\
      (forall i j bi bj, (i < j)%nat -> nth_error bs i = Some bi -> nth_error bs j = Some bj ->
         match schema_name bi, schema_name bj with
         | Some a, Some b => name_eqb b a = false
         | None, None => kind_eqb (base_kind bj) (base_kind bi) = false
         | _, _ => True
         end).
Proof.
  intros rec st l ens s st' H. destruct (parse_union_rules _ _ _ _ _ _ H) as (bs & -> & Hc).
  exists bs. split; [reflexivity|]. split.
  - exact (proj1 (union_check_sound _ _ _ Hc)).
  - exact (union_check_distinct _ _ _ Hc).
Qed.

(* Enums: symbols match the grammar, are pairwise distinct, and a default is one of them. *)
Theorem C11_enum_rules :
  forall st m ens s st',
    parse_enum st m ens = Ok (s, st') -> lookup (K "symbols") m <> None ->
    exists n al doc symbols dflt a,
      s = SEnum n al doc symbols dflt a /\ valid_name n /\
      forallb is_ident symbols = true /\ nodup_strs' symbols = true /\
      match dflt with Some d => existsb (bytes_eqb d) symbols = true | None => True end.
Proof. exact parse_enum_rules. Qed.

Theorem C11_fixed_rules :
  forall st m ens s st',
    parse_fixed st m ens = Ok (s, st') -> lookup (K "size") m <> None ->
    exists f, s = SFixed f /\ valid_name (fx_name f) /\ fx_size f < 2 ^ 64.
Proof. exact parse_fixed_rules. Qed.

(* Records: field names match the grammar and are pairwise distinct; *)
Theorem C11_record_rules :
  forall rec fuel st m ens s st',
    parse_record_with rec fuel st m ens = Ok (s, st') -> lookup (K "fields") m <> None ->
    exists n al doc fs a,
      s = SRecord n al doc fs a /\ valid_name n /\
      NoDup (map (fun ms : fmeta * schema => f_name (fst ms)) fs) /\
      forallb (fun ms : fmeta * schema => is_ident (f_name (fst ms))) fs = true.
Proof. exact parse_record_rules. Qed.

(* an accepted field default resolves against the field's schema (for a union field: against one of
   its branches - not necessarily the first, which the specification asks for). *)
Theorem C11_default_conforms :
  forall fuel parsed s j,
    (forall bs, s <> SUnion bs) -> default_ok fuel parsed s (Some j) = Ok tt ->
    exists v v', json_to_value fuel j = Ok v /\ resolve fuel default_cfg parsed (schema_ns s) s v = Ok v'.
Proof. exact default_ok_resolves. Qed.

(* Not enforced by the code (faithful model, witnesses replayed on the implementation): *)
Definition obj (l : list (str * json)) : json := to_value (JObj l).
Definition fixed_json (n : string) (sz : Z) : json :=
  obj [(K "type", JStr (K "fixed")); (K "name", JStr (K n)); (K "size", JInt sz)].
Arguments fixed_json n%string sz.
Definition field_json (n : string) (t : json) : json := obj [(K "name", JStr (K n)); (K "type", t)].
Arguments field_json n%string t.

Example C11_duplicate_definition_refuted :        (* F25: the same full name defined twice *)
  exists s, parse_schema 8 (obj [(K "type", JStr (K "record")); (K "name", JStr (K "R"));
                                 (K "fields", JArr [field_json "a" (fixed_json "F" 1%Z); field_json "b" (fixed_json "F" 2%Z)])])
            = Ok s.
Proof. eexists. vm_compute. reflexivity. Qed.

Example C11_union_bigdecimal_refuted :            (* F56: big-decimal is a logical type on bytes, accepted next to bytes *)
  parse_schema 8 (JArr [obj [(K "type", JStr (K "bytes")); (K "logicalType", JStr (K "big-decimal"))]; JStr (K "bytes")])
  = Ok (SUnion [SBigDecimal; SBytes]).
Proof. vm_compute. reflexivity. Qed.

Example C11_unresolvable_reference_refuted :      (* F26: accepted, but its reference does not resolve *)
  let j := JArr [fixed_json "F" 1%Z;
                 obj [(K "type", JStr (K "record")); (K "name", JStr (K "R")); (K "namespace", JStr (K "ns"));
                      (K "fields", JArr [field_json "b" (JStr (K ".F"))])]] in
  exists s, parse_schema 8 j = Ok s /\ resolved s = Err.
Proof. eexists. split; vm_compute; reflexivity. Qed.

(* non-vacuity: rejections for each rule *)
Example C11_examples :
  parse_schema 8 (JArr [JStr (K "int"); JStr (K "int")]) = Err /\
  parse_schema 8 (JArr [JStr (K "int"); JArr [JStr (K "null")]]) = Err /\
  parse_schema 8 (fixed_json "9a" 1%Z) = Err /\ parse_schema 8 (fixed_json "a..b" 1%Z) = Err /\
  parse_schema 8 (fixed_json "F" (-1)%Z) = Err /\
  parse_schema 8 (obj [(K "type", JStr (K "enum")); (K "name", JStr (K "E")); (K "symbols", JArr [JStr (K "A"); JStr (K "A")])]) = Err /\
  parse_schema 8 (obj [(K "type", JStr (K "enum")); (K "name", JStr (K "E")); (K "symbols", JArr [JStr (K "A")]); (K "default", JStr (K "B"))]) = Err /\
  parse_schema 8 (obj [(K "type", JStr (K "record")); (K "name", JStr (K "R"));
                       (K "fields", JArr [field_json "a" (JStr (K "int")); field_json "a" (JStr (K "long"))])]) = Err /\
  parse_schema 8 (obj [(K "type", JStr (K "record")); (K "name", JStr (K "R"));
                       (K "fields", JArr [obj [(K "name", JStr (K "a")); (K "type", JStr (K "int")); (K "default", JStr (K "x"))]])]) = Err /\
  parse_schema 8 (JStr (K "Missing")) = Err.
Proof. repeat split; vm_compute; reflexivity. Qed.
