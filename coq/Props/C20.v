(* C20 - multi-schema parsing is independent of input order and deterministic.

   Model/Parser.v: parse_list (collect_inputs, drain with the HashMap iteration order as a parameter,
   take_parsed).  Tied to Schema::parse_list by gen/c20.py (every permutation of the input list, three
   runs in separate processes, model outcome for each processing order). *)
From AvroV Require Import Base Varint Schema Bytes Names Floats Codec Conforms Validate SingleObject Resolve Lit SchemaJson Parser.
From AvroV Require Import BytesP ParserP.
From Coq Require Import String.
Open Scope N_scope.

(* Two inputs with the same full name are rejected up front, whatever else the list holds and
   whatever the hash order is. *)
Lemma inputs_get_cons_same n v acc : inputs_get n ((n, v) :: acc) = Some v.
Proof.
  cbn [inputs_get]. assert (E : name_eqb n n = true).
  { unfold name_eqb. rewrite bytes_eqb_refl. destruct (ns n); cbn; rewrite ?bytes_eqb_refl; reflexivity. }
  rewrite E. reflexivity.
Qed.

Theorem C20_collision_rejected :
  forall fuel hash_order m m' n rest,
    name_parse m None = Ok n -> name_parse m' None = Ok n ->
    parse_list fuel hash_order (JObj m :: JObj m' :: rest) = Err.
Proof.
  intros fuel ho m m' n rest H1 H2. unfold parse_list. cbn [collect_inputs]. rewrite H1. cbn [bind].
  change (inputs_get n []) with (@None json). cbn iota. cbn [collect_inputs]. rewrite H2. cbn [bind].
  rewrite inputs_get_cons_same. reflexivity.
Qed.

(* The result lists the inputs in input order: one schema per input, the i-th the one registered
   under the i-th input's name. *)
Lemma take_parsed_length order : forall parsed l, take_parsed order parsed = Ok l -> List.length l = List.length order.
Proof.
  induction order as [|n r IH]; intros parsed l H; cbn [take_parsed] in H; [injection H as <-; reflexivity|].
  destruct (names_get n parsed) as [s|]; [|discriminate H].
  destruct (take_parsed r (names_remove n parsed)) as [more| | |] eqn:E; cbn [bind] in H; try discriminate H.
  injection H as <-. cbn [List.length]. rewrite (IH _ _ E). reflexivity.
Qed.

Theorem C20_input_order_result :
  forall order parsed l,
    take_parsed order parsed = Ok l ->
    List.length l = List.length order /\
    match order, l with n :: _, s :: _ => names_get n parsed = Some s | _, _ => True end.
Proof.
  intros order parsed l H. split; [exact (take_parsed_length _ _ _ H)|].
  destruct order as [|n r]; [exact I|]. cbn [take_parsed] in H.
  destruct (names_get n parsed) as [s|]; [|discriminate H].
  destruct (take_parsed r (names_remove n parsed)) as [more| | |]; cbn [bind] in H; try discriminate H.
  injection H as <-. reflexivity.
Qed.

(* FALSE of the model (known finding F52): a reference to a type defined nested inside another input
   resolves only when that input is processed first - the outcome depends on the processing order. *)
Definition obj (l : list (str * json)) : json := to_value (JObj l).
Definition inputA : json :=
  obj [(K "type", JStr (K "record")); (K "name", JStr (K "A"));
       (K "fields", JArr [obj [(K "name", JStr (K "i"));
                               (K "type", obj [(K "type", JStr (K "fixed")); (K "name", JStr (K "q.Inner")); (K "size", JInt 2)])]])].
Definition inputB : json :=
  obj [(K "type", JStr (K "record")); (K "name", JStr (K "B"));
       (K "fields", JArr [obj [(K "name", JStr (K "u")); (K "type", JStr (K "q.Inner"))]])].

Example C20_order_dependence_refuted :
  is_ok (parse_list 8 [0; 1] [inputA; inputB]) = true /\ parse_list 8 [1; 0] [inputA; inputB] = Err.
Proof. split; vm_compute; reflexivity. Qed.

(* an input registered under the name of its inner "type" object: an error (a panic before fix F51) *)
Example C20_type_name_example :
  parse_list 8 [0; 1]
    [obj [(K "name", JStr (K "A")); (K "type", obj [(K "type", JStr (K "record")); (K "name", JStr (K "B")); (K "fields", JArr [])])];
     obj [(K "type", JStr (K "fixed")); (K "name", JStr (K "C")); (K "size", JInt 1)]] = Err.
Proof. vm_compute. reflexivity. Qed.

(* non-vacuity: a cycle through two inputs parses in both processing orders to the same schemas; a
   dangling reference fails in both *)
Definition recX : json :=
  obj [(K "type", JStr (K "record")); (K "name", JStr (K "X"));
       (K "fields", JArr [obj [(K "name", JStr (K "y")); (K "type", JArr [JStr (K "null"); JStr (K "Y")])]])].
Definition recY : json :=
  obj [(K "type", JStr (K "record")); (K "name", JStr (K "Y"));
       (K "fields", JArr [obj [(K "name", JStr (K "x")); (K "type", JArr [JStr (K "null"); JStr (K "X")])]])].
Example C20_examples :
  parse_list 8 [0; 1] [recX; recY] = parse_list 8 [1; 0] [recX; recY] /\
  is_ok (parse_list 8 [0; 1] [recX; recY]) = true /\
  parse_list 8 [0; 1] [inputB; recX; recY] = Err /\ parse_list 8 [2; 1; 0] [inputB; recX; recY] = Err.
Proof. repeat split; vm_compute; reflexivity. Qed.
