(* C04 - object container files conform to the specified layout in both directions.

   Reading direction (theorems): any specification-conforming file is read to its values, whatever
   the partition into blocks, the codec (given decompress (compress x) = x for the codec library,
   which is outside the model) and the block layout of the metadata map.  Writing direction: C03's
   theorems (the file the writer produces is header ++ blocks of the accepted values) plus, on
   every run, the independent reader gen/ocf.py with the reference codecs. *)
From AvroV Require Import Base Varint Schema Bytes Names Codec Conforms BinEnc Container.
From AvroV Require Import BytesP CodecP SpecP ContainerP.
Open Scope N_scope.

(* Body: for EVERY partition of the item encodings into non-empty blocks, every codec and every
   marker, the reader yields exactly the values, in order, and ends cleanly. *)
Theorem C04_body_any_partition :
  forall (c : cfg) (cd : codec) (cmp : bytes -> bytes),
    (forall x, c_decomp cd (cmp x) = Ok x) ->
  forall (dec_item : bytes -> res (value * bytes)) (marker : bytes) (groups : list (list bytes))
         (vs : list value) (g0 : nat),
    length marker = 16%nat ->
    Forall (fun g => g <> []) groups ->
    Forall2 (item_law dec_item) (concat groups) vs ->
    (Forall (fun d => d = []) (concat groups) \/ Forall (fun d => d <> []) (concat groups)) ->
    Forall (fun g => lenN g < 2 ^ 63 /\ lenN (cmp (concat g)) <= max_alloc c /\ lenN (cmp (concat g)) < 2 ^ 63) groups ->
    (length groups < g0)%nat ->
    read_blocks c cd dec_item g0 marker (wbody cmp marker groups) = (vs, Clean).
Proof. exact written_body_reads. Qed.

(* Header: the magic, then the metadata map in ANY layout the binary encoding allows (several blocks,
   negative counts with byte sizes, any key order, unknown keys), then the marker: the reader obtains
   exactly the metadata entries, the marker, and is positioned at the first block. *)
Theorem C04_header_any_layout :
  forall (c : cfg) (l : list (str * value)) (mbytes marker rest : bytes),
    spec [] None (SMap SBytes []) (VMap l) mbytes ->
    conforms 2 c [] None (SMap SBytes []) (VMap l) = true ->
    lenN marker = 16 ->
    ropen c (magic ++ mbytes ++ marker ++ rest) =
    Ok (map (fun kv => (fst kv, match snd kv with VBytes b => b | _ => [] end)) l, marker, rest).
Proof.
  intros c l mbytes marker rest Hs Hc Hm. unfold ropen.
  rewrite (take_app_n 4 magic (mbytes ++ marker ++ rest) eq_refl).
  change (bytes_eqb magic magic) with true. cbn iota.
  rewrite (spec_decodes c [] 2 (SMap SBytes []) (VMap l) None mbytes Hs Hc (marker ++ rest)). cbn [bind].
  rewrite (take_app_n 16 marker rest Hm). reflexivity.
Qed.

(* non-vacuity: a two-entry metadata map written as one negative-count block followed by a positive
   one, and the same two entries in one block, are both accepted with the same result *)
Example C04_examples :
  let k1 := [97] in let k2 := [98] in
  let e1 := [2; 97; 2; 120] in let e2 := [2; 98; 0] in
  let mk := [1;2;3;4;5;6;7;8;9;10;11;12;13;14;15;16] in
  ropen (mkCfg 4096 56 80) (magic ++ ([1; 8] ++ e1 ++ [2] ++ e2 ++ [0]) ++ mk ++ [42]) =
    Ok ([(k1, [120]); (k2, [])], mk, [42]) /\
  ropen (mkCfg 4096 56 80) (magic ++ ([4] ++ e1 ++ e2 ++ [0]) ++ mk ++ [42]) =
    Ok ([(k1, [120]); (k2, [])], mk, [42]).
Proof. split; vm_compute; reflexivity. Qed.
