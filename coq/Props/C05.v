(* C05 - decoding untrusted bytes never panics, aborts, hangs or over-allocates.

   What a proof about the model can carry: the datum decoder model (tied to decode.rs by the checks of
   C01, C02, C06 and by gen/c05.py) is a total function that never takes a panic branch, for every
   schema and every byte string; every length and item count declared in the data is compared with the
   configured allocation limit before any payload is taken; block decompression output is bounded
   (C15).  What the model cannot exhibit - aborts of the allocator, stack exhaustion on deeply nested
   data, wall-clock time - is checked on the implementation only (counting allocator, time limits):
   this property is decided PARTLY by proof. *)
From AvroV Require Import Base Varint Schema Bytes Names Codec CodecFrame BytesP CodecFrameP C05P.
Open Scope N_scope.

(* Totality and panic-freedom: for every fuel, limit, name table, schema and byte string the decoder
   model returns a value, an error or runs out of fuel - never Panic. *)
Theorem C05_decode_never_panics :
  forall fuel c nmz ens s bs, decode fuel c nmz ens s bs <> Panic.
Proof. exact decode_no_panic. Qed.

(* Declared lengths: a byte string / string / decimal payload that is returned was announced with a
   length within the limit; an announced length above it is an error whatever follows. *)
Theorem C05_declared_length_bounded :
  forall c bs,
    (forall n r, dec_len c bs = Ok (n, r) -> n <= max_alloc c) /\
    (forall b r, dec_bytes c bs = Ok (b, r) -> lenN b <= max_alloc c).
Proof. intros c bs. split; [intros n r; apply dec_len_limit|intros b r; apply dec_bytes_limit]. Qed.

(* Declared counts: a block count above the limit is an error, and a block that would take the running
   total (items so far + count) times the in-memory size of one item above the limit is an error
   before its first item is decoded. *)
Theorem C05_declared_count_bounded :
  forall A c esize (d : bytes -> res (A * bytes)) g have bs,
    (forall n r, dec_seq_len c bs = Ok (n, r) -> n <= max_alloc c) /\
    (forall n r, dec_seq_len c bs = Ok (n, r) -> n <> 0 -> safe_coll c esize (have + n) = false ->
       dec_blocks c esize d (S g) have bs = Err).
Proof.
  intros A c esize d g have bs. split; [intros n r; apply dec_seq_len_limit|intros n r; apply dec_blocks_guard].
Qed.

(* non-vacuity: a string announcing 2^40 bytes, an array block announcing 2^40 items and a negative
   length are errors under a 4 KiB limit; the same limit lets a 3-byte string through *)
Example C05_examples :
  let c := mkCfg 4096 56 80 in
  decode 4 c [] None SString (enc_long (2 ^ 40) ++ [1; 2; 3]) = Err /\
  decode 4 c [] None (SArray SNull []) (enc_long (2 ^ 40) ++ [0]) = Err /\
  decode 4 c [] None SBytes (enc_long (-1)) = Err /\
  decode 4 c [] None SString (enc_long 3 ++ [97; 98; 99; 7]) = Ok (VString [97; 98; 99], [7]).
Proof. repeat split; vm_compute; reflexivity. Qed.
