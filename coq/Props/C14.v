(* C14 - a truncated or marker-corrupted container file yields a true prefix, then an error. *)
From AvroV Require Import Base Varint Schema Bytes Names Codec Conforms Container VarintP BytesP ContainerP HeaderP.
Open Scope N_scope.

(* For ANY spec-conforming sequence of blocks (any codec with c_decomp inverting the payloads, any
   item decoder, any block partition, counts of any varint length, zero-width or variable-width
   items) and ANY cut offset k into the block section: reading delivers exactly the values of the
   blocks that lie completely before the cut, and ends Clean iff the cut is on a block boundary. *)
Theorem C14_cut_anywhere :
  forall (c : cfg) (cd : codec) (dec_item : bytes -> res (value * bytes)) (marker : bytes),
    length marker = 16%nat ->
    forall (bl : list blk) (k g : nat),
      Forall (good_blk c cd dec_item) bl -> (length bl < g)%nat -> (k <= length (body marker bl))%nat ->
      read_blocks c cd dec_item g marker (firstn k (body marker bl)) = expected marker bl k.
Proof. exact cut_anywhere. Qed.

(* the uncut file: every value, clean end *)
Theorem C14_whole_file :
  forall c cd dec_item marker, length marker = 16%nat ->
    forall bl g, Forall (good_blk c cd dec_item) bl -> (length bl < g)%nat ->
      read_blocks c cd dec_item g marker (body marker bl) = (concat (map b_vals bl), Clean).
Proof. exact read_whole. Qed.

(* Replacing the trailing marker of block i by anything else of 16 bytes (in particular altering
   any single byte of it): the values of blocks before i, then an error; nothing of block i or of
   any later block. *)
Theorem C14_marker_corruption :
  forall c cd dec_item marker, length marker = 16%nat ->
    forall pre b post m' g,
      Forall (good_blk c cd dec_item) pre -> good_blk c cd dec_item b ->
      length m' = 16%nat -> m' <> marker -> (length pre < g)%nat ->
      read_blocks c cd dec_item g marker
        (body marker pre ++ (enc_long (Z.of_N (lenN (b_vals b))) ++ enc_long (Z.of_N (lenN (b_payload b)))
                             ++ b_payload b ++ m') ++ body marker post)
      = (concat (map b_vals pre), Failed).
Proof. exact marker_corruption. Qed.

(* A cut inside the header - in the magic, anywhere in the metadata map, or in the marker - makes the
   file impossible to open: no value is delivered.  For every metadata map (any entries, any order) and
   every cut point; the header is the one the writer emits (header_bytes). *)
Theorem C14_header_cut :
  forall (c : cfg) order fixed st (k : nat),
    conforms 2 c [] None (SMap SBytes []) (meta_value (order (fixed ++ w_meta st))) = true ->
    lenN (w_marker st) = 16 ->
    (k < length (header_bytes order fixed st))%nat ->
    ropen c (firstn k (header_bytes order fixed st)) = Err.
Proof. exact written_header_cut. Qed.

(* non-vacuity: two blocks of longs with the null codec, cut inside the second block's count *)
Definition ex_dec (bs : bytes) : res (value * bytes) :=
  match dec_long bs with LOk z r => Ok (VLong z, r) | _ => Err end.
Definition ex_marker : bytes := [1;2;3;4;5;6;7;8;9;10;11;12;13;14;15;16].
Definition ex_b1 : blk := mkBlk [VLong 1; VLong (-1)] [2; 1].
Definition ex_b2 : blk := mkBlk (repeat (VLong 0) 100) (repeat 0 100).
(* The Reader as an iterator (and its deserializing twin): whatever the block reader produced - the values of the whole
   blocks before the damage, and whether it ended cleanly - is handed out as exactly those values, then the error once if
   there was one, then None for EVERY later call: nothing is delivered after an error, however long the caller keeps
   asking. *)
Theorem C14_iterator_latches :
  forall (vs : list value) (e : rend) (n : nat),
    rtake (length vs + S n) (mkRI vs e false) =
    map (fun v => Some (RValue v)) vs ++
    match e with Clean => repeat None (S n) | Failed => Some RError :: repeat None n end.
Proof. exact iterator_latches. Qed.

Example C14_example :
  let c := mkCfg 4096 56 80 in
  read_blocks c null_codec ex_dec 5 ex_marker (firstn 21 (body ex_marker [ex_b1; ex_b2]))
  = ([VLong 1; VLong (-1)], Failed)
  /\ length (body ex_marker [ex_b1; ex_b2]) = 140%nat.
Proof. vm_compute. split; reflexivity. Qed.
