(* C10 - serializing a parsed schema to JSON and parsing it again preserves the schema.

   Model/SchemaJson.v is the model of the hand-written Serialize impls (ser) and of
   serde_json::to_value; Model/Parser.v the model of the parser.  Both are tied to the code by the
   differential checks gen/c10.py and gen/c11.py (serialiser output compared entry by entry, parser
   outcome compared on accepted, mutated and arbitrary texts). *)
From AvroV Require Import Base Varint Schema Bytes Names Floats Codec Conforms Validate SingleObject Resolve Lit SchemaJson Parser.
From AvroV Require Import BytesP ParserP SchemaJsonP.
From Coq Require Import String.
Open Scope N_scope.

(* Strict JSON: for every schema whose custom attributes have distinct keys, none of them a key the
   node writes itself (what get_custom_attributes leaves), and strict values, no object of the
   serialised schema repeats a key - including the fixed inside a decimal, whose "precision" and
   "scale" attributes are left out by the decimal that writes them itself (fix F49). *)
Theorem C10_strict_json : forall s, cleanb s = true -> strict (ser s) = true.
Proof. exact ser_strict. Qed.

(* Full names: what Name::fullname writes, Name::new reads back - for every name matching the
   grammar (simple name an identifier, namespace absent or non-empty dotted identifiers). *)
Theorem C10_name_roundtrip : forall n, valid_name n -> name_new (fullname n) None = Ok n.
Proof. exact name_roundtrip. Qed.

(* Every unnamed leaf schema - the primitives and every logical type on bytes, string, int, long -
   is read back from its own serialisation. *)
Definition leaves : list schema :=
  [SNull; SBoolean; SInt; SLong; SFloat; SDouble; SBytes; SString; SBigDecimal; SUuid UString; SUuid UBytes;
   SDate; STimeMillis; STimeMicros; STimestampMillis; STimestampMicros; STimestampNanos;
   SLocalTimestampMillis; SLocalTimestampMicros; SLocalTimestampNanos;
   SDecimal 1 0 DBytes; SDecimal 4 4 DBytes; SDecimal 38 10 DBytes].
Theorem C10_leaf_roundtrip :
  forall s, In s leaves -> parse_schema 4 (to_value (ser s)) = Ok s.
Proof.
  intros s H. unfold leaves in H. cbn [In] in H.
  repeat (destruct H as [<-|H]; [vm_compute; reflexivity|]). destruct H.
Qed.

(* The full statement is FALSE of the model: a type with an explicitly empty namespace nested in a
   namespaced type is written without a namespace and read back into the enclosing one (F19). *)
Definition nsR : name := mkName (Some (K "ns")) (K "R").
Definition fxF (nsp : option str) : fixedS := mkFixed (mkName nsp (K "F")) None None 1 [].
Definition fld (n : str) : fmeta := mkFmeta n None [] None [].
Example C10_null_namespace_refuted :
  let s := SRecord nsR None None [(fld (K "f"), SFixed (fxF None))] [] in
  parse_schema 6 (to_value (ser s)) = Ok (SRecord nsR None None [(fld (K "f"), SFixed (fxF (Some (K "ns"))))] []).
Proof. vm_compute. reflexivity. Qed.

(* non-vacuity: a record with a doc, aliases, a defaulted field, a nested enum in another namespace, a
   reference and a custom attribute is clean, serialises strictly and is read back unchanged *)
Example C10_examples :
  let e := SEnum (mkName (Some (K "other")) (K "E")) None (Some (K "d")) [K "A"; K "B"] (Some (K "A")) [(K "x", JInt 1)] in
  let s := SRecord nsR (Some [mkName (Some (K "ns")) (K "Old")]) (Some (K "doc"))
             [(mkFmeta (K "a") None [K "aa"] (Some (JInt 3)) [(K "order", JStr (K "ignore"))], SLong);
              (fld (K "e"), e);
              (fld (K "again"), SArray (SRef (mkName (Some (K "other")) (K "E"))) [])] [(K "zz", JBool true)] in
  cleanb s = true /\ strict (ser s) = true /\ parse_schema 8 (to_value (ser s)) = Ok s.
Proof. repeat split; vm_compute; reflexivity. Qed.
