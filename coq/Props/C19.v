(* C19 - process-wide settings are first-set-wins, uniformly enforced and thread-safe. *)
From AvroV Require Import Base Settings Varint Schema Bytes Codec SettingsP.
Open Scope N_scope.

(* For EVERY schedule (any number of threads, any interleaving of setters and users, linearised at
   OnceLock granularity): the first operation fixes the value; it is what the cell holds at the
   end; the first caller is told so (its own value / Ok); every later get_or_init-style call is
   told that same value and every later set is refused with the caller's value handed back. *)
Theorem C19_first_wins :
  forall (V : Type) (o : @sop V) (rest : list sop),
    let '(c, outs) := srun None (o :: rest) in
    c = Some (op_value o) /\
    match outs with
    | first :: later =>
      first = (match o with GetOrInit v => Got v | TrySet _ => Accepted end) /\
      Forall2 (observes (op_value o)) rest later
    | [] => False
    end.
Proof. intros V. exact first_wins. Qed.

(* and it never changes afterwards *)
Theorem C19_stable :
  forall (V : Type) (ops more : list (@sop V)) (w : V),
    fst (srun None ops) = Some w -> fst (srun None (ops ++ more)) = Some w.
Proof. intros V. exact stable. Qed.

(* The allocation limit in force - ANY value from 0 to usize::MAX - is exactly the threshold of the
   decoders: a declared byte length is accepted iff it is <= the limit (bytes, strings, fixed-size
   block buffers), a block count iff it is <= the limit and count * element size neither overflows
   usize nor exceeds the limit. *)
Theorem C19_limit_enforced_len :
  forall (c : cfg) (b r : bytes), lenN b < 2 ^ 63 ->
    dec_bytes c (enc_bytes b ++ r) = if lenN b <=? max_alloc c then Ok (b, r) else Err.
Proof. exact dec_bytes_limit. Qed.

Theorem C19_limit_enforced_count :
  forall (c : cfg) (n : N) (r : bytes), 0 < n -> n < 2 ^ 63 ->
    dec_seq_len c (enc_long (Z.of_N n) ++ r) = if n <=? max_alloc c then Ok (n, r) else Err.
Proof. exact seq_len_limit. Qed.

Theorem C19_limit_enforced_collection :
  forall (c : cfg) (esize n : N),
    safe_coll c esize n = true <-> n * esize <= usize_max /\ n * esize <= max_alloc c.
Proof. exact safe_coll_iff. Qed.

(* non-vacuity: three threads; the setter that is linearised first wins *)
Example C19_example :
  srun None [TrySet 7; GetOrInit 3; TrySet 9; GetOrInit 5]
  = (Some 7, [Accepted; Got 7; Rejected 9; Got 7]).
Proof. reflexivity. Qed.
