(* C01 - Datum round trip.  Property theorems only; proofs live in Proofs/. *)
From AvroV Require Import Base Varint Schema Bytes Names Codec Conforms Validate.
From AvroV Require Import VarintP BytesP CodecP ValidateP.
Open Scope N_scope.

(* Every conforming value of every schema is encoded, and decoding the bytes - followed by any
   other bytes [rest] - returns exactly that value and exactly [rest]: no byte more, no byte fewer.
   [c] is the allocation limit configuration (any), [nmz] any names table in which a record stored
   under a key carries the key's namespace, fuel any nesting bound that [conforms] accepts. *)
Theorem C01_roundtrip :
  forall (c : cfg) (nmz : names) (s : schema) (v : value) (fuel : nat),
    names_okb nmz = true ->
    conforms fuel c nmz None s v = true ->
    exists bs, encode fuel nmz None s v = Ok bs /\
      forall fd rest, (fuel <= fd)%nat -> decode fd c nmz None s (bs ++ rest) = Ok (v, rest).
Proof.
  intros c nmz s v fuel Hn Hc.
  exact (roundtrip_gen c nmz (names_okb_ok nmz Hn) fuel s v None None
           (agree_of_nsq None None s eq_refl) Hc).
Qed.

(* Datums can be concatenated and read back one after another. *)
Theorem C01_concat :
  forall (c : cfg) (nmz : names) (s : schema) (vs : list value) (fuel : nat),
    names_okb nmz = true ->
    forallb (conforms fuel c nmz None s) vs = true ->
    exists bs, enc_list (encode fuel nmz None s) vs = Ok bs /\
      forall rest, dec_items (decode fuel c nmz None s) (length vs) (bs ++ rest) = Ok (vs, rest).
Proof.
  intros c nmz s vs fuel Hn Hall.
  apply (items_rt (conforms fuel c nmz None s)); [|exact Hall].
  intros x _ Hx. destruct (C01_roundtrip c nmz s x fuel Hn Hx) as (a & Ha & Hd).
  exists a. split; [exact Ha|]. intros r. apply Hd. apply le_n.
Qed.

(* The result is the same whether or not the writer validates first: a conforming value passes
   validation (whatever the union search does), so both paths run the same encoder. *)
Theorem C01_validate_irrelevant :
  forall (c : cfg) (find : find_fn) (nmz : names) (s : schema) (v : value) (fuel : nat),
    conforms fuel c nmz None s v = true ->
    write_value fuel find true nmz s v = write_value fuel find false nmz s v.
Proof.
  intros c find nmz s v fuel Hc. unfold write_value.
  rewrite (conforms_validates c nmz find fuel s v None None (agree_of_nsq None None s eq_refl) Hc).
  reflexivity.
Qed.

(* A fixed-size decimal written from fewer bytes than the schema's size reads back as the
   sign-extended bytes: numerically the same decimal (equal minimal two's-complement form). *)
Theorem C01_decimal_fixed_numeric :
  forall (b e : bytes) (size : N),
    sign_extend size b = Some e -> b <> [] -> minimal e = minimal b /\ lenN e = size.
Proof. exact sign_extend_minimal. Qed.

(* ---- non-vacuity: a recursive record holding a union, an array and a fixed decimal ---- *)
Definition ex_name : name := mkName (Some [110]) [82].                    (* n.R *)
Definition ex_fixed : fixedS := mkFixed (mkName (Some [110]) [68]) None None 4 [].
Definition ex_schema : schema :=
  SRecord ex_name None None
    [ (mkFmeta [97] None [] None [], SLong);
      (mkFmeta [98] None [] None [], SUnion [SNull; SRef (mkName None [82])]);
      (mkFmeta [99] None [] None [], SArray (SDecimal 9 2 (DFixed ex_fixed)) []) ] [].
Definition ex_names : names := [(ex_name, ex_schema); (fx_name ex_fixed, SFixed ex_fixed)].
Definition ex_value : value :=
  VRecord [ ([97], VLong (-64)%Z);
            ([98], VUnion 1 (VRecord [ ([97], VLong 1%Z); ([98], VUnion 0 VNull); ([99], VArray []) ]));
            ([99], VArray [VDecimal [255; 255; 255; 133]]) ].
Definition ex_cfg : cfg := mkCfg 4096 56 80.

Example C01_nonvacuous :
  names_okb ex_names = true /\ conforms 6 ex_cfg ex_names None ex_schema ex_value = true.
Proof. split; vm_compute; reflexivity. Qed.

Example C01_example_bytes :
  encode 6 ex_names None ex_schema ex_value = Ok [127; 2; 2; 0; 0; 2; 255; 255; 255; 133; 0].
Proof. vm_compute. reflexivity. Qed.
