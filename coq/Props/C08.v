(* C08 - reading with a different reader schema follows the specification's resolution rules.

   Spec/Resolution.v is the executable specification (spec_read); Model/Resolve.v is the model of the
   implementation's Value::resolve (tied to the code by the differential check, gen/c08.py).
   What holds of the implementation is proved; where the faithful model departs from the rules the
   departure is proved as a refutation with a concrete witness, replayed on the implementation by
   the check and listed in known_findings.json. *)
From AvroV Require Import Base Varint Schema Bytes Names Floats Codec Conforms Validate Resolve Resolution.
From AvroV Require Import BytesP C08P C08S.
Open Scope N_scope.

(* Primitive writer and reader types: every result the rules prescribe (identical types and the
   promotions int->long/float/double, long->float/double, float->double, string<->bytes) is the
   result of the implementation ... *)
Theorem C08_promotions :
  forall c nmz ens f W R v x,
    is_prim W = true -> is_prim R = true -> prim_typed W v = true ->
    prim_read W R v = Some x -> resolve (S f) c nmz ens R v = Ok x.
Proof. exact prim_follows_spec. Qed.

(* ... and where they prescribe none the implementation reports an error, except on the four
   lenient pairs (long->int, double->float: known finding F28; string->float/double for the special
   literals "NaN", "INF", ... that JSON defaults use). *)
Theorem C08_no_rule_is_error :
  forall c nmz ens f W R v,
    is_prim W = true -> is_prim R = true -> prim_typed W v = true -> lenient W R = false ->
    prim_read W R v = None -> resolve (S f) c nmz ens R v = Err.
Proof. exact prim_no_result_is_error. Qed.

(* Records: the result has exactly the reader's fields in the reader's order (writer-only fields are
   dropped, nothing is added), each the resolution of some value against the reader field's schema; *)
Theorem C08_record_fields :
  forall r jv fs items out,
    resolve_fields r jv fs items = Ok out ->
    Forall2 (fun (ms : fmeta * schema) (o : str * value) =>
               fst o = f_name (fst ms) /\ exists x, r (snd ms) x = Ok (snd o)) fs out.
Proof. exact resolve_fields_shape. Qed.

(* a reader field present among the written fields takes the written value, wherever it stands. *)
Theorem C08_record_by_name :
  forall r jv fs items out m fsch x,
    resolve_fields r jv fs items = Ok out ->
    NoDup (map (fun ms : fmeta * schema => f_name (fst ms)) fs) ->
    In (m, fsch) fs -> lookup (f_name m) items = Some x ->
    exists y, r fsch x = Ok y /\ In (f_name m, y) out.
Proof. exact resolve_fields_by_name. Qed.

(* Enums: by symbol name; an unknown symbol becomes the reader's default; without one, an error -
   and this is what the specification function computes. *)
Theorem C08_enum_rules :
  forall symbols i sym,
    N.of_nat (length symbols) < 2 ^ 32 ->
    (forall k dflt, position (bytes_eqb sym) symbols = Some k ->
       resolve_enum symbols dflt (VEnum i sym) = Ok (VEnum (N.of_nat k) sym)) /\
    (forall k d, position (bytes_eqb sym) symbols = None -> position (bytes_eqb d) symbols = Some k ->
       resolve_enum symbols (Some d) (VEnum i sym) = Ok (VEnum (N.of_nat k) d)) /\
    (position (bytes_eqb sym) symbols = None -> resolve_enum symbols None (VEnum i sym) = Err).
Proof.
  intros symbols i sym Hl. repeat split.
  - intros k dflt Hp. apply enum_known_symbol; assumption.
  - intros k d Hn Hp. apply enum_unknown_symbol_default; assumption.
  - apply enum_unknown_symbol_no_default.
Qed.

Theorem C08_enum_spec :
  forall f wn rn we re n1 al1 d1 ws wd a1 n2 al2 d2 rs rd a2 i sym,
    names_match n1 n2 al2 = true ->
    spec_read (S f) wn rn we re (SEnum n1 al1 d1 ws wd a1) (SEnum n2 al2 d2 rs rd a2) (VEnum i sym) =
    match position (bytes_eqb sym) rs with
    | Some k => Some (VEnum (N.of_nat k) sym)
    | None => match rd with
              | Some d => match position (bytes_eqb d) rs with Some k => Some (VEnum (N.of_nat k) d) | None => None end
              | None => None end
    end.
Proof. exact spec_enum. Qed.

(* Resolving an already resolved value changes nothing, for every leaf schema (primitive, enum,
   fixed and every logical type) - except for a string read as a fixed, which resolve_fixed takes
   whatever its length. *)
Theorem C08_idempotent_leaves :
  forall c nmz ens f s v v',
    leaf_schema s = true -> string_for_fixed s v = false ->
    resolve (S f) c nmz ens s v = Ok v' -> resolve (S f) c nmz ens s v' = Ok v'.
Proof. exact leaf_idempotent. Qed.

(* Beyond leaves (Proofs/C08S.v): on reader schemas built from leaves (plain fixed excluded, see
   above), arrays, maps and records with distinct field names - at EVERY depth and size, whatever the
   value that was resolved (any writer shape, map-for-record, union-wrapped values, defaults used) -
   resolving the result again changes nothing, and the result validates against the reader schema
   (enums with fewer than 2^32 symbols).  Unions and references are outside this fragment: there the
   two clauses are checked by the correspondence, and fail in the classes refuted below. *)
Theorem C08_idempotent_fragment :
  forall fuel c nmz ens s v v',
    idemb fuel s = true -> resolve fuel c nmz ens s v = Ok v' -> resolve fuel c nmz ens s v' = Ok v'.
Proof. exact resolve_idempotent. Qed.

Theorem C08_result_validates_fragment :
  forall fuel c nmz ens s v v' find nmz' ens',
    validb fuel s = true -> resolve fuel c nmz ens s v = Ok v' -> validate fuel find nmz' ens' s v' = Ok true.
Proof. exact resolve_validates. Qed.

(* Witnesses for the model's departures from the rules (each class is a known finding). *)
Definition cfg0 : cfg := mkCfg 4096 56 80.
Definition nm (s : list N) : name := mkName None s.
Definition fld (n : list N) (al : list (list N)) : fmeta := mkFmeta n None al None [].
Definition fx (n : list N) (sz : N) : fixedS := mkFixed (nm n) None None sz [].
Definition rd (R : schema) (v : value) := resolve 8 cfg0 [] None R v.
Definition rd6 (R : schema) (v : value) := resolve 6 cfg0 [] None R v.
Definition sp (W R : schema) (v : value) := spec_read 8 [] [] None None W R v.
Definition ub : bytes := [1;2;3;4;5;6;7;8;9;10;11;12;13;14;15;16].
Definition Empty1 := SRecord (nm [69]) None None [] [].
Definition Empty2 := SRecord (nm [70]) None None [] [].
Definition Uf1 := SUuid (UFixed (fx [85;49] 16)).
Definition Uf2 := SUuid (UFixed (fx [85;50] 16)).

Example C08_narrowing_refuted :                 (* F28 *)
  sp SLong SInt (VLong 7) = None /\ rd SInt (VLong 7) = Ok (VInt 7).
Proof. split; vm_compute; reflexivity. Qed.

Example C08_alias_refuted :                     (* F29 *)
  let W := SRecord (nm [82]) None None [(fld [97] [], SInt)] [] in
  let R := SRecord (nm [82]) None None [(fld [98] [[97]], SInt)] [] in
  sp W R (VRecord [([97], VInt 5)]) = Some (VRecord [([98], VInt 5)]) /\ rd R (VRecord [([97], VInt 5)]) = Err.
Proof. split; vm_compute; reflexivity. Qed.

Example C08_map_as_record_refuted :             (* F41 *)
  let W := SUnion [Empty1; SMap SInt []] in
  let R := SUnion [Empty1; SMap SLong []] in
  let v := VUnion 1 (VMap [([107], VInt 1)]) in
  sp W R v = Some (VUnion 1 (VMap [([107], VLong 1)])) /\ rd R v = Ok (VUnion 0 (VRecord [])).
Proof. split; vm_compute; reflexivity. Qed.

Example C08_fixed_logical_by_kind_refuted :     (* F42 *)
  let U := SUnion [Uf1; Uf2] in
  sp U U (VUnion 1 (VUuid ub)) = Some (VUnion 1 (VUuid ub)) /\ rd U (VUnion 1 (VUuid ub)) = Ok (VUnion 0 (VUuid ub)).
Proof. split; vm_compute; reflexivity. Qed.

Example C08_named_by_structure_refuted :        (* F44 *)
  let U := SUnion [Empty1; Empty2] in
  sp U U (VUnion 1 (VRecord [])) = Some (VUnion 1 (VRecord [])) /\ rd U (VUnion 1 (VRecord [])) = Ok (VUnion 0 (VRecord [])).
Proof. split; vm_compute; reflexivity. Qed.

Example C08_logical_not_promoted_refuted :      (* F45 *)
  sp STimeMillis SLong (VTimeMillis 5) = Some (VLong 5) /\ rd SLong (VTimeMillis 5) = Err.
Proof. split; vm_compute; reflexivity. Qed.

Example C08_lookup_by_base_kind_refuted :       (* F46 *)
  let U := SUnion [SString; SUuid UBytes] in
  sp U U (VUnion 1 (VUuid ub)) = Some (VUnion 1 (VUuid ub)) /\ rd U (VUnion 1 (VUuid ub)) = Err.
Proof. split; vm_compute; reflexivity. Qed.

Example C08_read_as_sibling_refuted :           (* F47 *)
  let F0 := SFixed (fx [70;48] 0) in
  let v := VUnion 1 (VString [104;105]) in
  sp (SUnion [F0; SString]) (SUnion [F0; SBytes]) v = Some (VUnion 1 (VBytes [104;105])) /\
  rd (SUnion [F0; SBytes]) v = Ok (VUnion 0 (VFixed 2 [104;105])).
Proof. split; vm_compute; reflexivity. Qed.

(* non-vacuity: promotions, field reordering with a default, and an enum default, on the model and
   on the specification alike *)
Example C08_spec_examples :
  let W := SRecord (nm [82]) None None [(fld [97] [], SInt); (fld [98] [], SString)] [] in
  let R := SRecord (nm [82]) None None
             [(fld [98] [], SBytes); (mkFmeta [99] None [] (Some (JInt 9)) [], SLong); (fld [97] [], SDouble)] [] in
  let v := VRecord [([97], VInt 3); ([98], VString [120])] in
  sp W R v = Some (VRecord [([98], VBytes [120]); ([99], VLong 9); ([97], VDouble (f64_of_Z 3))]) /\
  rd R v = Ok (VRecord [([98], VBytes [120]); ([99], VLong 9); ([97], VDouble (f64_of_Z 3))]).
Proof. split; vm_compute; reflexivity. Qed.

(* the fragment is inhabited by a nested reader schema and a value that needs promotion, reordering,
   a dropped writer field, an enum default and a field default *)
Example C08_fragment_example :
  let E := SEnum (nm [69]) None None [[65]; [66]] (Some [66]) [] in
  let R := SRecord (nm [82]) None None
             [(fld [98] [], SArray SDouble []); (fld [97] [], SLong);
              (mkFmeta [99] None [] (Some (JInt 7)) [], SInt); (fld [101] [], SMap E [])] [] in
  let v := VRecord [([97], VInt 5); ([120], VNull); ([98], VArray [VInt 1; VLong 2]);
                    ([101], VMap [([107], VEnum 9 [90])])] in
  let v' := VRecord [([98], VArray [VDouble (f64_of_Z 1); VDouble (f64_of_Z 2)]); ([97], VLong 5);
                     ([99], VInt 7); ([101], VMap [([107], VEnum 1 [66])])] in
  idemb 6 R = true /\ validb 6 R = true /\
  rd6 R v = Ok v' /\ rd6 R v' = Ok v' /\
  validate 6 (fun _ _ _ _ => Ok false) [] None R v' = Ok true.
Proof. repeat split; vm_compute; reflexivity. Qed.
