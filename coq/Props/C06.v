(* C06 - a successfully decoded value always conforms to the schema. *)
From AvroV Require Import Base Varint Schema Bytes Names Codec Conforms Validate.
From AvroV Require Import VarintP BytesP CodecP ValidateP PrefixP DecodedP.
Open Scope N_scope.

(* Whenever decoding ANY byte string (bytes < 256) under ANY schema succeeds, the value has exactly
   the canonical shape of the schema - every length within the limits, every index in range, every
   string UTF-8, maps without duplicate keys, records complete and in order - and the decoder
   consumed a prefix of the input.  Conditions: the parser's guarantees on the schema (schema_wfb),
   an allocation limit in [36, 2^63) with element sizes >= 2 (the real ones are 56 and 80), and the
   value is not at one of the two known non-canonical leaves (leaf_ok: zero-length decimal,
   big-decimal that regrows past the limit). *)
Theorem C06_decoded_conforms :
  forall (c : cfg) (nmz : names) (s : schema) (bs : bytes) (fd : nat) (v : value) (rest : bytes),
    cfg_ok c -> names_wfb nmz = true -> schema_wfb s = true ->
    decode fd c nmz None s bs = Ok (v, rest) ->
    (exists a, bs = a ++ rest) /\
    (all_bytes bs = true -> leaf_ok c v = true -> conforms fd c nmz None s v = true).
Proof.
  intros c nmz s bs fd v rest Hc Hn Hs Hd.
  exact (decoded_gen c nmz Hc (names_wfb_wf nmz Hn) fd s bs None v rest Hs Hd).
Qed.

(* ... hence it validates, re-encodes, and decoding the re-encoded bytes returns the same value. *)
Theorem C06_validates_and_reencodes :
  forall (c : cfg) (find : find_fn) (nmz : names) (s : schema) (bs : bytes) (fd : nat) (v : value) (rest : bytes),
    cfg_ok c -> names_wfb nmz = true -> names_okb nmz = true -> schema_wfb s = true ->
    decode fd c nmz None s bs = Ok (v, rest) -> all_bytes bs = true -> leaf_ok c v = true ->
    validate fd find nmz None s v = Ok true /\
    exists bs', encode fd nmz None s v = Ok bs' /\
      forall g r, (fd <= g)%nat -> decode g c nmz None s (bs' ++ r) = Ok (v, r).
Proof.
  intros c find nmz s bs fd v rest Hc Hn Hok Hs Hd Hb HL.
  destruct (C06_decoded_conforms c nmz s bs fd v rest Hc Hn Hs Hd) as (_ & Hconf).
  specialize (Hconf Hb HL). split.
  - exact (conforms_validates c nmz find fd s v None None (agree_of_nsq None None s eq_refl) Hconf).
  - exact (roundtrip_gen c nmz (names_okb_ok nmz Hok) fd s v None None (agree_of_nsq None None s eq_refl) Hconf).
Qed.

(* A truncated datum is an error, never a value: every strict prefix of the encoding of a conforming
   value fails to decode (no "completion with invented values"). *)
Theorem C06_truncation_is_error :
  forall (c : cfg) (nmz : names) (s : schema) (v : value) (fuel : nat) (bs : bytes),
    names_okb nmz = true -> conforms fuel c nmz None s v = true ->
    encode fuel nmz None s v = Ok bs ->
    forall fd k, (fuel <= fd)%nat -> (k < length bs)%nat ->
      decode fd c nmz None s (firstn k bs) = Err.
Proof.
  intros c nmz s v fuel bs Hn Hc He.
  exact (prefix_gen c nmz (names_okb_ok nmz Hn) fuel s v None None bs (agree_of_nsq None None s eq_refl) Hc He).
Qed.

(* The excluded leaves are real: a zero-length decimal decodes but is not canonical (it re-encodes
   as one zero byte and reads back numerically equal, see C06_empty_decimal_numeric). *)
Example C06_empty_decimal_not_canonical :
  let c := mkCfg 4096 56 80 in
  decode 2 c [] None (SDecimal 4 1 DBytes) [0] = Ok (VDecimal [], []) /\
  conforms 2 c [] None (SDecimal 4 1 DBytes) (VDecimal []) = false.
Proof. split; reflexivity. Qed.

Example C06_empty_decimal_numeric :
  let c := mkCfg 4096 56 80 in
  encode 2 [] None (SDecimal 4 1 DBytes) (VDecimal []) = Ok [2; 0] /\
  decode 2 c [] None (SDecimal 4 1 DBytes) [2; 0] = Ok (VDecimal [0], []) /\
  minimal [0] = minimal [].
Proof. repeat split; reflexivity. Qed.

(* non-vacuity of the hypotheses *)
Example C06_nonvacuous :
  let c := mkCfg 4096 56 80 in
  cfg_ok c /\
  decode 3 c [] None (SArray (SUnion [SNull; SString]) []) [4; 0; 2; 2; 104; 0] =
    Ok (VArray [VUnion 0 VNull; VUnion 1 (VString [104])], []).
Proof. split; [unfold cfg_ok; cbn; lia|reflexivity]. Qed.
