(* C16 - serde and generic-value paths produce and accept the same bytes.

   The serde machinery (the Serializer / Deserializer implementations of ser_schema and deser_schema)
   is NOT modelled: no theorem here speaks about it.  What the proof technique carries is the byte-level
   contract those paths have to meet, for every schema and value: whatever layout of array and map
   blocks a writer chooses, a byte string that is a legal encoding of a value decodes to exactly that
   value and consumes exactly those bytes - so two serializers that both emit legal encodings of the
   same value are interchangeable for every reader, whatever their block sizes.  That the schema-aware
   serializer does emit such an encoding of the value it was given is CHECKED on every run (gen/c16.py:
   the extracted decoder on its output, for every type of the corpus and every block size), not
   proved: this property is decided only PARTLY by proof. *)
From AvroV Require Import Base Varint Schema Bytes Names Codec Conforms BinEnc Layout.
From AvroV Require Import CodecP SpecP.
Open Scope N_scope.

(* any two legal encodings of one value (different block partitions of its arrays and maps, negative
   counts with byte sizes or not) are read to the same value, each consuming exactly its own bytes *)
Theorem C16_block_partition_irrelevant :
  forall (c : cfg) (nmz : names) (s : schema) (v : value) (fuel : nat) (bs1 bs2 rest : bytes),
    spec nmz None s v bs1 -> spec nmz None s v bs2 -> conforms fuel c nmz None s v = true ->
    decode fuel c nmz None s (bs1 ++ rest) = Ok (v, rest) /\ decode fuel c nmz None s (bs2 ++ rest) = Ok (v, rest).
Proof.
  intros c nmz s v fuel bs1 bs2 rest H1 H2 Hc. split.
  - exact (spec_decodes c nmz fuel s v None bs1 H1 Hc rest).
  - exact (spec_decodes c nmz fuel s v None bs2 H2 Hc rest).
Qed.

(* every block layout the generic encoder can be asked for (k items per block, with or without byte
   sizes) is a legal encoding: the generic path is one of the interchangeable writers *)
Theorem C16_generic_layouts_legal :
  forall (c : cfg) (nmz : names) (s : schema) (v : value) (fuel k : nat) (neg : bool) (bs : bytes),
    names_okb nmz = true -> conforms fuel c nmz None s v = true ->
    lay fuel k neg nmz None s v = Ok bs -> spec nmz None s v bs.
Proof.
  intros c nmz s v fuel k neg bs Hn Hc Hl.
  exact (lay_in_spec c nmz (names_okb_ok nmz Hn) fuel k neg s v None bs Hc Hl).
Qed.

(* non-vacuity: an array of three ints in one block and in three blocks of one *)
Example C16_examples :
  let c := mkCfg 4096 56 80 in
  decode 4 c [] None (SArray SInt []) [6; 2; 4; 6; 0] = Ok (VArray [VInt 1; VInt 2; VInt 3], []) /\
  decode 4 c [] None (SArray SInt []) [2; 2; 2; 4; 2; 6; 0] = Ok (VArray [VInt 1; VInt 2; VInt 3], []).
Proof. split; vm_compute; reflexivity. Qed.
