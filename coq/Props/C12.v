(* C12 - fingerprints (the canonical-form half of C12 lives with the schema-JSON model). *)
From AvroV Require Import Base Varint Rabin CRC64 RabinP.
Open Scope N_scope.

(* The table-driven 64-bit Rabin fingerprint equals CRC-64-AVRO computed bit by bit from the
   polynomial, for every byte string of every length. *)
Theorem C12_rabin_is_crc64 :
  forall bs : bytes, all_bytes bs = true -> rabin bs = crc64_avro bs.
Proof. exact rabin_is_crc64. Qed.

(* and the digest bytes are that number in little-endian order *)
Theorem C12_digest_little_endian :
  forall bs : bytes, all_bytes bs = true -> rabin_digest bs = le_bytes 8 (crc64_avro bs).
Proof. intros bs H. unfold rabin_digest. rewrite rabin_is_crc64 by exact H. reflexivity. Qed.

(* known answers: the rabin.rs doc example and the empty string *)
Example C12_hello_world :
  rabin_digest [104;101;108;108;111;32;119;111;114;108;100] = [0x60;0x33;0x5b;0xa6;0xd0;0x41;0x55;0x28].
Proof. vm_compute. reflexivity. Qed.
Example C12_empty : rabin [] = 0xC15D213AA4D7A795.
Proof. reflexivity. Qed.
(* the specification's fingerprint of the schema "int" (canonical form "\"int\""): 0x7275d51a3f395c8f *)
Example C12_spec_int : crc64_avro [34;105;110;116;34] = 0x7275d51a3f395c8f.
Proof. vm_compute. reflexivity. Qed.
