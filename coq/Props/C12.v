(* C12 - canonical form and fingerprints.  Model/SchemaJson.v: canonical_form (the implementation's pass
   over its own serialised JSON); Spec/PCF.v: the normalisation rules of the specification on the schema. *)
From AvroV Require Import Base Varint Schema Lit SchemaJson PCF Rabin CRC64 RabinP.
From Coq Require Import String.
Open Scope N_scope.

(* The table-driven 64-bit Rabin fingerprint equals CRC-64-AVRO computed bit by bit from the
   polynomial, for every byte string of every length. *)
Theorem C12_rabin_is_crc64 :
  forall bs : bytes, all_bytes bs = true -> rabin bs = crc64_avro bs.
Proof. exact rabin_is_crc64. Qed.

(* and the digest bytes are that number in little-endian order *)
Theorem C12_digest_little_endian :
  forall bs : bytes, all_bytes bs = true -> rabin_digest bs = le_bytes 8 (crc64_avro bs).
Proof. intros bs H. unfold rabin_digest. rewrite rabin_is_crc64 by exact H. reflexivity. Qed.

(* known answers: the rabin.rs doc example and the empty string *)
Example C12_hello_world :
  rabin_digest [104;101;108;108;111;32;119;111;114;108;100] = [0x60;0x33;0x5b;0xa6;0xd0;0x41;0x55;0x28].
Proof. vm_compute. reflexivity. Qed.
Example C12_empty : rabin [] = 0xC15D213AA4D7A795.
Proof. reflexivity. Qed.
(* the specification's fingerprint of the schema "int" (canonical form "\"int\""): 0x7275d51a3f395c8f *)
Example C12_spec_int : crc64_avro [34;105;110;116;34] = 0x7275d51a3f395c8f.
Proof. vm_compute. reflexivity. Qed.

(* ---- canonical form ---- *)
(* On the primitive types and on references the canonical form is the specification's. *)
Definition pcf_leaves : list schema :=
  [SNull; SBoolean; SInt; SLong; SFloat; SDouble; SBytes; SString; SRef (mkName (Some (K "a.b")) (K "C")); SRef (mkName None (K "C"))].
Theorem C12_pcf_leaves :
  forall s, In s pcf_leaves -> canonical_form 4 s = POk (spec_canonical_form s).
Proof.
  intros s H. unfold pcf_leaves in H. cbn [In] in H.
  repeat (destruct H as [<-|H]; [vm_compute; reflexivity|]). destruct H.
Qed.

(* The full statement is FALSE of the model (known findings F16, F17): a logical type keeps its object
   wrapper and, for a decimal, precision and scale; a field's "order" (and any attribute named like
   a schema key) stays in the canonical form. *)
Example C12_pcf_logical_refuted :
  (canonical_form 4 SDate = POk (K "{""type"":""int""}")) /\ (spec_canonical_form SDate = K """int""") /\
  (canonical_form 4 (SDecimal 4 1 DBytes) = POk (K "{""type"":""bytes"",""precision"":4,""scale"":1}")) /\
  (spec_canonical_form (SDecimal 4 1 DBytes) = K """bytes""").
Proof. repeat split; vm_compute; reflexivity. Qed.

Example C12_pcf_order_refuted :
  let s := SRecord (mkName None (K "R")) None None
             [(mkFmeta (K "a") None [] None [(K "order", JStr (K "descending"))], SInt)] [] in
  canonical_form 6 s = POk (K "{""name"":""R"",""type"":""record"",""fields"":[{""name"":""a"",""type"":""int"",""order"":""descending""}]}") /\
  spec_canonical_form s = K "{""name"":""R"",""type"":""record"",""fields"":[{""name"":""a"",""type"":""int""}]}".
Proof. split; vm_compute; reflexivity. Qed.

(* non-vacuity: full names, attribute order, stripped doc / aliases / default / custom attribute, a type
   spelled out once and referred to by name afterwards - model and specification agree *)
Example C12_pcf_examples :
  let e := SEnum (mkName (Some (K "other")) (K "E")) (Some [mkName None (K "Old")]) (Some (K "d")) [K "A"; K "B"] (Some (K "A")) [(K "x", JInt 1)] in
  let f := SFixed (mkFixed (mkName (Some (K "ns")) (K "F")) None (Some (K "doc")) 16 []) in
  let s := SRecord (mkName (Some (K "ns")) (K "R")) None (Some (K "doc"))
             [(mkFmeta (K "a") (Some (K "fd")) [K "aa"] (Some (JInt 3)) [], SLong);
              (mkFmeta (K "e") None [] None [], SUnion [SNull; e]);
              (mkFmeta (K "f") None [] None [], SArray f []);
              (mkFmeta (K "g") None [] None [], SMap (SRef (mkName (Some (K "other")) (K "E"))) [])] [(K "zz", JBool true)] in
  canonical_form 16 s = POk (spec_canonical_form s) /\
  spec_canonical_form s =
    K "{""name"":""ns.R"",""type"":""record"",""fields"":[{""name"":""a"",""type"":""long""},{""name"":""e"",""type"":[""null"",{""name"":""other.E"",""type"":""enum"",""symbols"":[""A"",""B""]}]},{""name"":""f"",""type"":{""type"":""array"",""items"":{""name"":""ns.F"",""type"":""fixed"",""size"":16}}},{""name"":""g"",""type"":{""type"":""map"",""values"":""other.E""}}]}".
Proof. split; vm_compute; reflexivity. Qed.
