(* C13 - writers never lose data silently on short writes or sink errors. *)
From AvroV Require Import Base Sink SinkP.
Open Scope N_scope.

(* For EVERY sink script (any per-call accepted lengths, a failure or an Interrupted at any call
   index, any default) and EVERY sequence of pieces an operation hands to write_all: either the
   operation succeeds and the sink received exactly the concatenation of the pieces - the bytes an
   in-memory buffer would have received - or it reports an error, having delivered a strict prefix. *)
Theorem C13_all_or_error :
  forall (ps : list bytes) (s : sink),
    let '(ok, s') := write_pieces s ps in
    exists taken,
      sk_data s' = sk_data s ++ taken /\
      (ok = true -> taken = concat ps) /\
      (ok = false -> exists rest, concat ps = taken ++ rest /\ rest <> []).
Proof. exact write_pieces_spec. Qed.

(* one buffer *)
Theorem C13_write_all :
  forall (fuel : nat) (s : sink) (buf : bytes),
    (length buf + length (sk_script s) < fuel)%nat ->
    let '(ok, s') := write_all fuel s buf in
    exists taken,
      sk_data s' = sk_data s ++ taken /\
      (ok = true -> taken = buf) /\
      (ok = false -> exists rest, buf = taken ++ rest /\ rest <> []).
Proof. exact write_all_spec. Qed.

(* non-vacuity: 1-byte writes, an Interrupted, then a failure in the second piece *)
Example C13_example :
  let s := mkSink [Accept 1; Interrupted; Accept 1; Accept 2; Fail] 100 [] 0 in
  write_pieces s [[1; 2; 3]; [4; 5]] =
    (false, mkSink [] 100 [1; 2; 3] 5).
Proof. vm_compute. reflexivity. Qed.
