(* C13 - writers never lose data silently on short writes or sink errors. *)
From AvroV Require Import Base Sink SinkP.
Open Scope N_scope.

(* For EVERY sink script (any per-call accepted lengths, a failure or an Interrupted at any call
   index, any default) and EVERY sequence of pieces an operation hands to write_all: either the
   operation succeeds and the sink received exactly the concatenation of the pieces - the bytes an
   in-memory buffer would have received - or it reports an error, having delivered a strict prefix. *)
Theorem C13_all_or_error :
  forall (ps : list bytes) (s : sink),
    let '(ok, s') := write_pieces s ps in
    exists taken,
      sk_data s' = sk_data s ++ taken /\
      (ok = true -> taken = concat ps) /\
      (ok = false -> exists rest, concat ps = taken ++ rest /\ rest <> []).
Proof. exact write_pieces_spec. Qed.

(* one buffer *)
Theorem C13_write_all :
  forall (fuel : nat) (s : sink) (buf : bytes),
    (length buf + length (sk_script s) < fuel)%nat ->
    let '(ok, s') := write_all fuel s buf in
    exists taken,
      sk_data s' = sk_data s ++ taken /\
      (ok = true -> taken = buf) /\
      (ok = false -> exists rest, buf = taken ++ rest /\ rest <> []).
Proof. exact write_all_spec. Qed.

(* The reusable single-object writer (GenericSingleObjectWriter::write_value_ref), for EVERY history
   of calls on one writer - values that encode and values that do not - against EVERY sink script:
   after each call the writer's buffer is the header again; a call that returns Ok(n) delivered
   exactly header ++ payload of THAT call and n is its length; a call that returns an error delivered
   nothing (the value did not encode) or a strict prefix of its own message; the sink holds the
   deliveries in call order.  Nothing of a failed message travels with a later one. *)
Theorem C13_single_object_writer_reuse :
  forall (ops : list (option bytes)) (h : bytes) (s : sink),
    so_guard h = true ->
    let '(outs, h', s') := sow_run h s ops in
    h' = h /\ sk_data s' = sk_data s ++ concat (map snd outs) /\ Forall2 (so_call_ok h) ops outs.
Proof. exact sow_run_spec. Qed.

(* non-vacuity: 1-byte writes, an Interrupted, then a failure in the second piece *)
Example C13_example :
  let s := mkSink [Accept 1; Interrupted; Accept 1; Accept 2; Fail] 100 [] 0 in
  write_pieces s [[1; 2; 3]; [4; 5]] =
    (false, mkSink [] 100 [1; 2; 3] 5).
Proof. vm_compute. reflexivity. Qed.

(* a failed sink call in the first message, an unencodable value, then two good messages *)
Example C13_reuse_example :
  let h := [195; 1; 1; 2; 3; 4; 5; 6; 7; 8] in
  so_guard h = true /\ sow_run h (mkSink [Accept 4; Fail; Accept 3] 100 [] 0) [Some [2]; None; Some [4]; Some [6; 7]] =
    ([(None, [195; 1; 1; 2]); (None, []); (Some 11%nat, h ++ [4]); (Some 12%nat, h ++ [6; 7])],
     h, mkSink [] 100 ([195; 1; 1; 2] ++ (h ++ [4]) ++ (h ++ [6; 7])) 5).
Proof. split; vm_compute; reflexivity. Qed.
