(* C17 - derived schemas are valid and accept every value of their type.

   The derive macro and the serde implementations are NOT modelled.  What is decided by the proof
   machinery: a derived schema is judged by the model parser (its JSON is parsed by the extracted
   Model/Parser.v on every run, gen/c17.py), and every schema that parser accepts satisfies the
   well-formedness theorems of C11 - restated here for the record case, which is what a derived struct
   produces.  That every value of a type serializes under the derived schema and comes back equal is
   CHECKED (corpus of types x generated values x block sizes x container files), not proved: this
   property is decided only PARTLY by proof. *)
From AvroV Require Import Base Varint Schema Bytes Names Floats Codec Conforms Validate SingleObject Resolve Lit SchemaJson Parser.
From AvroV Require Import BytesP ParserP SchemaJsonP.
From Coq Require Import String.
Open Scope N_scope.

Theorem C17_accepted_record_well_formed :
  forall rec fuel st m ens s st',
    parse_record_with rec fuel st m ens = Ok (s, st') -> lookup (K "fields") m <> None ->
    exists n al doc fs a,
      s = SRecord n al doc fs a /\ valid_name n /\
      NoDup (map (fun ms : fmeta * schema => f_name (fst ms)) fs) /\
      forallb (fun ms : fmeta * schema => is_ident (f_name (fst ms))) fs = true.
Proof. exact parse_record_rules. Qed.

(* the JSON of a schema whose attributes are clean repeats no key (the form in which a derived schema is
   embedded in a container file) *)
Theorem C17_derived_json_strict : forall s, cleanb s = true -> strict (ser s) = true.
Proof. exact ser_strict. Qed.

(* non-vacuity: the schema derive produces for   struct Inner { id: i64, name: String }   round-trips *)
Example C17_examples :
  let s := SRecord (mkName None (K "Inner")) None None
             [(mkFmeta (K "id") None [] None [], SLong); (mkFmeta (K "name") None [] None [], SString)] [] in
  parse_schema 6 (to_value (ser s)) = Ok s /\ resolved s = Ok [(mkName None (K "Inner"), s)].
Proof. split; vm_compute; reflexivity. Qed.
