(* C18 - single-object messages. *)
From AvroV Require Import Base Varint Schema Bytes Names Codec Conforms Validate Rabin CRC64 SingleObject.
From AvroV Require Import CodecP SingleObjectP.
Open Scope N_scope.

(* The header is C3 01 followed by the little-endian CRC-64-AVRO of the canonical form: 10 bytes. *)
Theorem C18_header_layout :
  forall pcf : bytes, all_bytes pcf = true ->
    so_header pcf = [0xC3; 0x01] ++ le_bytes 8 (crc64_avro pcf) /\ lenN (so_header pcf) = 10.
Proof. exact so_header_layout. Qed.

(* For every history of writes through one writer - successful ones, values that fail validation or
   encoding, sinks that fail - the reusable buffer is the header again after every call, every
   emitted message is header ++ datum of *that* call's value, and failed calls emit nothing. *)
Theorem C18_buffer_inv :
  forall (hdr : bytes) (ops : list (res bytes * bool)),
    10 <= lenN hdr <= 20 ->
    fst (so_run hdr ops) = hdr /\ Forall2 (emitted_ok hdr) ops (snd (so_run hdr ops)).
Proof. exact so_run_inv. Qed.

(* Each message decodes alone to its value (followed by anything), whatever header the writer and
   reader agreed on. *)
Theorem C18_roundtrip_each :
  forall (c : cfg) (nmz : names) (find : find_fn) (s : schema) (v : value) (fuel : nat) (hdr : bytes),
    names_okb nmz = true -> is_ref s = false ->
    conforms fuel c nmz None s v = true ->
    exists d : bytes, so_datum fuel find nmz s v = Ok d /\
      forall (fd : nat) (rest : bytes), (fuel <= fd)%nat -> so_read fd c nmz s hdr (hdr ++ d ++ rest) = Ok (v, rest).
Proof.
  intros c nmz find s v fuel hdr Hn. apply so_message_roundtrip. apply names_okb_ok. exact Hn.
Qed.

(* A message whose header differs in any way (so in particular in any single bit) is rejected
   without decoding; so is any message shorter than the header. *)
Theorem C18_reject_foreign :
  forall fuel c nmz s hdr hdr' body,
    lenN hdr' = lenN hdr -> hdr' <> hdr -> so_read fuel c nmz s hdr (hdr' ++ body) = Err.
Proof. exact so_read_foreign. Qed.

Theorem C18_reject_short :
  forall fuel c nmz s hdr msg, lenN msg < lenN hdr -> so_read fuel c nmz s hdr msg = Err.
Proof. exact so_read_short. Qed.

(* non-vacuity: a history with a failing value and a failing sink between two good messages *)
Example C18_history :
  let hdr := so_header [34;105;110;116;34] in
  so_run hdr [(Ok [2], true); (Err, true); (Ok [4; 6], false); (Ok [8], true)]
  = (hdr, [SoEmitted (hdr ++ [2]); SoValueErr; SoSinkErr; SoEmitted (hdr ++ [8])]).
Proof. vm_compute. reflexivity. Qed.
