(* The Avro binary encoding as a RELATION, transcribed from the specification text ("Binary
   Encoding" and "Logical Types"), independently of the model's encode/decode functions.

   spec nmz ens s v bs : bs is a specification-legal encoding of value v under schema s.
   It is deliberately lax where the specification is: arrays and maps may be split into any number
   of blocks, each written either with a positive count or with a negative count followed by the
   block's size in bytes, and end with a zero count.  Everything else is deterministic. *)
From AvroV Require Import Base Varint Schema Bytes.
Open Scope N_scope.

(* "variable-length zig-zag coding": zig-zag maps a signed number to an unsigned one ... *)
Definition zz (z : Z) : N := if (0 <=? z)%Z then Z.to_N (2 * z) else Z.to_N (- 2 * z - 1).

(* ... written 7 bits at a time, least significant group first, high bit set on all but the last *)
Inductive vint : N -> bytes -> Prop :=
| vint_last n : n < 128 -> vint n [n]
| vint_more n r : 128 <= n -> vint (n / 128) r -> vint n ((128 + n mod 128) :: r).

Definition slong (z : Z) (bs : bytes) : Prop := (- 2 ^ 63 <= z < 2 ^ 63)%Z /\ vint (zz z) bs.
Definition sint (z : Z) (bs : bytes) : Prop := (- 2 ^ 31 <= z < 2 ^ 31)%Z /\ vint (zz z) bs.

(* "bytes are encoded as a long followed by that many bytes of data" *)
Definition sbytes (b : bytes) (bs : bytes) : Prop :=
  exists lb, slong (Z.of_N (lenN b)) lb /\ bs = lb ++ b.

(* a sequence of items, each encoded by [elem], concatenated *)
Inductive items {A} (elem : A -> bytes -> Prop) : list A -> bytes -> Prop :=
| items_nil : items elem [] []
| items_cons x xs a b : elem x a -> items elem xs b -> items elem (x :: xs) (a ++ b).

(* "a series of blocks.  Each block consists of a long count value, followed by that many items.
   A block with count zero indicates the end.  If a block's count is negative, its absolute value
   is used, and the count is followed immediately by a long block size indicating the number of
   bytes in the block." *)
Inductive blocks {A} (elem : A -> bytes -> Prop) : list A -> bytes -> Prop :=
| blocks_end : blocks elem [] [0]
| blocks_pos xs ys cb xb rb :
    xs <> [] -> slong (Z.of_N (lenN xs)) cb -> items elem xs xb -> blocks elem ys rb ->
    blocks elem (xs ++ ys) (cb ++ xb ++ rb)
| blocks_neg xs ys cb sb xb rb :
    xs <> [] -> slong (- Z.of_N (lenN xs)) cb -> slong (Z.of_N (lenN xb)) sb ->
    items elem xs xb -> blocks elem ys rb ->
    blocks elem (xs ++ ys) (cb ++ sb ++ xb ++ rb).

(* record fields: in schema order, each field's value encoded per its schema, nothing else *)
Inductive sfields (elem : schema -> value -> bytes -> Prop) :
  list (fmeta * schema) -> list (str * value) -> bytes -> Prop :=
| sfields_nil : sfields elem [] [] []
| sfields_cons m s fs v l a b :
    elem s v a -> sfields elem fs l b -> sfields elem ((m, s) :: fs) ((f_name m, v) :: l) (a ++ b).

Section Spec.
Variable nmz : names.

Inductive spec : option str -> schema -> value -> bytes -> Prop :=
| S_null ens : spec ens SNull VNull []
| S_bool ens b : spec ens SBoolean (VBoolean b) [if b then 1 else 0]
| S_int ens z bs : sint z bs -> spec ens SInt (VInt z) bs
| S_long ens z bs : slong z bs -> spec ens SLong (VLong z) bs
  (* "a float is written as 4 bytes ... little-endian"; "a double ... 8 bytes" *)
| S_float ens x : x < 2 ^ 32 -> spec ens SFloat (VFloat x) (le_bytes 4 x)
| S_double ens x : x < 2 ^ 64 -> spec ens SDouble (VDouble x) (le_bytes 8 x)
| S_bytes ens b bs : sbytes b bs -> spec ens SBytes (VBytes b) bs
  (* "a string is encoded as a long followed by that many bytes of UTF-8 encoded character data" *)
| S_string ens t bs : utf8_ok t = true -> sbytes t bs -> spec ens SString (VString t) bs
  (* "fixed instances are encoded using the number of bytes declared in the schema" *)
| S_fixed ens fx b : lenN b = fx_size fx -> spec ens (SFixed fx) (VFixed (fx_size fx) b) b
  (* "an enum is encoded by an int, representing the zero-based position of the symbol" *)
| S_enum ens n al d symbols dflt a i sym bs :
    nth_N symbols i = Some sym -> sint (Z.of_N i) bs ->
    spec ens (SEnum n al d symbols dflt a) (VEnum i sym) bs
  (* "a union is encoded by first writing an int [long] value indicating the zero-based position
     within the union of the schema of its value.  The value is then encoded per the indicated schema" *)
| S_union ens branches i b x ib xb :
    nth_N branches i = Some b -> slong (Z.of_N i) ib -> spec ens b x xb ->
    spec ens (SUnion branches) (VUnion i x) (ib ++ xb)
| S_array ens it a l bs : blocks (spec ens it) l bs -> spec ens (SArray it a) (VArray l) bs
  (* map: blocks of key/value pairs, keys are strings *)
| S_map ens vt a l bs :
    blocks (fun kv kb => exists k x, utf8_ok (fst kv) = true /\ sbytes (fst kv) k /\ spec ens vt (snd kv) x /\ kb = k ++ x) l bs ->
    spec ens (SMap vt a) (VMap l) bs
  (* "a record is encoded by encoding the values of its fields in the order that they are declared" *)
| S_record ens n al d fs a l bs :
    sfields (spec (ns (fqn n ens))) fs l bs -> spec ens (SRecord n al d fs a) (VRecord l) bs
  (* logical types annotate an underlying type and are stored as that type *)
| S_date ens z bs : sint z bs -> spec ens SDate (VDate z) bs
| S_time_millis ens z bs : sint z bs -> spec ens STimeMillis (VTimeMillis z) bs
| S_time_micros ens z bs : slong z bs -> spec ens STimeMicros (VTimeMicros z) bs
| S_ts_millis ens z bs : slong z bs -> spec ens STimestampMillis (VTimestampMillis z) bs
| S_ts_micros ens z bs : slong z bs -> spec ens STimestampMicros (VTimestampMicros z) bs
| S_ts_nanos ens z bs : slong z bs -> spec ens STimestampNanos (VTimestampNanos z) bs
| S_lts_millis ens z bs : slong z bs -> spec ens SLocalTimestampMillis (VLocalTimestampMillis z) bs
| S_lts_micros ens z bs : slong z bs -> spec ens SLocalTimestampMicros (VLocalTimestampMicros z) bs
| S_lts_nanos ens z bs : slong z bs -> spec ens SLocalTimestampNanos (VLocalTimestampNanos z) bs
  (* "decimal ... the two's-complement representation of the unscaled integer value in big-endian
     byte order" on bytes (length-prefixed) or fixed (exactly the fixed size).  The value carries
     that byte string. *)
| S_decimal_bytes ens p sc b bs : b <> [] -> sbytes b bs -> spec ens (SDecimal p sc DBytes) (VDecimal b) bs
| S_decimal_fixed ens p sc fx b : b <> [] -> lenN b = fx_size fx -> spec ens (SDecimal p sc (DFixed fx)) (VDecimal b) b
  (* "duration ... three little-endian unsigned integers that represent durations at different
     granularities of time: months, days, milliseconds" on a fixed of size 12 *)
| S_duration ens fx m d ms :
    fx_size fx = 12 -> m < 2 ^ 32 -> d < 2 ^ 32 -> ms < 2 ^ 32 ->
    spec ens (SDuration fx) (VDuration m d ms) (le_bytes 4 m ++ le_bytes 4 d ++ le_bytes 4 ms)
  (* "uuid ... a string ... conforming with RFC-4122" (canonical 8-4-4-4-12 lower-case text), or
     16 raw bytes on bytes / fixed(16) *)
| S_uuid_string ens u bs : lenN u = 16 -> all_bytes u = true -> sbytes (uuid_text u) bs -> spec ens (SUuid UString) (VUuid u) bs
| S_uuid_bytes ens u bs : lenN u = 16 -> sbytes u bs -> spec ens (SUuid UBytes) (VUuid u) bs
| S_uuid_fixed ens fx u : lenN u = 16 -> fx_size fx = 16 -> spec ens (SUuid (UFixed fx)) (VUuid u) u
  (* big-decimal (Java extension): bytes holding [bytes unscaled two's-complement][long scale] *)
| S_bigdecimal ens u sc ub sb bs :
    sbytes u ub -> slong sc sb -> sbytes (ub ++ sb) bs -> spec ens SBigDecimal (VBigDecimal u sc) bs
  (* a name refers to the schema defined under that full name *)
| S_ref ens n s' v bs :
    names_get (fqn n ens) nmz = Some s' -> spec (ns (fqn n ens)) s' v bs -> spec ens (SRef n) v bs.
End Spec.

