(* The Parsing Canonical Form as the specification defines it ("Transforming into Parsing Canonical
   Form": PRIMITIVES, FULLNAMES, STRIP, ORDER, STRINGS, INTEGERS, WHITESPACE), written directly on
   the schema, independently of the implementation's pass over its own JSON.

   STRIP keeps only type, name, fields, symbols, items, values, size: a logical type is stripped to
   its underlying type (which PRIMITIVES then reduces to the simple form), doc, aliases, defaults,
   order and every other attribute disappear.  A named type is spelled out where it is first met
   and referred to by its full name afterwards. *)
From AvroV Require Import Base Schema Lit SchemaJson.
From Coq Require Import String.
Open Scope N_scope.

Definition fixed_form (f : fixedS) (defined : list str) : str * list str :=
  let n := fullname (fx_name f) in
  if existsb (bytes_eqb n) defined then (quote n, defined)
  else (K "{""name"":" ++ quote n ++ K ",""type"":""fixed"",""size"":" ++ show_Z (Z.of_N (fx_size f)) ++ K "}",
        n :: defined).

Fixpoint spec_pcf (s : schema) (defined : list str) : str * list str :=
  match s with
  | SNull => (quote (K "null"), defined) | SBoolean => (quote (K "boolean"), defined)
  | SInt | SDate | STimeMillis => (quote (K "int"), defined)
  | SLong | STimeMicros | STimestampMillis | STimestampMicros | STimestampNanos
  | SLocalTimestampMillis | SLocalTimestampMicros | SLocalTimestampNanos => (quote (K "long"), defined)
  | SFloat => (quote (K "float"), defined) | SDouble => (quote (K "double"), defined)
  | SBytes | SBigDecimal | SDecimal _ _ DBytes | SUuid UBytes => (quote (K "bytes"), defined)
  | SString | SUuid UString => (quote (K "string"), defined)
  | SRef n => (quote (fullname n), defined)
  | SArray it _ =>
    let '(t, d) := spec_pcf it defined in (K "{""type"":""array"",""items"":" ++ t ++ K "}", d)
  | SMap vt _ =>
    let '(t, d) := spec_pcf vt defined in (K "{""type"":""map"",""values"":" ++ t ++ K "}", d)
  | SUnion bs =>
    let '(parts, d) :=
      (fix go (l : list schema) (d : list str) : list str * list str :=
         match l with
         | [] => ([], d)
         | b :: r => let '(t, d1) := spec_pcf b d in let '(ts, d2) := go r d1 in (t :: ts, d2)
         end) bs defined in
    (K "[" ++ join (K ",") parts ++ K "]", d)
  | SRecord n _ _ fs _ =>
    let full := fullname n in
    if existsb (bytes_eqb full) defined then (quote full, defined)
    else
      let '(parts, d) :=
        (fix go (l : list (fmeta * schema)) (d : list str) : list str * list str :=
           match l with
           | [] => ([], d)
           | (m, fsch) :: r =>
             let '(t, d1) := spec_pcf fsch d in
             let '(ts, d2) := go r d1 in
             ((K "{""name"":" ++ quote (f_name m) ++ K ",""type"":" ++ t ++ K "}") :: ts, d2)
           end) fs (full :: defined) in
      (K "{""name"":" ++ quote full ++ K ",""type"":""record"",""fields"":[" ++ join (K ",") parts ++ K "]}", d)
  | SEnum n _ _ symbols _ _ =>
    let full := fullname n in
    if existsb (bytes_eqb full) defined then (quote full, defined)
    else (K "{""name"":" ++ quote full ++ K ",""type"":""enum"",""symbols"":["
          ++ join (K ",") (map quote symbols) ++ K "]}", full :: defined)
  | SFixed f | SDecimal _ _ (DFixed f) | SUuid (UFixed f) | SDuration f => fixed_form f defined
  end.

Definition spec_canonical_form (s : schema) : str := fst (spec_pcf s []).
