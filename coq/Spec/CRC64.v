(* CRC-64-AVRO defined bit by bit from the polynomial, independently of any table: for each byte,
   xor it into the low end of the register, then shift out 8 bits, xoring the (reflected)
   polynomial 0xC15D213AA4D7A795 whenever the bit shifted out is 1.  Initial value = the same
   constant, as the specification's fingerprint64 prescribes. *)
From AvroV Require Import Base.
Open Scope N_scope.

Definition POLY : N := 0xC15D213AA4D7A795.

Definition shift1 (r : N) : N :=
  if N.testbit r 0 then N.lxor (N.shiftr r 1) POLY else N.shiftr r 1.

Definition crc_byte (r b : N) : N :=
  shift1 (shift1 (shift1 (shift1 (shift1 (shift1 (shift1 (shift1 (N.lxor r b)))))))).

Definition crc64_avro (bs : bytes) : N := fold_left crc_byte bs POLY.
