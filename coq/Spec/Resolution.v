(* Schema resolution as the Avro specification prescribes it ("Schema Resolution" and the table of
   default-value encodings in "Records"), written as an executable specification independently of
   the implementation's resolve_* functions.

   spec_read fuel wn rn W R v : the value a reader with schema R must obtain from the canonical
   value v written with schema W; None where the rules give no result (an error must be signalled).
   wn / rn are the writer's and reader's name tables; names match by unqualified name or by a
   reader alias. *)
From AvroV Require Import Base Varint Schema Bytes Names Floats.
Open Scope N_scope.

Definition deref (fuel : nat) (nmz : names) (ens : option str) (s : schema) : option (schema * option str) :=
  match s with
  | SRef n => match names_get (fqn n ens) nmz with
              | Some s' => Some (s', ns (fqn n ens))
              | None => None end
  | _ => Some (s, ens)
  end.

(* unqualified-name match, or one of the reader's aliases names the writer's type *)
Definition alias_hits (wn : name) (aliases : option (list name)) : bool :=
  match aliases with
  | None => false
  | Some l => existsb (fun a => bytes_eqb (nm a) (nm wn)) l
  end.
Definition names_match (w r : name) (raliases : option (list name)) : bool :=
  bytes_eqb (nm w) (nm r) || alias_hits w raliases.

(* "To match, one of the following must hold" - shallow, on dereferenced schemas *)
Definition promotable (w r : schema) : bool :=
  match w, r with
  | SInt, (SLong | SFloat | SDouble) | SLong, (SFloat | SDouble) | SFloat, SDouble
  | SString, SBytes | SBytes, SString => true
  | _, _ => false
  end.

Definition same_prim (w r : schema) : bool :=
  match w, r with
  | SNull, SNull | SBoolean, SBoolean | SInt, SInt | SLong, SLong | SFloat, SFloat | SDouble, SDouble
  | SBytes, SBytes | SString, SString => true
  | _, _ => false
  end.

(* JSON encoding of default values, per the table in the specification *)
Fixpoint code_points_to_bytes (cps : list N) : option bytes :=
  match cps with
  | [] => Some []
  | c :: r => if c <=? 255 then option_map (cons c) (code_points_to_bytes r) else None
  end.

(* UTF-8 decoding into code points (the default of a bytes/fixed field is a string whose code
   points 0-255 are the bytes) *)
Fixpoint chars (fuel : nat) (bs : bytes) : option (list N) :=
  match fuel with O => None | S f =>
  match bs with
  | [] => Some []
  | b0 :: r =>
    if b0 <? 128 then option_map (cons b0) (chars f r)
    else if b0 <? 224 then
      match r with b1 :: r' => option_map (cons ((b0 - 192) * 64 + (b1 - 128))) (chars f r') | _ => None end
    else if b0 <? 240 then
      match r with
      | b1 :: b2 :: r' => option_map (cons ((b0 - 224) * 4096 + (b1 - 128) * 64 + (b2 - 128))) (chars f r')
      | _ => None end
    else
      match r with
      | b1 :: b2 :: b3 :: r' =>
        option_map (cons ((b0 - 240) * 262144 + (b1 - 128) * 4096 + (b2 - 128) * 64 + (b3 - 128))) (chars f r')
      | _ => None end
  end end.

Fixpoint mapO {A B} (f : A -> option B) (l : list A) : option (list B) :=
  match l with
  | [] => Some []
  | x :: r => match f x, mapO f r with Some y, Some ys => Some (y :: ys) | _, _ => None end
  end.

Fixpoint default_value (fuel : nat) (rn : names) (ens : option str) (s : schema) (j : json)
  {struct fuel} : option value :=
  match fuel with O => None | S f =>
  match deref f rn ens s with
  | None => None
  | Some (s, ens) =>
  match s, j with
  | SNull, JNull => Some VNull
  | SBoolean, JBool b => Some (VBoolean b)
  | SInt, JInt z => if in_i32 z then Some (VInt z) else None
  | SLong, JInt z => if in_i64 z then Some (VLong z) else None
  | SFloat, JInt z => Some (VFloat (f32_of_Z z))
  | SFloat, JFloat x => Some (VFloat (f64_to_f32 x))
  | SDouble, JInt z => Some (VDouble (f64_of_Z z))
  | SDouble, JFloat x => Some (VDouble x)
  | SBytes, JStr t =>
    match chars (S (length t)) t with Some cps => option_map VBytes (code_points_to_bytes cps) | None => None end
  | SString, JStr t => Some (VString t)
  | SFixed fx, JStr t =>
    match chars (S (length t)) t with
    | Some cps => match code_points_to_bytes cps with
                  | Some b => if lenN b =? fx_size fx then Some (VFixed (fx_size fx) b) else None
                  | None => None end
    | None => None end
  | SEnum _ _ _ symbols _ _, JStr t =>
    match position (bytes_eqb t) symbols with Some i => Some (VEnum (N.of_nat i) t) | None => None end
  | SArray it _, JArr l => option_map VArray (mapO (default_value f rn ens it) l)
  | SMap vt _, JObj l =>
    option_map VMap (mapO (fun kv => option_map (pair (fst kv)) (default_value f rn ens vt (snd kv))) l)
  | SUnion (first :: _), _ => option_map (VUnion 0) (default_value f rn ens first j)
  | SRecord n _ _ fs _, JObj l =>
    option_map VRecord
      (mapO (fun ms : fmeta * schema =>
               match lookup (f_name (fst ms)) l with
               | Some jv => option_map (pair (f_name (fst ms))) (default_value f rn (ns (fqn n ens)) (snd ms) jv)
               | None => match f_default (fst ms) with
                         | Some d => option_map (pair (f_name (fst ms))) (default_value f rn (ns (fqn n ens)) (snd ms) d)
                         | None => None end
               end) fs)
  | SDate, JInt z => if in_i32 z then Some (VDate z) else None
  | STimeMillis, JInt z => if in_i32 z then Some (VTimeMillis z) else None
  | STimeMicros, JInt z => if in_i64 z then Some (VTimeMicros z) else None
  | STimestampMillis, JInt z => if in_i64 z then Some (VTimestampMillis z) else None
  | STimestampMicros, JInt z => if in_i64 z then Some (VTimestampMicros z) else None
  | STimestampNanos, JInt z => if in_i64 z then Some (VTimestampNanos z) else None
  | SLocalTimestampMillis, JInt z => if in_i64 z then Some (VLocalTimestampMillis z) else None
  | SLocalTimestampMicros, JInt z => if in_i64 z then Some (VLocalTimestampMicros z) else None
  | SLocalTimestampNanos, JInt z => if in_i64 z then Some (VLocalTimestampNanos z) else None
  | _, _ => None
  end end end.

(* does reader schema r "match" writer schema w (shallow, after dereferencing) *)
Definition matches (w r : schema) : bool :=
  match w, r with
  | SArray _ _, SArray _ _ | SMap _ _, SMap _ _ => true
  | SEnum wn _ _ _ _ _, SEnum rn' ral _ _ _ _ => names_match wn rn' ral
  | SFixed wf, SFixed rf => (fx_size wf =? fx_size rf) && names_match (fx_name wf) (fx_name rf) (fx_aliases rf)
  | SRecord wn _ _ _ _, SRecord rn' ral _ _ _ => names_match wn rn' ral
  | SUnion _, _ | _, SUnion _ => true
  | _, _ => same_prim w r || promotable w r
  end.

Fixpoint find_field (wname : str) (rfs : list (fmeta * schema)) : option (fmeta * schema) :=
  match rfs with
  | [] => None
  | (m, s) :: r =>
    if bytes_eqb (f_name m) wname || existsb (bytes_eqb wname) (f_aliases m) then Some (m, s)
    else find_field wname r
  end.

(* the writer field (name, schema, value) feeding reader field m: same name, or m's alias *)
Fixpoint writer_field_for (m : fmeta) (wfs : list (fmeta * schema)) (wl : list (str * value))
  : option (schema * value) :=
  match wfs, wl with
  | (wm, ws) :: wr, (_, v) :: vr =>
    if bytes_eqb (f_name wm) (f_name m) || existsb (bytes_eqb (f_name wm)) (f_aliases m) then Some (ws, v)
    else writer_field_for m wr vr
  | _, _ => None
  end.

(* primitives: identical types and the promotions int->long/float/double, long->float/double,
   float->double, string<->bytes *)
Definition prim_read (W R : schema) (v : value) : option value :=
  match W, R, v with
  | SNull, SNull, VNull => Some VNull
  | SBoolean, SBoolean, VBoolean b => Some (VBoolean b)
  | SInt, SInt, VInt z => Some (VInt z)
  | SInt, SLong, VInt z => Some (VLong z)
  | SInt, SFloat, VInt z => Some (VFloat (f32_of_Z z))
  | SInt, SDouble, VInt z => Some (VDouble (f64_of_Z z))
  | SLong, SLong, VLong z => Some (VLong z)
  | SLong, SFloat, VLong z => Some (VFloat (f32_of_Z z))
  | SLong, SDouble, VLong z => Some (VDouble (f64_of_Z z))
  | SFloat, SFloat, VFloat x => Some (VFloat x)
  | SFloat, SDouble, VFloat x => Some (VDouble (f32_to_f64 x))
  | SDouble, SDouble, VDouble x => Some (VDouble x)
  | SBytes, SBytes, VBytes b => Some (VBytes b)
  | SBytes, SString, VBytes b => if utf8_ok b then Some (VString b) else None
  | SString, SString, VString t => Some (VString t)
  | SString, SBytes, VString t => Some (VBytes t)
  | _, _, _ => None
  end.

(* "A logical type is always serialized using its underlying Avro type": the int- and long-based
   logical types resolve as int / long, and the reader's logical type decides the representation *)
Definition int_logical (s : schema) : option (schema * (Z -> value)) :=
  match s with
  | SDate => Some (SInt, VDate) | STimeMillis => Some (SInt, VTimeMillis)
  | STimeMicros => Some (SLong, VTimeMicros)
  | STimestampMillis => Some (SLong, VTimestampMillis) | STimestampMicros => Some (SLong, VTimestampMicros)
  | STimestampNanos => Some (SLong, VTimestampNanos)
  | SLocalTimestampMillis => Some (SLong, VLocalTimestampMillis)
  | SLocalTimestampMicros => Some (SLong, VLocalTimestampMicros)
  | SLocalTimestampNanos => Some (SLong, VLocalTimestampNanos)
  | _ => None
  end.

Definition strip_logical (W : schema) (v : value) : schema * value :=
  match int_logical W with
  | Some (b, _) =>
    match v with
    | VDate z | VTimeMillis z => (b, VInt z)
    | VTimeMicros z | VTimestampMillis z | VTimestampMicros z | VTimestampNanos z
    | VLocalTimestampMillis z | VLocalTimestampMicros z | VLocalTimestampNanos z => (b, VLong z)
    | _ => (W, v)
    end
  | None => (W, v)
  end.

Definition prim_logical_read (W R : schema) (v : value) : option value :=
  let '(W1, v1) := strip_logical W v in
  match int_logical R with
  | Some (rb, mk) =>
    match prim_read W1 rb v1 with
    | Some (VInt z) | Some (VLong z) => Some (mk z)
    | _ => None
    end
  | None => prim_read W1 R v1
  end.

(* "A logical type is always serialized using its underlying Avro type": the schema a logical type
   is resolved as *)
Definition unlogical (s : schema) : schema :=
  match s with
  | SDecimal _ _ DBytes | SBigDecimal | SUuid UBytes => SBytes
  | SDecimal _ _ (DFixed f) | SUuid (UFixed f) | SDuration f => SFixed f
  | SUuid UString => SString
  | _ => match int_logical s with Some (b, _) => b | None => s end
  end.

(* the same type: same constructor (logical type included), names matching for named types; "two
   schemas that are decimal logical types match if their scales and precisions match" *)
Definition same_type (w r : schema) : bool :=
  match w, r with
  | SDate, SDate | STimeMillis, STimeMillis | STimeMicros, STimeMicros
  | STimestampMillis, STimestampMillis | STimestampMicros, STimestampMicros | STimestampNanos, STimestampNanos
  | SLocalTimestampMillis, SLocalTimestampMillis | SLocalTimestampMicros, SLocalTimestampMicros
  | SLocalTimestampNanos, SLocalTimestampNanos | SBigDecimal, SBigDecimal => true
  | SDecimal p s _, SDecimal p' s' _ => (p =? p') && (s =? s') && matches (unlogical w) (unlogical r)
  | SUuid _, SUuid _ | SDuration _, SDuration _ => matches (unlogical w) (unlogical r)
  | SArray _ _, SArray _ _ | SMap _ _, SMap _ _ | SEnum _ _ _ _ _ _, SEnum _ _ _ _ _ _
  | SFixed _, SFixed _ | SRecord _ _ _ _ _, SRecord _ _ _ _ _ => matches w r
  | _, _ => same_prim w r
  end.

(* Branch selection when the reader's schema is a union.  The specification says "the first schema
   in the reader's union that matches"; read literally that would send an int written under
   ["long","int"] to the long branch even when reader and writer schemas are identical, and
   resolving a resolved value would change it, which C08 excludes.  As in the reference
   implementation (ResolvingGrammarGenerator.bestBranch) an identical type is preferred over the same
   underlying type, and that over a promotion. *)
Fixpoint first_branch (test : schema -> bool) (i : N) (l : list schema) : option (N * schema) :=
  match l with
  | [] => None
  | rb :: r => if test rb then Some (i, rb) else first_branch test (i + 1) r
  end.

Definition pick_branch (fuel : nat) (rn : names) (rens : option str) (W : schema) (rbs : list schema)
  : option (N * schema) :=
  let der rb := match deref fuel rn rens rb with Some (rb', _) => rb' | None => SNull end in
  match first_branch (fun rb => same_type W (der rb)) 0 rbs with
  | Some x => Some x
  | None =>
    match first_branch (fun rb => let b := unlogical (der rb) in
                                  match b with SUnion _ => false | _ => matches (unlogical W) b && negb (promotable (unlogical W) b) end) 0 rbs with
    | Some x => Some x
    | None => first_branch (fun rb => promotable (unlogical W) (unlogical (der rb))) 0 rbs
    end
  end.

Fixpoint spec_read (fuel : nat) (wn rn : names) (wens rens : option str) (W R : schema) (v : value)
  {struct fuel} : option value :=
  match fuel with O => None | S f =>
  match deref f wn wens W, deref f rn rens R with
  | Some (W, wens), Some (R, rens) =>
    match W, v with
    | SUnion wbs, VUnion i x =>
      (* writer's is a union: resolve the selected branch against the reader's schema *)
      match nth_N wbs i with
      | Some wb => spec_read f wn rn wens rens wb R x
      | None => None
      end
    | _, _ =>
      match R with
      | SUnion rbs =>
        (* reader's is a union, writer's is not *)
        match pick_branch f rn rens W rbs with
        | Some (i, rb) => option_map (VUnion i) (spec_read f wn rn wens rens W rb v)
        | None => None
        end
      | _ =>
        match W, R, v with
        | SArray wit _, SArray rit _, VArray l =>
          option_map VArray (mapO (spec_read f wn rn wens rens wit rit) l)
        | SMap wvt _, SMap rvt _, VMap l =>
          option_map VMap (mapO (fun kv => option_map (pair (fst kv)) (spec_read f wn rn wens rens wvt rvt (snd kv))) l)
        | SEnum wname _ _ _ _ _, SEnum rname ral _ rsyms rdef _, VEnum _ sym =>
          if names_match wname rname ral then
            match position (bytes_eqb sym) rsyms with
            | Some i => Some (VEnum (N.of_nat i) sym)
            | None =>
              match rdef with
              | Some d => match position (bytes_eqb d) rsyms with
                          | Some i => Some (VEnum (N.of_nat i) d)
                          | None => None end
              | None => None
              end
            end
          else None
        | SFixed wf, SFixed rf, VFixed n b =>
          if matches W R then Some (VFixed n b) else None
        | SRecord wname _ _ wfs _, SRecord rname ral _ rfs _, VRecord wl =>
          if names_match wname rname ral then
            option_map VRecord
              (mapO (fun ms : fmeta * schema =>
                       let '(m, rs) := ms in
                       match writer_field_for m wfs wl with
                       | Some (ws, x) =>
                         option_map (pair (f_name m))
                           (spec_read f wn rn (ns (fqn wname wens)) (ns (fqn rname rens)) ws rs x)
                       | None =>
                         match f_default m with
                         | Some d => option_map (pair (f_name m)) (default_value f rn (ns (fqn rname rens)) rs d)
                         | None => None
                         end
                       end) rfs)
          else None
        | SDecimal _ _ _, SDecimal _ _ _, VDecimal b => if same_type W R then Some (VDecimal b) else None
        | SBigDecimal, SBigDecimal, VBigDecimal u sc => Some (VBigDecimal u sc)
        | SUuid wu, SUuid ru, VUuid u => if same_type W R then Some (VUuid u) else None
        | SDuration _, SDuration _, VDuration m d ms => if same_type W R then Some (VDuration m d ms) else None
        | _, _, _ => prim_logical_read W R v
        end
      end
    end
  | _, _ => None
  end end.
