(* A strict reading of the block framing of arrays and maps, as an independent consumer that relies
   on the announced byte size would do it ("the count is followed immediately by a long block size
   indicating the number of bytes in the block ... allows fast skipping"): a block written with a
   negative count is cut out of the input by its announced size, must hold exactly |count| items and
   nothing else.  The implementation's own decoders read the size and ignore it (Model/Codec.dec_seq_len),
   so a writer announcing a wrong size is invisible to every round trip inside the library; this
   auditor is what sees it.  Leaves are stepped over with the datum decoder. *)
From AvroV Require Import Base Varint Schema Bytes Names Floats Codec.
Open Scope N_scope.

Definition audit_items (item : bytes -> res bytes) (n : N) (bs : bytes) : res bytes :=
  do (_, r) <- dec_count (fun b => do r <- item b; Ok (tt, r)) n bs; Ok r.

Fixpoint audit_blocks (item : bytes -> res bytes) (g : nat) (bs : bytes) : res bytes :=
  match g with
  | O => OutOfFuel
  | S g' =>
    match dec_long bs with
    | LOk z r =>
      if (z =? 0)%Z then Ok r
      else if (z <? 0)%Z then
        match dec_long r with
        | LOk size r' =>
          if (size <? 0)%Z then Err else
          match take (Z.to_N size) r' with
          | Some (blk, rest) =>
            do lo <- audit_items item (Z.to_N (- z)) blk;
            match lo with
            | [] => audit_blocks item g' rest
            | _ => Err                     (* the announced size is larger than the items *)
            end
          | None => Err                    (* the announced size runs past the input *)
          end
        | _ => Err
        end
      else do r' <- audit_items item (Z.to_N z) r; audit_blocks item g' r'
    | _ => Err
    end
  end.

Fixpoint audit_fields (a : schema -> bytes -> res bytes) (fs : list (fmeta * schema)) (bs : bytes) : res bytes :=
  match fs with
  | [] => Ok bs
  | (_, s) :: r => do b1 <- a s bs; audit_fields a r b1
  end.

Fixpoint audit (fuel : nat) (c : cfg) (nmz : names) (ens : option str) (s : schema) (bs : bytes)
  {struct fuel} : res bytes :=
  match fuel with
  | O => OutOfFuel
  | S f =>
    match s with
    | SArray it _ => audit_blocks (audit f c nmz ens it) (S (length bs)) bs
    | SMap vt _ =>
      audit_blocks (fun b => do (_, r1) <- dec_string c b; audit f c nmz ens vt r1) (S (length bs)) bs
    | SUnion brs =>
      match dec_long bs with
      | LOk i r =>
        if (i <? 0)%Z then Err else
        match nth_N brs (Z.to_N i) with
        | None => Err
        | Some b => audit f c nmz ens b r
        end
      | _ => Err
      end
    | SRecord n _ _ fs _ => audit_fields (audit f c nmz (ns (fqn n ens))) fs bs
    | SRef n =>
      match names_get (fqn n ens) nmz with
      | Some s' => audit f c nmz (ns (fqn n ens)) s' bs
      | None => Err
      end
    | _ => do (_, r) <- decode (S f) c nmz ens s bs; Ok r
    end
  end.
