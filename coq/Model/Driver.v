(* run_case: the single entry point of the extracted model.  One case term in, one observation
   term out; the same function is evaluated with vm_compute for the extraction cross-check. *)
From Coq Require Import String.
From AvroV Require Import Base Varint Schema Bytes Names Codec Validate Rabin SingleObject Sexp.
Local Open Scope string_scope.

Definition run_fuel : nat := 300.

Definition obs_err : sexp := L [Sym "err"].
Definition obs_bad : sexp := L [Sym "bad-case"].
Definition obs_of_res {A} (f : A -> list sexp) (r : res A) : sexp :=
  match r with
  | Ok a => L (Sym "ok" :: f a)
  | Err => obs_err
  | Panic => L [Sym "panic"]
  | OutOfFuel => L [Sym "out-of-fuel"]
  end.

Definition cfg_of (x : sexp) : option cfg :=
  match x with
  | L [Sym _; Num m; Num v; Num kv] => Some (mkCfg (Z.to_N m) (Z.to_N v) (Z.to_N kv))
  | _ => None
  end.

(* union search is not modelled yet: cases must not reach it (the driver reports panic if they do) *)
Definition find_todo : find_fn := fun _ _ _ _ => Panic.

Definition sexp_of_so_out (o : so_out) : sexp :=
  match o with
  | SoEmitted m => L [Sym "emitted"; Hex m]
  | SoValueErr | SoSinkErr | SoStateErr => L [Sym "err"]
  end.

Definition so_ops_of (nmz : names) (s : schema) (l : list sexp) : option (list (res bytes * bool)) :=
  mapM (fun op => match op with
                  | L [Sym _; vx; Num ok] =>
                    match value_of conv_fuel vx with
                    | Some v => Some (so_datum run_fuel find_todo nmz s v, negb (ok =? 0)%Z)
                    | None => None
                    end
                  | _ => None end) l.

Definition run_case (x : sexp) : sexp :=
  match x with
  | L (Sym op :: args) =>
    if op =? "encode" then
      match args with
      | [sx; vx] =>
        match schema_of conv_fuel sx, value_of conv_fuel vx with
        | Some s, Some v =>
          obs_of_res (fun b => [Hex b])
            (do nmz <- resolved s; encode run_fuel nmz None s v)
        | _, _ => obs_bad
        end
      | _ => obs_bad
      end
    else if op =? "decode" then
      match args with
      | [cx; sx; Hex b] =>
        match cfg_of cx, schema_of conv_fuel sx with
        | Some c, Some s =>
          obs_of_res (fun vr => [sexp_of_value (fst vr); Hex (snd vr)])
            (do nmz <- resolved s; decode run_fuel c nmz None s b)
        | _, _ => obs_bad
        end
      | _ => obs_bad
      end
    else if op =? "so-history" then
      match args with
      | sx :: Hex hdr :: ops =>
        match schema_of conv_fuel sx with
        | Some s =>
          match resolved s with
          | Ok nmz =>
            match so_ops_of nmz s ops with
            | Some l => L (Sym "ok" :: map sexp_of_so_out (snd (so_run hdr l)))
            | None => obs_bad
            end
          | _ => obs_err
          end
        | None => obs_bad
        end
      | _ => obs_bad
      end
    else if op =? "so-read" then
      match args with
      | [cx; sx; Hex hdr; Hex msg] =>
        match cfg_of cx, schema_of conv_fuel sx with
        | Some c, Some s =>
          obs_of_res (fun vr => [sexp_of_value (fst vr); Hex (snd vr)])
            (do nmz <- resolved s; so_read run_fuel c nmz s hdr msg)
        | _, _ => obs_bad
        end
      | _ => obs_bad
      end
    else if op =? "rabin" then
      match args with
      | [Hex b] => L [Sym "ok"; Hex (rabin_digest b); Hex (so_header b)]
      | _ => obs_bad
      end
    else obs_bad
  | _ => obs_bad
  end.
