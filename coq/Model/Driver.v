(* run_case: the single entry point of the extracted model.  One case term in, one observation
   term out; the same function is evaluated with vm_compute for the extraction cross-check. *)
From Coq Require Import String.
From AvroV Require Import Base Varint Schema Bytes Names Codec Conforms Layout Validate Rabin SingleObject Resolve Compat Resolution Container Sink Settings Sexp Lit SchemaJson PCF Parser CodecFrame BlockAudit.
Local Open Scope string_scope.

(* every nesting level of a recursive schema costs a few units (record, field, array, reference): inputs of a few hundred
   bytes can nest a hundred levels deep *)
Definition run_fuel : nat := 1500.

Definition obs_err : sexp := L [Sym "err"].
Definition obs_bad : sexp := L [Sym "bad-case"].
Definition obs_of_res {A} (f : A -> list sexp) (r : res A) : sexp :=
  match r with
  | Ok a => L (Sym "ok" :: f a)
  | Err => obs_err
  | Panic => L [Sym "panic"]
  | OutOfFuel => L [Sym "out-of-fuel"]
  end.

Definition cfg_of (x : sexp) : option cfg :=
  match x with
  | L [Sym _; Num m; Num v; Num kv] => Some (mkCfg (Z.to_N m) (Z.to_N v) (Z.to_N kv))
  | _ => None
  end.

(* union search is not modelled yet: cases must not reach it (the driver reports panic if they do) *)
Definition find_todo : find_fn := fun _ _ _ _ => Panic.

Definition sexp_of_so_out (o : so_out) : sexp :=
  match o with
  | SoEmitted m => L [Sym "emitted"; Hex m]
  | SoValueErr | SoSinkErr | SoStateErr => L [Sym "err"]
  end.

Definition so_ops_of (nmz : names) (s : schema) (l : list sexp) : option (list (res bytes * bool)) :=
  mapM (fun op => match op with
                  | L [Sym _; vx; Num ok] =>
                    match value_of conv_fuel vx with
                    | Some v => Some (so_datum run_fuel find_todo nmz s v, negb (ok =? 0)%Z)
                    | None => None
                    end
                  | _ => None end) l.

(* ---- container files ---- *)
Definition avro_schema_key : bytes := [97;118;114;111;46;115;99;104;101;109;97].   (* "avro.schema" *)
Definition avro_codec_key : bytes := [97;118;114;111;46;99;111;100;101;99].        (* "avro.codec" *)

Fixpoint wops_of (nmz : names) (s : schema) (cur : bytes) (l : list sexp) : option (list wop) :=
  match l with
  | [] => Some []
  | L (Sym t :: args) :: r =>
    let cont (o : wop) (cur' : bytes) := option_map (cons o) (wops_of nmz s cur' r) in
    if t =? "append" then
      match args with
      | [vx] =>
        match value_of conv_fuel vx with
        | Some v =>
          match validate run_fuel find_todo nmz (schema_ns s) s v with
          | Ok true => match encode run_fuel nmz (schema_ns s) s v with
                       | Ok d => cont (WAppend d) cur
                       | _ => cont WAppendEncErr cur end
          | Ok false => cont WAppendInvalid cur
          | _ => None
          end
        | None => None
        end
      | _ => None end
    else if t =? "append-unvalidated" then
      match args with
      | [vx] =>
        match value_of conv_fuel vx with
        | Some v => match encode run_fuel nmz (schema_ns s) s v with
                    | Ok d => cont (WAppend d) cur
                    | _ => cont WAppendEncErr cur end
        | None => None
        end
      | _ => None end
    else if t =? "flush" then cont WFlush cur
    else if t =? "meta" then
      match args with [Hex k; Hex v] => cont (WAddMeta k v) cur | _ => None end
    else if t =? "reset" then
      match args with [Hex m] => cont (WReset m) m | _ => None end
    else if (t =? "finish") || (t =? "drop") then cont WFinish cur
    else if t =? "reopen" then cont (WReopen cur) cur
    else None
  | _ => None
  end.

Definition is_user_key (k : bytes) : bool := negb (starts_with avro_dot k).

Definition run_case (x : sexp) : sexp :=
  match x with
  | L (Sym op :: args) =>
    if op =? "encode" then
      match args with
      | [sx; vx] =>
        match schema_of conv_fuel sx, value_of conv_fuel vx with
        | Some s, Some v =>
          (* ResolvedSchema::try_from fails before anything is written: no writer can be built *)
          match resolved s with
          | Err => L [Sym "writer-err"]
          | r => obs_of_res (fun b => [Hex b]) (do nmz <- r; encode run_fuel nmz None s v)
          end
        | _, _ => obs_bad
        end
      | _ => obs_bad
      end
    else if op =? "decode" then
      match args with
      | [cx; sx; Hex b] =>
        match cfg_of cx, schema_of conv_fuel sx with
        | Some c, Some s =>
          obs_of_res (fun vr => [sexp_of_value (fst vr); Hex (snd vr)])
            (do nmz <- resolved s; decode run_fuel c nmz None s b)
        | _, _ => obs_bad
        end
      | _ => obs_bad
      end
    else if op =? "audit" then
      (* (audit CFG SCHEMA #bytes) : strict reading of block byte sizes; the bytes left over *)
      match args with
      | [cx; sx; Hex b] =>
        match cfg_of cx, schema_of conv_fuel sx with
        | Some c, Some s =>
          obs_of_res (fun r => [Hex r]) (do nmz <- resolved s; audit run_fuel c nmz None s b)
        | _, _ => obs_bad
        end
      | _ => obs_bad
      end
    else if op =? "so-history" then
      match args with
      | sx :: Hex hdr :: ops =>
        match schema_of conv_fuel sx with
        | Some s =>
          match resolved s with
          | Ok nmz =>
            match so_ops_of nmz s ops with
            | Some l => L (Sym "ok" :: map sexp_of_so_out (snd (so_run hdr l)))
            | None => obs_bad
            end
          | _ => obs_err
          end
        | None => obs_bad
        end
      | _ => obs_bad
      end
    else if op =? "so-read" then
      match args with
      | [cx; sx; Hex hdr; Hex msg] =>
        match cfg_of cx, schema_of conv_fuel sx with
        | Some c, Some s =>
          obs_of_res (fun vr => [sexp_of_value (fst vr); Hex (snd vr)])
            (do nmz <- resolved s; so_read run_fuel c nmz s hdr msg)
        | _, _ => obs_bad
        end
      | _ => obs_bad
      end
    else if op =? "cfile" then
      match args with
      | sx :: Num bsz :: Hex marker :: Hex sjson :: ops =>
        match schema_of conv_fuel sx with
        | Some s =>
          match resolved s with
          | Ok nmz =>
            match wops_of nmz s marker ops with
            | Some wl =>
              let hdr := header_bytes (fun l => l) [(avro_schema_key, sjson)] in
              let '(st, rs) := wrun null_codec (Z.to_N bsz) hdr (winit marker) wl in
              L [Sym "ok"; L (Sym "results" :: map (fun b : bool => Num (if b then 1 else 0)) rs);
                 Hex (w_sink st)]
            | None => obs_bad
            end
          | _ => obs_err
          end
        | None => obs_bad
        end
      | _ => obs_bad
      end
    else if op =? "cread" then
      match args with
      | [cx; sx; Hex file] =>
        match cfg_of cx, schema_of conv_fuel sx with
        | Some c, Some s =>
          match resolved s with
          | Ok nmz =>
            match ropen c file with
            | Ok (meta, marker, rest) =>
              match lookup avro_schema_key meta with
              | None => L [Sym "open-err"]
              | Some _ =>
                match lookup avro_codec_key meta with
                | Some [110;117;108;108] | None =>
                  let '(vs, e) := read_blocks c null_codec (decode run_fuel c nmz None s)
                                              (S (length rest)) marker rest in
                  L [Sym "ok";
                     L (Sym "meta" :: map (fun kv => L [Sym "kv"; Hex (fst kv); Hex (snd kv)])
                                          (filter (fun kv => is_user_key (fst kv)) meta));
                     L (Sym "items" :: map sexp_of_value vs);
                     Sym (match e with Clean => "clean" | Failed => "failed" end)]
                | Some _ => L [Sym "codec-unsupported"]
                end
              end
            | _ => L [Sym "open-err"]
            end
          | _ => obs_err
          end
        | _, _ => obs_bad
        end
      | _ => obs_bad
      end
    else if op =? "sinkmodel" then
      (* (sinkmodel (pieces #p...) (script default (a n)|(f)|(i) ...)) *)
      match args with
      | [L (Sym _ :: ps); L (Sym _ :: Num dflt :: bs)] =>
        match mapM hex_of_sexp ps,
              mapM (fun b => match b with
                             | L [Sym t; Num n] => if t =? "a" then Some (Accept (Z.to_N n)) else None
                             | L [Sym t] => if t =? "f" then Some Fail
                                            else if t =? "i" then Some Interrupted else None
                             | _ => None end) bs with
        | Some pieces, Some script =>
          let '(okk, s') := write_pieces (mkSink script (Z.to_N dflt) [] 0) pieces in
          L [Sym (if okk then "ok" else "err"); Hex (sk_data s'); Num (Z.of_N (sk_calls s'))]
        | _, _ => obs_bad
        end
      | _ => obs_bad
      end
    else if op =? "so-sinkmodel" then
      (* (so-sinkmodel #header (payloads #p|(none) ...) (script default (a n)|(f)|(i) ...)) : one
         GenericSingleObjectWriter reused for every payload against one scripted sink *)
      match args with
      | [Hex h; L (Sym _ :: ps); L (Sym _ :: Num dflt :: bs)] =>
        match mapM (fun x => match x with Hex b => Some (Some b) | L [Sym _] => Some None | _ => None end) ps,
              mapM (fun b => match b with
                             | L [Sym t; Num n] => if t =? "a" then Some (Accept (Z.to_N n)) else None
                             | L [Sym t] => if t =? "f" then Some Fail
                                            else if t =? "i" then Some Interrupted else None
                             | _ => None end) bs with
        | Some payloads, Some script =>
          let '(outs, _, s') := sow_run h (mkSink script (Z.to_N dflt) [] 0) payloads in
          L (Sym "ok" :: Hex (sk_data s') ::
             map (fun o : option nat * bytes =>
                    match fst o with
                    | Some n => L [Sym "ok"; Num (Z.of_nat n); Hex (snd o)]
                    | None => L [Sym "err"; Hex (snd o)]
                    end) outs)
        | _, _ => obs_bad
        end
      | _ => obs_bad
      end
    else if op =? "settings" then
      (* (settings (g v) | (s v) ...) : one linearised schedule on one write-once cell *)
      match mapM (fun o => match o with
                           | L [Sym t; Num v] => if t =? "g" then Some (GetOrInit v)
                                                 else if t =? "s" then Some (TrySet v) else None
                           | _ => None end) args with
      | Some ops =>
        let '(c, outs) := srun None ops in
        L (Sym "ok" :: map (fun o => match o with
                                     | Got v => L [Sym "got"; Num v]
                                     | Accepted => L [Sym "accepted"]
                                     | Rejected _ => L [Sym "rejected"] end) outs)
      | None => obs_bad
      end
    else if op =? "vw" then
      (* (vw CFG SCHEMA VALUE) -> (ok valid RESOLVE DATUM) : validation (with the real union search),
         resolution, and the validating datum write *)
      match args with
      | [cx; sx; vx] =>
        match cfg_of cx, schema_of conv_fuel sx, value_of conv_fuel vx with
        | Some c, Some s, Some v =>
          match resolved s with
          | Ok nmz =>
            let find := find_impl c run_fuel in
            L [Sym "ok";
               obs_of_res (fun b : bool => [Num (if b then 1 else 0)]) (validate run_fuel find nmz None s v);
               obs_of_res (fun x => [sexp_of_value x]) (resolve run_fuel c nmz None s v);
               obs_of_res (fun b => [Hex b]) (write_value run_fuel find true nmz s v);
               obs_of_res (fun b => [Hex b]) (so_datum run_fuel find nmz s v)]
          | _ => L [Sym "unresolvable"]      (* Value::validate panics as documented, no writer can be built *)
          end
        | _, _, _ => obs_bad
        end
      | _ => obs_bad
      end
    else if op =? "read2" then
      (* (read2 CFG W R VALUE) -> (ok RESOLVE SPEC CANREAD CANREAD-REV MUTUAL) *)
      match args with
      | [cx; wx; rx; vx] =>
        match cfg_of cx, schema_of conv_fuel wx, schema_of conv_fuel rx, value_of conv_fuel vx with
        | Some c, Some W, Some R, Some v =>
          let show_c (r : res compat) :=
            match r with Ok CFull => Sym "full" | Ok CPartial => Sym "partial" | Err => Sym "incompatible"
                       | Panic => Sym "panic" | OutOfFuel => Sym "out-of-fuel" end in
          match resolved W, resolved R with
          | Ok wn, Ok rn =>
            (* what the reader sees is the value decoded with the writer's schema *)
            match (do bs <- write_value run_fuel (find_impl c run_fuel) true wn W v;
                   decode run_fuel c wn None W bs) with
            | Ok (dv, _) =>
              L [Sym "ok";
                 obs_of_res (fun x => [sexp_of_value x]) (resolve run_fuel c rn None R dv);
                 match spec_read run_fuel wn rn None None W R dv with
                 | Some x => L [Sym "some"; sexp_of_value x] | None => L [Sym "none"] end;
                 show_c (can_read run_fuel W R); show_c (can_read run_fuel R W);
                 show_c (mutual_read run_fuel W R); show_c (can_read run_fuel W W);
                 sexp_of_value dv]
            | _ =>
              L [Sym "unwritable";
                 show_c (can_read run_fuel W R); show_c (can_read run_fuel R W);
                 show_c (mutual_read run_fuel W R); show_c (can_read run_fuel W W)]
            end
          | _, _ =>
            (* a reference that does not resolve: no writer or reader can be built, the verdicts still exist *)
            L [Sym "unwritable";
               show_c (can_read run_fuel W R); show_c (can_read run_fuel R W);
               show_c (mutual_read run_fuel W R); show_c (can_read run_fuel W W)]
          end
        | _, _, _, _ => obs_bad
        end
      | _ => obs_bad
      end
    else if op =? "layout" then
      (* (layout k neg01 CFG SCHEMA VALUE) -> (ok #bytes conforms01 names-ok01) *)
      match args with
      | [Num k; Num neg; cx; sx; vx] =>
        match cfg_of cx, schema_of conv_fuel sx, value_of conv_fuel vx with
        | Some c, Some s, Some v =>
          match resolved s with
          | Ok nmz =>
            match lay run_fuel (Z.to_nat k) (negb (neg =? 0)%Z) nmz None s v with
            | Ok b => L [Sym "ok"; Hex b;
                         Num (if conforms run_fuel c nmz None s v then 1 else 0);
                         Num (if names_okb nmz then 1 else 0)]
            | _ => obs_err
            end
          | _ => obs_err
          end
        | _, _, _ => obs_bad
        end
      | _ => obs_bad
      end
    else if op =? "parse" then
      (* (parse JSON) -> (ok SCHEMA) | (err) | (panic) *)
      match args with
      | [jx] =>
        match json_of' jx with
        | Some j => obs_of_res (fun s => [sexp_of_schema s]) (parse_schema run_fuel j)
        | None => obs_bad
        end
      | _ => obs_bad
      end
    else if op =? "crc32" then
      match args with
      | [Hex b] => L [Sym "ok"; Num (Z.of_N (crc32 b))]
      | _ => obs_bad
      end
    else if op =? "parse-list" then
      (* (parse-list (order i ...) JSON ...) -> (ok SCHEMA ...) | (err) | (panic) *)
      match args with
      | L (Sym _ :: ord) :: js =>
        match mapM (fun x => match x with Num z => Some (Z.to_N z) | _ => None end) ord, mapM json_of' js with
        | Some o, Some l => obs_of_res (fun ss => map sexp_of_schema ss) (parse_list run_fuel o l)
        | _, _ => obs_bad
        end
      | _ => obs_bad
      end
    else if op =? "schema-json" then
      (* (schema-json SCHEMA) -> (ok JSON strict01 PCF SPEC-PCF) *)
      match args with
      | [sx] =>
        match schema_of conv_fuel sx with
        | Some s =>
          let j := ser s in
          L [Sym "ok"; sexp_of_json j; Num (if strict j then 1 else 0);
             match canonical_form run_fuel s with
             | POk t => L [Sym "ok"; Hex t]
             | PUnmodelled => L [Sym "unmodelled"]
             | POutOfFuel => L [Sym "out-of-fuel"] end;
             Hex (spec_canonical_form s);
             obs_of_res (fun s' => [sexp_of_schema s']) (parse_schema run_fuel (to_value j))]
        | None => obs_bad
        end
      | _ => obs_bad
      end
    else if op =? "rabin" then
      match args with
      | [Hex b] => L [Sym "ok"; Hex (rabin_digest b); Hex (so_header b)]
      | _ => obs_bad
      end
    else obs_bad
  | _ => obs_bad
  end.
