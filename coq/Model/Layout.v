(* A specification-legal but non-canonical encoder, used to feed the implementation's decoder with
   layouts no Rust writer produces: arrays and maps split into blocks of at most [k] items, each
   block written with a positive count, or (neg = true) a negative count followed by its byte size.
   Proofs/SpecP.v shows every output is in the specification relation. *)
From AvroV Require Import Base Varint Schema Bytes Names Codec.
Open Scope N_scope.

Fixpoint chunks {A} (k : nat) (fuel : nat) (l : list A) : list (list A) :=
  match fuel with
  | O => match l with [] => [] | _ => [l] end
  | S f => match l with
           | [] => []
           | _ => firstn (S k) l :: chunks k f (skipn (S k) l)
           end
  end.

Fixpoint lay_blocks {A} (neg : bool) (e : A -> res bytes) (groups : list (list A)) : res bytes :=
  match groups with
  | [] => Ok [0]
  | g :: r =>
    do b <- enc_list e g;
    do rest <- lay_blocks neg e r;
    if neg then
      if lenN b <? 2 ^ 63 then Ok (enc_long (- Z.of_N (lenN g)) ++ enc_long (Z.of_N (lenN b)) ++ b ++ rest)
      else Err
    else Ok (enc_long (Z.of_N (lenN g)) ++ b ++ rest)
  end.

Fixpoint lay_fields (e : schema -> value -> res bytes) (fs : list (fmeta * schema))
         (l : list (str * value)) : res bytes :=
  match fs, l with
  | [], [] => Ok []
  | (m, s) :: fs', (k, v) :: l' => do a <- e s v; do b <- lay_fields e fs' l'; Ok (a ++ b)
  | _, _ => Err
  end.

(* k = chunk size minus one (so that every chunk is non-empty) *)
Fixpoint lay (fuel : nat) (k : nat) (neg : bool) (nmz : names) (ens : option str) (s : schema) (v : value)
  {struct fuel} : res bytes :=
  match fuel with
  | O => OutOfFuel
  | S f =>
    match s, v with
    | SRef n, _ =>
      match names_get (fqn n ens) nmz with
      | Some s' => lay f k neg nmz (ns (fqn n ens)) s' v
      | None => Err
      end
    | SArray it _, VArray l => lay_blocks neg (lay f k neg nmz ens it) (chunks k (length l) l)
    | SMap vt _, VMap l =>
      lay_blocks neg (fun kv => do a <- lay f k neg nmz ens vt (snd kv); Ok (enc_bytes (fst kv) ++ a))
                 (chunks k (length l) l)
    | SUnion bs, VUnion i x =>
      match nth_N bs i with
      | Some b => do a <- lay f k neg nmz ens b x; Ok (enc_long (Z.of_N i) ++ a)
      | None => Err
      end
    | SRecord n _ _ fs _, VRecord l => lay_fields (lay f k neg nmz (ns (fqn n ens))) fs l
    | _, _ => encode 1 nmz ens s v
    end
  end.
