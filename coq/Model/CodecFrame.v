(* Codec::compress / Codec::decompress around the compression libraries (codec.rs:84-253).
   The libraries themselves (miniz_oxide, snap, bzip2, liblzma, zstd, crc32fast) are outside the
   model: they are the Section variables below, and what the theorems need of them is stated as
   hypotheses that the check gen/c15.py tests against reference implementations on every run.
   What is modelled is the code around them: the snappy framing (raw block ++ big-endian CRC-32 of the
   uncompressed data, verified on reading), the bound on a declared snappy length, and the cap on the
   output of the streaming decoders. *)
From AvroV Require Import Base Varint.
Open Scope N_scope.

(* CRC-32 (IEEE 802.3, reflected, polynomial 0xEDB88320), bit by bit: the specification the trailer of
   a snappy block is checked against *)
Fixpoint crc_bits (n : nat) (r : N) : N :=
  match n with
  | O => r
  | S k => crc_bits k (if N.testbit r 0 then N.lxor (N.shiftr r 1) 0xEDB88320 else N.shiftr r 1)
  end.
Definition crc32_step (r : N) (b : N) : N := crc_bits 8 (N.lxor r b).
Definition crc32 (bs : bytes) : N := N.lxor (fold_left crc32_step bs 0xFFFFFFFF) 0xFFFFFFFF.

Definition be32 (n : N) : bytes := [n / 16777216 mod 256; n / 65536 mod 256; n / 256 mod 256; n mod 256].
Definition of_be32 (b : bytes) : N :=
  match b with [a; b1; c; d] => a * 16777216 + b1 * 65536 + c * 256 + d | _ => 0 end.

Section Frame.
  Variable max_alloc : N.
  (* snap::raw: compress, the length announced by a block, decompress into a buffer of that length *)
  Variable raw_c : bytes -> bytes.
  Variable raw_len : bytes -> res N.
  Variable raw_d : bytes -> res bytes.
  Variable crc : bytes -> N.              (* crc32fast *)

  Definition snappy_compress (data : bytes) : bytes := raw_c data ++ be32 (crc data).

  Definition snappy_decompress (blk : bytes) : res bytes :=
    if lenN blk <? 4 then Err
    else
      let body := firstn (length blk - 4) blk in
      let tail := skipn (length blk - 4) blk in
      do n <- raw_len body;
      if max_alloc <? n then Err
      else
        do out <- raw_d body;
        if of_be32 tail =? crc out then Ok out else Err.

  (* the streaming decoders (bzip2, xz, zstd) read at most max_alloc + 1 bytes and fail above the cap;
     [dec] is what the library would produce without a cap *)
  Definition capped (dec : bytes -> res bytes) (blk : bytes) : res bytes :=
    do out <- dec blk;
    if max_alloc <? lenN out then Err else Ok out.
End Frame.
