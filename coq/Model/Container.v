(* Object container files: avro/src/writer/mod.rs:195-637 (writer), avro/src/reader/block.rs:82-216
   and avro/src/reader/mod.rs:147-159 (reader), as of the fix commits in known_findings.json.
   The codec is a pair of functions; Codec::Null is the identity. *)
From AvroV Require Import Base Varint Schema Bytes Names Codec.
Open Scope N_scope.

Record codec := mkCodec { c_comp : bytes -> res bytes; c_decomp : bytes -> res bytes }.
Definition null_codec : codec := mkCodec (fun b => Ok b) (fun b => Ok b).

Definition magic : bytes := [79; 98; 106; 1].     (* "Obj\x01" *)

(* ---------------- writer ---------------- *)

Record wstate := mkW
  { w_buf : bytes;            (* pending block: encoded values *)
    w_n : N;                  (* num_values *)
    w_hdr : bool;             (* has_header *)
    w_sink : bytes;           (* everything handed to the (reliable) sink *)
    w_marker : bytes;
    w_meta : list (str * bytes) }.   (* user metadata, insertion order, unique keys *)

(* Writer::header, writer/mod.rs:508-557.  [fixed] = the avro.* entries (avro.schema, and
   avro.codec / avro.codec.compression_level when the codec is not null); [order] arranges all
   entries as the HashMap happened to iterate. *)
Definition enc_meta_map (entries : list (str * bytes)) : bytes :=
  match entries with
  | [] => [0]
  | _ => enc_long (Z.of_N (lenN entries))
         ++ concat (map (fun kv => enc_bytes (fst kv) ++ enc_bytes (snd kv)) entries) ++ [0]
  end.

Definition header_bytes (order : list (str * bytes) -> list (str * bytes))
           (fixed : list (str * bytes)) (st : wstate) : bytes :=
  magic ++ enc_meta_map (order (fixed ++ w_meta st)) ++ w_marker st.

Section Writer.
Variable cd : codec.
Variable block_size : N.
Variable hdr_of : wstate -> bytes.       (* header_bytes order fixed *)

(* maybe_write_header, writer/mod.rs:559-568 *)
Definition maybe_header (st : wstate) : wstate :=
  if w_hdr st then st
  else mkW (w_buf st) (w_n st) true (w_sink st ++ hdr_of st) (w_marker st) (w_meta st).

(* flush, writer/mod.rs:404-429: header if needed; nothing more when no value is pending;
   otherwise count, byte size, compressed payload, marker *)
Definition flush (st : wstate) : res wstate :=
  let st := maybe_header st in
  if w_n st =? 0 then Ok st else
  do payload <- c_comp cd (w_buf st);
  Ok (mkW [] 0 true
          (w_sink st ++ enc_long (Z.of_N (w_n st)) ++ enc_long (Z.of_N (lenN payload))
                  ++ payload ++ w_marker st)
          (w_marker st) (w_meta st)).

Inductive wop :=
| WAppend (d : bytes)            (* a value that validated and encoded to d *)
| WAppendEncErr                  (* validated (or unvalidated path) but the encoder failed *)
| WAppendInvalid                 (* rejected by validation: nothing happens *)
| WFlush
| WAddMeta (k : str) (v : bytes)
| WReset (new_marker : bytes)
| WFinish                        (* into_inner or drop *)
| WReopen (marker : bytes).      (* Writer::append_to on the finished output *)

Definition starts_with (p s : bytes) : bool :=
  match take (lenN p) s with Some (h, _) => bytes_eqb h p | None => false end.
Definition avro_dot : bytes := [97; 118; 114; 111; 46].

Fixpoint meta_insert (k : str) (v : bytes) (l : list (str * bytes)) : list (str * bytes) :=
  match l with
  | [] => [(k, v)]
  | (k', v') :: r => if bytes_eqb k k' then (k, v) :: r else (k', v') :: meta_insert k v r
  end.

(* one operation; the boolean is whether the call returned Ok *)
Definition wstep (st : wstate) (o : wop) : wstate * bool :=
  match o with
  | WAppend d =>
    let st := maybe_header st in
    let st := mkW (w_buf st ++ d) (w_n st + 1) true (w_sink st) (w_marker st) (w_meta st) in
    if block_size <=? lenN (w_buf st) then
      match flush st with Ok st' => (st', true) | _ => (st, false) end
    else (st, true)
  | WAppendEncErr => (maybe_header st, false)
  | WAppendInvalid => (st, false)
  | WFlush => match flush st with Ok st' => (st', true) | _ => (st, false) end
  | WAddMeta k v =>
    if w_hdr st then (st, false)
    else if starts_with avro_dot k then (st, false)
    else (mkW (w_buf st) (w_n st) (w_hdr st) (w_sink st) (w_marker st) (meta_insert k v (w_meta st)), true)
  | WReset m => (mkW [] 0 false [] m [], true)
  | WFinish => match flush st with Ok st' => (st', true) | _ => (st, false) end
  | WReopen m => (mkW [] 0 true (w_sink st) m [], true)
  end.

Fixpoint wrun (st : wstate) (ops : list wop) : wstate * list bool :=
  match ops with
  | [] => (st, [])
  | o :: r => let '(st', b) := wstep st o in
              let '(st'', bs) := wrun st' r in (st'', b :: bs)
  end.
End Writer.

Definition winit (marker : bytes) : wstate := mkW [] 0 false [] marker [].

(* ---------------- reader ---------------- *)

Inductive rend := Clean | Failed.

(* util::read_usize: zag_i64 then usize::try_from *)
Definition read_usize (bs : bytes) : res (N * bytes) :=
  match dec_long bs with
  | LOk z r => if (z <? 0)%Z then Err else Ok (Z.to_N z, r)
  | _ => Err
  end.

Section Reader.
Variable c : cfg.
Variable cd : codec.
Variable dec_item : bytes -> res (value * bytes).     (* decode_internal with the writer schema *)

(* Block::read_next within one block: [n] items still announced, [buf] the unread bytes.
   A value that consumes nothing while bytes remain is an error (reader/block.rs:199-202). *)
Fixpoint read_items (n : nat) (buf : bytes) : list value * bool :=
  match n with
  | O => ([], true)
  | S n' =>
    match dec_item buf with
    | Ok (v, r) =>
      if negb (lenN buf =? 0) && (lenN r =? lenN buf) then ([], false)
      else let '(vs, ok) := read_items n' r in (v :: vs, ok)
    | _ => ([], false)
    end
  end.

(* the sequence of values the iterator yields and how it ends.  [g] is fuel for blocks: every
   block consumes at least one byte.  A block announcing 0 values ends the iteration
   (reader/block.rs:187-192), see known finding F32. *)
Fixpoint read_blocks (g : nat) (marker : bytes) (bs : bytes) : list value * rend :=
  match g with
  | O => ([], Failed)
  | S g' =>
    match bs with
    | [] => ([], Clean)
    | _ =>
      match read_usize bs with
      | Ok (count, r1) =>
        match read_usize r1 with
        | Ok (size, r2) =>
          if safe_len c size then
            match take size r2 with
            | Some (payload, r3) =>
              match take 16 r3 with
              | Some (m, r4) =>
                if bytes_eqb m marker then
                  match c_decomp cd payload with
                  | Ok buf =>
                    if count =? 0 then ([], Clean) else
                    let '(vs, ok) := read_items (N.to_nat count) buf in
                    if ok then let '(more, e) := read_blocks g' marker r4 in (vs ++ more, e)
                    else (vs, Failed)
                  | _ => ([], Failed)
                  end
                else ([], Failed)
              | None => ([], Failed)
              end
            | None => ([], Failed)
            end
          else ([], Failed)
        | _ => ([], Failed)
        end
      | _ => ([], Failed)
      end
    end
  end.
End Reader.

(* Block::read_header, reader/block.rs:82-118: magic, metadata map<bytes>, marker.  Returns the
   metadata (as the decoded map), the marker and the rest of the input. *)
Definition ropen (c : cfg) (bs : bytes) : res (list (str * bytes) * bytes * bytes) :=
  match take 4 bs with
  | Some (m, r) =>
    if bytes_eqb m magic then
      do (v, r1) <- decode 2 c [] None (SMap SBytes []) r;
      match v with
      | VMap l =>
        match take 16 r1 with
        | Some (marker, r2) =>
          Ok (map (fun kv => (fst kv, match snd kv with VBytes b => b | _ => [] end)) l, marker, r2)
        | None => Err
        end
      | _ => Err
      end
    else Err
  | None => Err
  end.

(* ---------------- the Reader as an iterator ---------------- *)
(* reader/mod.rs:145-160 (and the deserializing twin, 169-185): what the block reader produced is handed out item by
   item; an error is handed out once and latches the iterator - every later call returns None. *)
Record riter := mkRI { ri_pending : list value; ri_end : rend; ri_errored : bool }.
Inductive ritem := RValue (v : value) | RError.

Definition rnext (it : riter) : option ritem * riter :=
  if ri_errored it then (None, it)
  else match ri_pending it with
       | v :: r => (Some (RValue v), mkRI r (ri_end it) false)
       | [] => match ri_end it with
               | Clean => (None, it)
               | Failed => (Some RError, mkRI [] Failed true)
               end
       end.

(* the first n answers of the iterator *)
Fixpoint rtake (n : nat) (it : riter) : list (option ritem) :=
  match n with
  | O => []
  | S k => let '(o, it') := rnext it in o :: rtake k it'
  end.
