(* Single-object encoding: avro/src/writer/single_object.rs:37-84, 162-262 and
   avro/src/reader/single_object.rs:62-96 (as of the fix commits, see known_findings.json). *)
From AvroV Require Import Base Varint Schema Bytes Names Codec Validate Rabin.
Open Scope N_scope.

(* Schema::name / Schema::namespace, schema/mod.rs:671-690 *)
Definition schema_name (s : schema) : option name :=
  match s with
  | SRef n | SRecord n _ _ _ _ | SEnum n _ _ _ _ _ => Some n
  | SFixed fx | SDecimal _ _ (DFixed fx) | SUuid (UFixed fx) | SDuration fx => Some (fx_name fx)
  | _ => None
  end.
Definition schema_ns (s : schema) : option str :=
  match schema_name s with Some n => ns n | None => None end.

(* write_value_ref_owned_resolved, writer/single_object.rs:229-255: validate, then encode, both
   with the root schema's namespace as enclosing namespace *)
Definition so_datum (fuel : nat) (find : find_fn) (nmz : names) (s : schema) (v : value) : res bytes :=
  do ok <- validate fuel find nmz (schema_ns s) s v;
  if ok then encode fuel nmz (schema_ns s) s v else Err.

Inductive so_out := SoEmitted (msg : bytes) | SoValueErr | SoSinkErr | SoStateErr.

(* GenericSingleObjectWriter::write_value_ref: the state is the reusable buffer.  [datum] is the
   outcome of so_datum appended to the buffer, [sink_ok] whether write_all succeeds. *)
Definition so_write (buf : bytes) (datum : res bytes) (sink_ok : bool) : bytes * so_out :=
  let orig := lenN buf in
  if (10 <=? orig) && (orig <=? 20) then
    match datum with
    | Ok d =>
      let full := buf ++ d in
      let buf' := firstn (length buf) full in               (* buffer.truncate(original_length) *)
      if sink_ok then (buf', SoEmitted full) else (buf', SoSinkErr)
    | _ => (firstn (length buf) buf, SoValueErr)
    end
  else (buf, SoStateErr).

Fixpoint so_run (buf : bytes) (ops : list (res bytes * bool)) : bytes * list so_out :=
  match ops with
  | [] => (buf, [])
  | (d, ok) :: r =>
    let '(buf', o) := so_write buf d ok in
    let '(buf'', os) := so_run buf' r in
    (buf'', o :: os)
  end.

(* GenericSingleObjectReader::read_value: compare the header, then decode with enclosing None *)
Definition so_read (fuel : nat) (c : cfg) (nmz : names) (s : schema) (expected : bytes) (msg : bytes)
  : res (value * bytes) :=
  match take (lenN expected) msg with
  | None => Err
  | Some (h, r) => if bytes_eqb h expected then decode fuel c nmz None s r else Err
  end.
