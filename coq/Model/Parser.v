(* The schema parser: schema/parser.rs:44-850 (Parser), schema/name.rs:44-121 (Name::new / parse),
   validator.rs:78-259 (the four grammars), schema/record/field.rs:84-197 (RecordField::parse, the
   default check by resolution), schema/union.rs:446-467 (UnionSchemaBuilder::variant).

   The input is the serde_json::Value of the text (objects are BTreeMaps: association lists sorted by
   key without repeats; serde_json itself is outside the model).  HashMap<Name, _> tables are
   association lists looked up by key (insert shadows, remove deletes every entry of the key). *)
From AvroV Require Import Base Varint Schema Bytes Names Floats Codec Conforms Validate SingleObject Resolve Lit SchemaJson.
From Coq Require Import String.
Open Scope N_scope.

(* ---- grammars ---- *)
Definition is_alpha_ (c : N) : bool := ((65 <=? c) && (c <=? 90)) || ((97 <=? c) && (c <=? 122)) || (c =? 95).
Definition is_alnum_ (c : N) : bool := is_alpha_ c || ((48 <=? c) && (c <=? 57)).
(* a letter or underscore followed by letters, digits, underscores *)
Definition is_ident (s : str) : bool :=
  match s with c :: r => is_alpha_ c && forallb is_alnum_ r | [] => false end.
(* split at the last '.' : (prefix before it, suffix after it); None when there is no dot *)
Fixpoint split_last_dot (s : str) : option (str * str) :=
  match s with
  | [] => None
  | c :: r =>
    match split_last_dot r with
    | Some (p, q) => Some (c :: p, q)
    | None => if c =? 46 then Some ([], r) else None
    end
  end.
(* empty, or identifiers separated by dots *)
Fixpoint split_dots (s : str) (cur : str) : list str :=
  match s with
  | [] => [rev cur]
  | c :: r => if c =? 46 then rev cur :: split_dots r [] else split_dots r (c :: cur)
  end.
Definition is_namespace (s : str) : bool :=
  match s with [] => true | _ => forallb is_ident (split_dots s []) end.
(* validate_schema_name: the byte index at which the simple name starts *)
Definition name_start (s : str) : option N :=
  match split_last_dot s with
  | None => if is_ident s then Some 0 else None
  | Some (p, q) => if is_namespace p && is_ident q then Some (lenN p + 1) else None
  end.

(* Name::new_with_enclosing_namespace *)
Definition name_new (s : str) (ens : option str) : res name :=
  match name_start s with
  | None => Err
  | Some i =>
    match (if i =? 0 then match ens with Some e => (match e with [] => None | _ => Some e end) | None => None end
           else None) with
    | Some e => if is_namespace e then Ok (mkName (Some e) s) else Err
    | None =>
      if i =? 1 then Ok (mkName None (skipn 1 s))
      else if i =? 0 then Ok (mkName None s)
      else match split_last_dot s with
           | Some (p, q) => Ok (mkName (Some p) q)
           | None => Err end
    end
  end.

Definition jstring (k : str) (m : list (str * json)) : option str :=
  match lookup k m with Some (JStr s) => Some s | _ => None end.

(* Name::parse *)
Definition name_parse (m : list (str * json)) (ens : option str) : res name :=
  match jstring (K "name") m with
  | None => Err
  | Some n => name_new n (match jstring (K "namespace") m with Some x => Some x | None => ens end)
  end.

(* MapHelper::aliases: an array made only of strings *)
Fixpoint all_strings (l : list json) : option (list str) :=
  match l with
  | [] => Some []
  | JStr s :: r => option_map (cons s) (all_strings r)
  | _ => None
  end.
Definition j_aliases_of (m : list (str * json)) : option (list str) :=
  match lookup (K "aliases") m with Some (JArr l) => all_strings l | _ => None end.

Fixpoint map_res {A B} (f : A -> res B) (l : list A) : res (list B) :=
  match l with
  | [] => Ok []
  | x :: r => do y <- f x; do ys <- map_res f r; Ok (y :: ys)
  end.
(* fix_aliases_namespace *)
Definition fix_aliases (al : option (list str)) (nsp : option str) : res (option (list name)) :=
  match al with
  | None => Ok None
  | Some l => do l' <- map_res (fun a => name_new a nsp) l; Ok (Some l')
  end.

(* ---- parser state ---- *)
Record pstate := mkP { p_inputs : list (name * json); p_resolving : names; p_parsed : names }.
Fixpoint names_remove (k : name) (t : names) : names :=
  match t with
  | [] => []
  | (k', s) :: r => if name_eqb k k' then names_remove k r else (k', s) :: names_remove k r
  end.
Definition names_insert (k : name) (s : schema) (t : names) : names := (k, s) :: names_remove k t.

Definition alias_fqns (al : option (list name)) (nsp : option str) : list name :=
  match al with Some l => map (fun a => fqn a nsp) l | None => [] end.

Definition register_resolving (st : pstate) (n : name) (al : option (list name)) : pstate :=
  let r1 := names_insert n (SRef n) (p_resolving st) in
  let r2 := fold_left (fun acc a => names_insert a (SRef n) acc) (alias_fqns al (ns n)) r1 in
  mkP (p_inputs st) r2 (p_parsed st).

Definition register_parsed (st : pstate) (n : name) (s : schema) (al : option (list name)) : pstate :=
  let p1 := names_insert n s (p_parsed st) in
  let r1 := names_remove n (p_resolving st) in
  let '(r2, p2) := fold_left (fun (acc : names * names) a => (names_remove a (fst acc), names_insert a s (snd acc)))
                             (alias_fqns al (ns n)) (r1, p1) in
  mkP (p_inputs st) r2 p2.

(* get_already_seen_schema *)
Definition already_seen (st : pstate) (m : list (str * json)) (ens : option str) : option schema :=
  match lookup (K "type") m with
  | Some (JStr typ) =>
    match name_new typ ens with
    | Ok n => match names_get n (p_resolving st) with
              | Some s => Some s
              | None => names_get n (p_parsed st) end
    | _ => None
    end
  | _ => None
  end.

(* get_custom_attributes *)
Definition std_excluded : list str := [K "type"; K "name"; K "namespace"; K "doc"; K "aliases"; K "logicalType"].
Definition custom_attrs (m : list (str * json)) (excluded : list str) : attrs :=
  filter (fun kv => negb (existsb (bytes_eqb (fst kv)) (std_excluded ++ excluded))) m.
Definition field_attrs (m : list (str * json)) : attrs :=
  filter (fun kv => negb (existsb (bytes_eqb (fst kv)) [K "type"; K "name"; K "doc"; K "default"; K "aliases"])) m.

(* UnionSchemaBuilder::variant over the parsed branches *)
Fixpoint union_check (l : list schema) (seen_names : list name) (seen_kinds : list kind) : bool :=
  match l with
  | [] => true
  | b :: r =>
    match schema_name b with
    | Some n => if existsb (name_eqb n) seen_names then false else union_check r (n :: seen_names) seen_kinds
    | None =>
      let k := base_kind b in
      if kind_eqb k KUnion then false
      else if existsb (kind_eqb k) seen_kinds then false
      else union_check r seen_names (k :: seen_kinds)
    end
  end.

(* parse_json_integer_for_decimal + get_decimal_integer + parse_precision_and_scale *)
Definition dec_integer (m : list (str * json)) (key : str) (is_scale : bool) : option N :=
  match lookup key m with
  | Some (JInt z) => if (0 <=? z)%Z && (z <? 2 ^ 64)%Z then Some (Z.to_N z) else None
  | Some _ => None
  | None => if is_scale then Some 0 else None
  end.
Definition precision_and_scale (m : list (str * json)) : option (N * N) :=
  match dec_integer m (K "precision") false, dec_integer m (K "scale") true with
  | Some p, Some sc => if p <? 1 then None else if p <? sc then None else Some (p, sc)
  | _, _ => None
  end.

(* the conversions of parse_complex, given the natively parsed schema *)
Definition convert_logical (lt : str) (m : list (str * json)) (s : schema) : schema :=
  if is_key lt "decimal" then
    match s with
    | SFixed f => match precision_and_scale m with Some (p, sc) => SDecimal p sc (DFixed f) | None => s end
    | SBytes => match precision_and_scale m with Some (p, sc) => SDecimal p sc DBytes | None => s end
    | _ => s end
  else if is_key lt "big-decimal" then match s with SBytes => SBigDecimal | _ => s end
  else if is_key lt "uuid" then
    match s with
    | SString => SUuid UString
    | SBytes => SUuid UBytes
    | SFixed f => if fx_size f =? 16 then SUuid (UFixed f) else s
    | _ => s end
  else if is_key lt "date" then match s with SInt => SDate | _ => s end
  else if is_key lt "time-millis" then match s with SInt => STimeMillis | _ => s end
  else if is_key lt "time-micros" then match s with SLong => STimeMicros | _ => s end
  else if is_key lt "timestamp-millis" then match s with SLong => STimestampMillis | _ => s end
  else if is_key lt "timestamp-micros" then match s with SLong => STimestampMicros | _ => s end
  else if is_key lt "timestamp-nanos" then match s with SLong => STimestampNanos | _ => s end
  else if is_key lt "local-timestamp-millis" then match s with SLong => SLocalTimestampMillis | _ => s end
  else if is_key lt "local-timestamp-micros" then match s with SLong => SLocalTimestampMicros | _ => s end
  else if is_key lt "local-timestamp-nanos" then match s with SLong => SLocalTimestampNanos | _ => s end
  else if is_key lt "duration" then
    match s with SFixed f => if fx_size f =? 12 then SDuration f else s | _ => s end
  else s.
Definition known_logical (lt : str) : bool :=
  existsb (bytes_eqb lt)
    [K "decimal"; K "big-decimal"; K "uuid"; K "date"; K "time-millis"; K "time-micros"; K "timestamp-millis";
     K "timestamp-micros"; K "timestamp-nanos"; K "local-timestamp-millis"; K "local-timestamp-micros";
     K "local-timestamp-nanos"; K "duration"].

(* parse_fixed (no recursion) *)
Definition parse_fixed (st : pstate) (m : list (str * json)) (ens : option str) : res (schema * pstate) :=
  match lookup (K "size") m, already_seen st m ens with
  | None, Some seen => Ok (seen, st)
  | None, None => Err
  | Some sz, _ =>
    match sz with
    | JInt z =>
      if (0 <=? z)%Z && (z <? 2 ^ 64)%Z then
        do n <- name_parse m ens;
        do al <- fix_aliases (j_aliases_of m) (ns n);
        let s := SFixed (mkFixed n al (jstring (K "doc") m) (Z.to_N z) (custom_attrs m [K "size"])) in
        Ok (s, register_parsed st n s al)
      else Err
    | _ => Err
    end
  end.

(* parse_enum (no recursion) *)
Fixpoint nodup_strs' (l : list str) : bool :=
  match l with [] => true | k :: r => negb (existsb (bytes_eqb k) r) && nodup_strs' r end.
Definition parse_enum (st : pstate) (m : list (str * json)) (ens : option str) : res (schema * pstate) :=
  match lookup (K "symbols") m, already_seen st m ens with
  | None, Some seen => Ok (seen, st)
  | None, None =>
    (* Name::parse and the aliases are looked at before the missing symbols are reported *)
    do n <- name_parse m ens; do al <- fix_aliases (j_aliases_of m) (ns n); Err
  | Some sy, _ =>
    do n <- name_parse m ens;
    do al <- fix_aliases (j_aliases_of m) (ns n);
    match sy with
    | JArr l =>
      match all_strings l with
      | Some symbols =>
        if forallb is_ident symbols && nodup_strs' symbols then
          match lookup (K "default") m with
          | Some (JStr d) =>
            if existsb (bytes_eqb d) symbols then
              let s := SEnum n al (jstring (K "doc") m) symbols (Some d) (custom_attrs m [K "symbols"; K "default"]) in
              Ok (s, register_parsed st n s al)
            else Err
          | Some _ => Err
          | None =>
            let s := SEnum n al (jstring (K "doc") m) symbols None (custom_attrs m [K "symbols"; K "default"]) in
            Ok (s, register_parsed st n s al)
          end
        else Err
      | None => Err
      end
    | _ => Err
    end
  end.

(* RecordField::resolve_default_value *)
Definition default_cfg : cfg := mkCfg 536870912 56 80.
Definition default_ok (fuel : nat) (parsed : names) (s : schema) (d : option json) : res unit :=
  match d with
  | None => Ok tt
  | Some j =>
    do v <- json_to_value fuel j;
    match s with
    | SUnion [] => Err
    | SUnion bs =>
      (fix any (l : list schema) : res unit :=
         match l with
         | [] => Err
         | b :: r =>
           match resolve fuel default_cfg parsed (schema_ns b) b v with
           | Ok _ => Ok tt
           | Err => any r
           | Panic => Panic | OutOfFuel => OutOfFuel
           end
         end) bs
    | _ =>
      match resolve fuel default_cfg parsed (schema_ns s) s v with
      | Ok _ => Ok tt
      | Err => Err
      | Panic => Panic | OutOfFuel => OutOfFuel
      end
    end
  end.

Fixpoint only_strings (l : list json) : list str :=
  match l with [] => [] | JStr s :: r => s :: only_strings r | _ :: r => only_strings r end.

(* the fields of parse_record: non-objects are skipped; RecordField::parse on the others *)
Fixpoint parse_fields (rec : pstate -> json -> option str -> res (schema * pstate)) (fuel : nat)
         (st : pstate) (l : list json) (rns : option str) : res (list (fmeta * schema) * pstate) :=
  match l with
  | [] => Ok ([], st)
  | JObj m :: r =>
    match jstring (K "name") m with
    | None => Err
    | Some fname =>
      if is_ident fname then
        match lookup (K "type") m with
        | None => Err
        | Some ty =>
          do (fsch, st1) <- rec st ty rns;
          let d := lookup (K "default") m in
          do _ <- default_ok fuel (p_parsed st1) fsch d;
          let al := match lookup (K "aliases") m with Some (JArr a) => only_strings a | _ => [] end in
          do (more, st2) <- parse_fields rec fuel st1 r rns;
          Ok ((mkFmeta fname (jstring (K "doc") m) al d (field_attrs m), fsch) :: more, st2)
        end
      else Err
    end
  | _ :: r => parse_fields rec fuel st r rns
  end.

(* duplicate field names: each name is checked against the names and aliases seen so far *)
Fixpoint fields_dup (fs : list (fmeta * schema)) (seen : list str) : bool :=
  match fs with
  | [] => false
  | (m, _) :: r =>
    if existsb (bytes_eqb (f_name m)) seen then true
    else fields_dup r (f_aliases m ++ f_name m :: seen)
  end.

Fixpoint parse_branches (rec : pstate -> json -> option str -> res (schema * pstate))
         (st : pstate) (l : list json) (ens : option str) : res (list schema * pstate) :=
  match l with
  | [] => Ok ([], st)
  | j :: r =>
    do (b, st1) <- rec st j ens;
    do (bs, st2) <- parse_branches rec st1 r ens;
    Ok (b :: bs, st2)
  end.

Definition get_schema_ref (s : schema) : schema :=
  match s with
  | SRecord n _ _ _ _ | SEnum n _ _ _ _ _ => SRef n
  | SFixed f => SRef (fx_name f)
  | _ => s
  end.

(* get_schema_type_name *)
Definition schema_type_name (n : name) (v : json) : res name :=
  match v with
  | JObj m => match lookup (K "type") m with
              | Some (JObj ct) => match jstring (K "name") ct with
                                  | Some tn => name_new tn None
                                  | None => Ok n end
              | _ => Ok n end
  | _ => Ok n
  end.

Fixpoint inputs_remove (k : name) (l : list (name * json)) : list (name * json) :=
  match l with
  | [] => []
  | (k', v) :: r => if name_eqb k k' then inputs_remove k r else (k', v) :: inputs_remove k r
  end.
Fixpoint inputs_get (k : name) (l : list (name * json)) : option json :=
  match l with
  | [] => None
  | (k', v) :: r => if name_eqb k k' then Some v else inputs_get k r
  end.

Definition prec := pstate -> json -> option str -> res (schema * pstate).

(* parse_known_schema / fetch_schema_ref *)
Definition parse_known_with (rec : prec) (st : pstate) (t : str) (ens : option str) : res (schema * pstate) :=
  if is_key t "null" then Ok (SNull, st) else if is_key t "boolean" then Ok (SBoolean, st)
  else if is_key t "int" then Ok (SInt, st) else if is_key t "long" then Ok (SLong, st)
  else if is_key t "double" then Ok (SDouble, st) else if is_key t "float" then Ok (SFloat, st)
  else if is_key t "bytes" then Ok (SBytes, st) else if is_key t "string" then Ok (SString, st)
  else
    do n <- name_new t ens;
    match names_get n (p_parsed st) with
    | Some _ => Ok (SRef n, st)
    | None =>
      match names_get n (p_resolving st) with
      | Some s => Ok (s, st)
      | None =>
        if is_key (nm n) "record" || is_key (nm n) "enum" || is_key (nm n) "fixed" then Err
        else
          match inputs_get n (p_inputs st) with
          | None => Err
          | Some v =>
            let st0 := mkP (inputs_remove n (p_inputs st)) (p_resolving st) (p_parsed st) in
            do (parsed, st1) <- rec st0 v None;
            do key <- schema_type_name n v;
            Ok (get_schema_ref parsed, mkP (p_inputs st1) (p_resolving st1) (names_insert key parsed (p_parsed st1)))
          end
      end
    end.

(* parse_record *)
Definition parse_record_with (rec : prec) (fuel : nat) (st : pstate) (m : list (str * json)) (ens : option str)
  : res (schema * pstate) :=
  match lookup (K "fields") m, already_seen st m ens with
  | None, Some seen => Ok (seen, st)
  | fo, _ =>
    do n <- name_parse m ens;
    do al <- fix_aliases (j_aliases_of m) (ns n);
    let st1 := register_resolving st n al in
    match fo with
    | Some (JArr fl) =>
      do (fs, st2) <- parse_fields rec fuel st1 fl (ns n);
      if fields_dup fs [] then Err
      else
        let s := SRecord n al (jstring (K "doc") m) fs (custom_attrs m [K "fields"]) in
        Ok (s, register_parsed st2 n s al)
    | _ => Err
    end
  end.

(* the last match of parse_complex: by the "type" key *)
Definition native_with (rec : prec) (fuel : nat) (st : pstate) (m : list (str * json)) (ens : option str)
  : res (schema * pstate) :=
  match lookup (K "type") m with
  | Some (JStr t) =>
    if is_key t "record" then parse_record_with rec fuel st m ens
    else if is_key t "enum" then parse_enum st m ens
    else if is_key t "array" then
      match lookup (K "items") m with
      | Some it => do (s, st1) <- rec st it ens; Ok (SArray s (custom_attrs m [K "items"]), st1)
      | None => Err end
    else if is_key t "map" then
      match lookup (K "values") m with
      | Some vt => do (s, st1) <- rec st vt ens; Ok (SMap s (custom_attrs m [K "values"]), st1)
      | None => Err end
    else if is_key t "fixed" then parse_fixed st m ens
    else parse_known_with rec st t ens
  | Some (JObj _ as inner) => rec st inner ens
  | Some (JArr _ as inner) => rec st inner ens
  | Some _ => Err
  | None => Err
  end.

(* parse_complex *)
Definition parse_obj_with (rec : prec) (fuel : nat) (st : pstate) (m : list (str * json)) (ens : option str)
  : res (schema * pstate) :=
  match lookup (K "logicalType") m with
  | Some (JStr lt) =>
    if known_logical lt then
      (* parse_as_native_complex: a "type": "fixed" goes to parse_fixed, anything else to parse *)
      do (s, st1) <- match lookup (K "type") m with
                     | Some (JStr t) => if is_key t "fixed" then parse_fixed st m ens else rec st (JStr t) ens
                     | Some v => rec st v ens
                     | None => Err end;
      Ok (convert_logical lt m s, st1)
    else native_with rec fuel st m ens
  | Some _ => Err
  | None => native_with rec fuel st m ens
  end.

(* parse_union *)
Definition parse_union_with (rec : prec) (st : pstate) (l : list json) (ens : option str) : res (schema * pstate) :=
  do (bs, st1) <- parse_branches rec st l ens;
  if union_check bs [] [] then Ok (SUnion bs, st1) else Err.

Fixpoint parse (fuel : nat) (st : pstate) (j : json) (ens : option str) {struct fuel} : res (schema * pstate) :=
  match fuel with
  | O => OutOfFuel
  | S f =>
    match j with
    | JStr t => parse_known_with (parse f) st t ens
    | JArr l => parse_union_with (parse f) st l ens
    | JObj m => parse_obj_with (parse f) f st m ens
    | _ => Err
    end
  end.

Definition empty_state : pstate := mkP [] [] [].
(* Schema::parse_str on the parsed JSON value *)
Definition parse_schema (fuel : nat) (j : json) : res schema :=
  do (s, _) <- parse fuel empty_state j None; Ok s.

(* ---- Schema::parse_list (schema/mod.rs:555-580, parser.rs:70-102) ----
   The pending inputs live in a HashMap drained with keys().next(): the processing order is the map's
   iteration order, which the model takes as a parameter (hash_order, a list of names; at each step the
   first of them still pending). *)
Fixpoint collect_inputs (l : list json) (acc : list (name * json)) (order : list name)
  : res (list (name * json) * list name) :=
  match l with
  | [] => Ok (acc, rev order)
  | JObj m :: r =>
    do n <- name_parse m None;
    match inputs_get n acc with
    | Some _ => Err                                   (* NameCollision *)
    | None => collect_inputs r ((n, JObj m) :: acc) (n :: order)
    end
  | _ :: _ => Err
  end.

Fixpoint first_pending (hash_order : list name) (inputs : list (name * json)) : option (name * json) :=
  match hash_order with
  | [] => match inputs with [] => None | x :: _ => Some x end
  | n :: r => match inputs_get n inputs with Some v => Some (n, v) | None => first_pending r inputs end
  end.

Fixpoint drain (steps fuel : nat) (hash_order : list name) (st : pstate) : res pstate :=
  match steps with
  | O => match p_inputs st with [] => Ok st | _ => OutOfFuel end
  | S k =>
    match first_pending hash_order (p_inputs st) with
    | None => Ok st
    | Some (n, v) =>
      let st0 := mkP (inputs_remove n (p_inputs st)) (p_resolving st) (p_parsed st) in
      do (s, st1) <- parse fuel st0 v None;
      do key <- schema_type_name n v;
      drain k fuel hash_order (mkP (p_inputs st1) (p_resolving st1) (names_insert key s (p_parsed st1)))
    end
  end.

(* the results in input order; an input registered under another name (its "type" is an object with a
   name of its own) is not found: an error since fix F51 *)
Fixpoint take_parsed (order : list name) (parsed : names) : res (list schema) :=
  match order with
  | [] => Ok []
  | n :: r => match names_get n parsed with
              | Some s => do more <- take_parsed r (names_remove n parsed); Ok (s :: more)
              | None => Err end
  end.

Definition parse_list (fuel : nat) (hash_order : list N) (l : list json) : res (list schema) :=
  do (inputs, order) <- collect_inputs l [] [];
  let horder := fold_right (fun i acc => match nth_error order (N.to_nat i) with Some n => n :: acc | None => acc end) [] hash_order in
  do st <- drain (S (List.length l)) fuel horder (mkP inputs [] []);
  take_parsed order (p_parsed st).
