(* avro/src/rabin.rs:24-101 on u64 bit patterns; avro/src/headers.rs:41-56. *)
From AvroV Require Import Base Varint.
Open Scope N_scope.

Definition EMPTY : N := 0xC15D213AA4D7A795.     (* -4513414715797952619 as u64 *)

(* one step of the table construction:  (fp >> 1) ^ (EMPTY & -(fp & 1)) *)
Definition st (fp : N) : N :=
  N.lxor (N.shiftr fp 1) (if N.testbit fp 0 then EMPTY else 0).

Fixpoint iter_st (n : nat) (fp : N) : N :=
  match n with O => fp | S n' => iter_st n' (st fp) end.

(* fp_table()[i], built by 8 steps from i *)
Definition fp_table (i : N) : N := iter_st 8 i.

(* Update::update, one byte:  (result >> 8) ^ fp_table[(result ^ b) & 0xff] *)
Definition rabin_step (r b : N) : N :=
  N.lxor (N.shiftr r 8) (fp_table (N.land (N.lxor r b) 255)).

Definition rabin (bs : bytes) : N := fold_left rabin_step bs EMPTY.

(* FixedOutput: result.to_le_bytes() *)
Definition rabin_digest (bs : bytes) : bytes := le_bytes 8 (rabin bs).

(* RabinFingerprintHeader::build_header over the canonical form's UTF-8 bytes *)
Definition so_header (pcf_utf8 : bytes) : bytes := [0xC3; 0x01] ++ rabin_digest pcf_utf8.
