(* IEEE-754 conversions used by schema resolution (types.rs:1046-1070), on bit patterns:
   i32/i64 -> f32/f64 (round to nearest even), f32 -> f64 (exact, Bytes.f32_to_f64), f64 -> f32.
   Validated against the hardware by the correspondence check; no theorem relies on IEEE facts. *)
From AvroV Require Import Base Bytes.
Open Scope N_scope.

(* bits of |m * 2^e| rounded to nearest even into a format with p significand bits (hidden bit
   included) and w exponent bits; m > 0 *)
Definition ieee_mag (p w : N) (m : N) (e : Z) : N :=
  let bias := (2 ^ (Z.of_N w - 1) - 1)%Z in
  let emin := (1 - bias)%Z in
  let nb := Z.of_N (N.log2 m + 1) in
  let E := (e + nb - 1)%Z in
  let qe := Z.max (E - (Z.of_N p - 1)) (emin - (Z.of_N p - 1)) in
  let shift := (qe - e)%Z in
  let q := if (shift <=? 0)%Z then m * 2 ^ (Z.to_N (- shift))
           else
             let d := 2 ^ (Z.to_N shift) in
             let q0 := m / d in
             let rem := m mod d in
             let half := d / 2 in
             if (half <? rem) || ((rem =? half) && N.odd q0) then q0 + 1 else q0 in
  let bits := Z.to_N ((qe + (Z.of_N p - 1) + bias - 1) * 2 ^ (Z.of_N p - 1))%Z + q in
  let inf := (2 ^ w - 1) * 2 ^ (p - 1) in
  if inf <=? bits then inf else bits.

Definition ieee_of_Z (p w : N) (z : Z) : N :=
  if (z =? 0)%Z then 0
  else (if (z <? 0)%Z then 2 ^ (p - 1 + w) else 0) + ieee_mag p w (Z.abs_N z) 0.

Definition f32_of_Z (z : Z) : N := ieee_of_Z 24 8 z.      (* n as f32 *)
Definition f64_of_Z (z : Z) : N := ieee_of_Z 53 11 z.     (* n as f64 / f64::from(i32) *)

(* x as f32 for an f64 *)
Definition f64_to_f32 (x : N) : N :=
  let sign := (x / 2 ^ 63) * 2 ^ 31 in
  let ef := (x / 2 ^ 52) mod 2048 in
  let mf := x mod 2 ^ 52 in
  if ef =? 2047 then
    if mf =? 0 then sign + 255 * 2 ^ 23
    else sign + 255 * 2 ^ 23 + N.lor (mf / 2 ^ 29) (2 ^ 22)
  else if (ef =? 0) && (mf =? 0) then sign
  else if ef =? 0 then sign + ieee_mag 24 8 mf (-1074)
  else sign + ieee_mag 24 8 (2 ^ 52 + mf) (Z.of_N ef - 1075).

Definition f32_nan : N := 0x7fc00000.
Definition f32_inf : N := 0x7f800000.
Definition f32_neg_inf : N := 0xff800000.

(* number of decimal digits of n (n > 0) *)
Fixpoint ndigits (fuel : nat) (n : N) : N :=
  match fuel with O => 0 | S f => if n <? 10 then 1 else 1 + ndigits f (n / 10) end.

(* max_prec_for_len, types.rs:44-47: floor(log10(2^(8 len - 1) - 1)) computed in f64 *)
Definition max_prec_for_len (len : N) : N :=
  if len =? 0 then 0
  else if 129 <=? len then 2 ^ 64 - 1
  else ndigits 400 (2 ^ (8 * len - 1)) - 1.
