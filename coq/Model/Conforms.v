(* Canonical conformance: the value has exactly the shape the decoder produces for the schema
   (DESIGN.md 6/C01).  Written independently of encode/decode; it follows the decoder's
   namespace discipline (decode.rs:325,356-361). *)
From AvroV Require Import Base Varint Schema Bytes Codec.
Open Scope N_scope.

Fixpoint nodup_keys {A} (l : list (bytes * A)) : bool :=
  match l with
  | [] => true
  | (k, _) :: r => match lookup k r with Some _ => false | None => nodup_keys r end
  end.

Fixpoint nodup_strs (l : list bytes) : bool :=
  match l with
  | [] => true
  | k :: r => negb (existsb (bytes_eqb k) r) && nodup_strs r
  end.

(* a declared byte length the decoder accepts (safe_len) and an i64 can carry *)
Definition len_ok (c : cfg) (n : N) : bool := (n <=? max_alloc c) && (n <? 2 ^ 63).
(* an item count the decoder accepts in one block *)
Definition count_ok (c : cfg) (esize n : N) : bool := len_ok c n && safe_coll c esize n.

Definition bytes_ok (c : cfg) (b : bytes) : bool := all_bytes b && len_ok c (lenN b).
Definition str_ok (c : cfg) (b : bytes) : bool := bytes_ok c b && utf8_ok b.

(* record fields: same names, same order, each value conforming *)
Fixpoint conf_fields (cf : schema -> value -> bool) (fs : list (fmeta * schema))
         (l : list (str * value)) : bool :=
  match fs, l with
  | [], [] => true
  | (m, s) :: fs', (k, v) :: l' => bytes_eqb (f_name m) k && cf s v && conf_fields cf fs' l'
  | _, _ => false
  end.

Fixpoint conforms (fuel : nat) (c : cfg) (nmz : names) (ens : option str) (s : schema) (v : value)
  {struct fuel} : bool :=
  match fuel with
  | O => false
  | S f =>
  match s, v with
  | SRef n, _ =>
    match names_get (fqn n ens) nmz with
    | Some s' => conforms f c nmz (ns (fqn n ens)) s' v
    | None => false
    end
  | SNull, VNull => true
  | SBoolean, VBoolean _ => true
  | SInt, VInt z | SDate, VDate z | STimeMillis, VTimeMillis z => in_i32 z
  | SLong, VLong z | STimeMicros, VTimeMicros z
  | STimestampMillis, VTimestampMillis z | STimestampMicros, VTimestampMicros z
  | STimestampNanos, VTimestampNanos z
  | SLocalTimestampMillis, VLocalTimestampMillis z
  | SLocalTimestampMicros, VLocalTimestampMicros z
  | SLocalTimestampNanos, VLocalTimestampNanos z => in_i64 z
  | SFloat, VFloat x => x <? 2 ^ 32
  | SDouble, VDouble x => x <? 2 ^ 64
  | SBytes, VBytes b => bytes_ok c b
  | SString, VString t => str_ok c t
  | SFixed fx, VFixed n b => (n =? fx_size fx) && (lenN b =? fx_size fx) && all_bytes b
  | SEnum _ _ _ symbols _ _, VEnum i sym =>
    (i <? 2 ^ 31) && match nth_N symbols i with Some y => bytes_eqb sym y | None => false end
  | SUnion bs, VUnion i x =>
    (i <? 2 ^ 32) && match nth_N bs i with Some b => conforms f c nmz ens b x | None => false end
  | SArray it _, VArray l =>
    count_ok c (vsize c) (lenN l) && forallb (conforms f c nmz ens it) l
  | SMap vt _, VMap l =>
    count_ok c (kvsize c) (lenN l) && nodup_keys l
    && forallb (fun kv => str_ok c (fst kv) && conforms f c nmz ens vt (snd kv)) l
  | SRecord n _ _ fs _, VRecord l =>
    nodup_strs (map (fun ms => f_name (fst ms)) fs)
    && conf_fields (conforms f c nmz (ns (fqn n ens))) fs l
  | SDecimal _ _ (DFixed fx), VDecimal b => (lenN b =? fx_size fx) && all_bytes b && negb (lenN b =? 0)
  | SDecimal _ _ DBytes, VDecimal b => bytes_ok c b && negb (lenN b =? 0)
  | SBigDecimal, VBigDecimal u sc =>
    all_bytes u && bytes_eqb (minimal u) u && in_i64 sc
    && len_ok c (lenN u) && len_ok c (lenN (enc_bytes u ++ enc_long sc))
  | SUuid UString, VUuid b => (lenN b =? 16) && all_bytes b && len_ok c 36
  | SUuid UBytes, VUuid b => (lenN b =? 16) && all_bytes b && len_ok c 16
  | SUuid (UFixed fx), VUuid b => (lenN b =? 16) && all_bytes b && (fx_size fx =? 16)
  | SDuration fx, VDuration m d ms =>
    (fx_size fx =? 12) && (m <? 2 ^ 32) && (d <? 2 ^ 32) && (ms <? 2 ^ 32)
  | _, _ => false
  end end.

(* The names table maps every key to a named schema, and a record stored under key k carries k's
   namespace: encoder (encode.rs:75-84, 300) and decoder (decode.rs:325, 356-361) then traverse
   with the same namespaces.  False exactly for a record with an explicitly empty namespace nested
   inside a namespaced type (the F19 family), see DESIGN.md section 7. *)
Definition named_ok (k : name) (s : schema) : bool :=
  match s with
  | SRecord n _ _ _ _ => opt_eqb bytes_eqb (ns n) (ns k)
  | SEnum _ _ _ _ _ _ | SFixed _ | SDecimal _ _ (DFixed _) | SUuid (UFixed _) | SDuration _ => true
  | _ => false
  end.
Definition names_okb (nmz : names) : bool := forallb (fun ks => named_ok (fst ks) (snd ks)) nmz.

(* Structural sanity of a schema that the parser guarantees and decoding relies on: distinct field
   names in every record, union branch indices that fit the u32 of Value::Union, fixed-backed
   decimals of at least one byte. *)
Fixpoint schema_wfb (s : schema) : bool :=
  match s with
  | SArray it _ => schema_wfb it
  | SMap vt _ => schema_wfb vt
  | SUnion bs => (lenN bs <=? 2 ^ 32) && forallb schema_wfb bs
  | SRecord _ _ _ fs _ =>
    nodup_strs (map (fun ms : fmeta * schema => f_name (fst ms)) fs)
    && forallb (fun ms : fmeta * schema => schema_wfb (snd ms)) fs
  | SDecimal _ _ (DFixed fx) => 1 <=? fx_size fx
  | _ => true
  end.
Definition names_wfb (nmz : names) : bool := forallb (fun ks => schema_wfb (snd ks)) nmz.

(* The leaves at which a successfully decoded value may fail to be canonical (known finding F36 and
   its relatives): a bytes-backed decimal of zero bytes (decodes, cannot be re-encoded), and a
   big-decimal whose re-encoding (minimal unscaled bytes) no longer fits the allocation limit. *)
Fixpoint leaf_ok (c : cfg) (v : value) : bool :=
  match v with
  | VDecimal b => negb (lenN b =? 0)
  | VBigDecimal u sc => len_ok c (lenN u) && len_ok c (lenN (enc_bytes u ++ enc_long sc))
  | VUnion _ x => leaf_ok c x
  | VArray l => forallb (leaf_ok c) l
  | VMap l | VRecord l => forallb (fun kv => leaf_ok c (snd kv)) l
  | _ => true
  end.
