(* Binary datum encoder and decoder: avro/src/encode.rs:65-366, avro/src/decode.rs:37-369,
   avro/src/bigdecimal.rs:29-68, written arm for arm.  Recursion is on fuel (one unit per nesting
   level or reference hop). *)
From AvroV Require Import Base Varint Schema Bytes.
Open Scope N_scope.

(* process-wide allocation limit and the two element sizes safe_collection_len multiplies by *)
Record cfg := mkCfg { max_alloc : N; vsize : N; kvsize : N }.
Definition usize_max : N := 2 ^ 64 - 1.

(* ---------------- encoder ---------------- *)

(* encode_bytes, encode.rs:46-55 *)
Definition enc_bytes (b : bytes) : bytes := enc_long (Z.of_N (lenN b)) ++ b.

(* [i as i32] for a u32 *)
Definition wrap_i32 (i : N) : Z :=
  if i <? 2 ^ 31 then Z.of_N i else (Z.of_N i - 2 ^ 32)%Z.

Definition is_null (s : schema) : bool := match s with SNull => true | _ => false end.

(* serialize_big_decimal, bigdecimal.rs:29-49 *)
Definition enc_bigdec (unscaled : bytes) (scale : Z) : bytes :=
  enc_bytes (enc_bytes unscaled ++ enc_long scale).

Fixpoint enc_list {A} (e : A -> res bytes) (l : list A) : res bytes :=
  match l with
  | [] => Ok []
  | x :: xs => do a <- e x; do b <- enc_list e xs; Ok (a ++ b)
  end.

(* HashMap built by inserting the value's fields in order: the last duplicate wins *)
Fixpoint lookup_last {A} (k : bytes) (l : list (bytes * A)) : option A :=
  match l with
  | [] => None
  | (k', v) :: r =>
    match lookup_last k r with
    | Some x => Some x
    | None => if bytes_eqb k k' then Some v else None
    end
  end.

Fixpoint find_alias {A} (als : list bytes) (l : list (bytes * A)) : option A :=
  match als with
  | [] => None
  | a :: r => match lookup_last a l with Some x => Some x | None => find_alias r l end
  end.

(* the record arm's loop over schema fields, encode.rs:304-327 *)
Fixpoint enc_fields (e : schema -> value -> res bytes) (fs : list (fmeta * schema))
         (l : list (str * value)) : res bytes :=
  match fs with
  | [] => Ok []
  | (m, s) :: fs' =>
    match (match lookup_last (f_name m) l with
           | Some v => Some v
           | None => find_alias (f_aliases m) l end) with
    | Some v => do a <- e s v; do b <- enc_fields e fs' l; Ok (a ++ b)
    | None => Err
    end
  end.

(* trial encoding of a record against the branches of a union, encode.rs:329-355 *)
Fixpoint enc_trial (e : schema -> res bytes) (i : N) (bs : list schema) : res bytes :=
  match bs with
  | [] => Err
  | b :: r =>
    match e b with
    | Ok a => Ok (enc_long (Z.of_N i) ++ a)
    | Err => enc_trial e (i + 1) r
    | Panic => Panic
    | OutOfFuel => OutOfFuel
    end
  end.

Fixpoint encode (fuel : nat) (nmz : names) (ens : option str) (s : schema) (v : value)
  {struct fuel} : res bytes :=
  match fuel with
  | O => OutOfFuel
  | S f =>
  match s with
  | SRef n =>
    match names_get (fqn n ens) nmz with
    | None => Err
    | Some s' => encode f nmz ens s' v
    end
  | _ =>
  match v with
  | VNull =>
    match s with
    | SUnion bs =>
      match position is_null bs with
      | None => Err
      | Some p => Ok (enc_long (Z.of_nat p))
      end
    | _ => Ok []
    end
  | VBoolean b => Ok [if b then 1 else 0]
  | VInt z | VDate z | VTimeMillis z => Ok (enc_long z)
  | VLong z | VTimestampMillis z | VTimestampMicros z | VTimestampNanos z
  | VLocalTimestampMillis z | VLocalTimestampMicros z | VLocalTimestampNanos z
  | VTimeMicros z => Ok (enc_long z)
  | VFloat x =>
    match s with
    | SDouble => Ok (le_bytes 8 (f32_to_f64 x))      (* widened, encode.rs Value::Float arm *)
    | _ => Ok (le_bytes 4 x)
    end
  | VDouble x => Ok (le_bytes 8 x)
  | VDecimal d =>
    match s with
    | SDecimal _ _ (DFixed fx) =>
      match sign_extend (fx_size fx) d with
      | Some b => Ok b
      | None => Err
      end
    | SDecimal _ _ DBytes =>
      match dec_to_vec d with
      | Some b => Ok (enc_bytes b)
      | None => Err
      end
    | _ => Err
    end
  | VDuration m d ms => Ok (le_bytes 4 m ++ le_bytes 4 d ++ le_bytes 4 ms)
  | VUuid u =>
    match s with
    | SUuid UString | SString => Ok (enc_bytes (uuid_text u))
    | SUuid UBytes | SBytes => Ok (enc_bytes u)
    | SUuid (UFixed fx) | SFixed fx => if fx_size fx =? 16 then Ok u else Err
    | _ => Err
    end
  | VBigDecimal u sc => Ok (enc_bigdec u sc)
  | VBytes b =>
    match s with
    | SBytes | SUuid UBytes => Ok (enc_bytes b)
    | SFixed _ => Ok b
    | _ => Err
    end
  | VString t =>
    match s with
    | SString | SUuid UString => Ok (enc_bytes t)
    | SEnum _ _ _ symbols _ _ =>
      match position (bytes_eqb t) symbols with
      | Some i => Ok (enc_long (wrap_i32 (N.of_nat i)))
      | None => Err
      end
    | _ => Err
    end
  | VFixed _ b => Ok b
  | VEnum i _ => Ok (enc_long (wrap_i32 i))
  | VUnion i x =>
    match s with
    | SUnion bs =>
      match nth_N bs i with
      | None => Panic                        (* .expect("Invalid Union validation occurred") *)
      | Some b => do a <- encode f nmz ens b x; Ok (enc_long (Z.of_N i) ++ a)
      end
    | _ => Err
    end
  | VArray l =>
    match s with
    | SArray it _ =>
      match l with
      | [] => Ok [0]
      | _ => do b <- enc_list (encode f nmz ens it) l;
             Ok (enc_long (Z.of_N (lenN l)) ++ b ++ [0])
      end
    | _ => Err
    end
  | VMap l =>
    match s with
    | SMap vt _ =>
      match l with
      | [] => Ok [0]
      | _ => do b <- enc_list (fun kv => do a <- encode f nmz ens vt (snd kv);
                                         Ok (enc_bytes (fst kv) ++ a)) l;
             Ok (enc_long (Z.of_N (lenN l)) ++ b ++ [0])
      end
    | _ => Err
    end
  | VRecord l =>
    match s with
    | SRecord n _ _ fs _ => enc_fields (encode f nmz (ns_or n ens)) fs l
    | SUnion bs => enc_trial (fun b => encode f nmz ens b v) 0 bs
    | _ => Err
    end
  end end end.

(* ---------------- decoder ---------------- *)

(* safe_len, util.rs:166-178 *)
Definition safe_len (c : cfg) (len : N) : bool := len <=? max_alloc c.

(* decode_len, decode.rs:47-50: zag_i64, usize::try_from, safe_len *)
Definition dec_len (c : cfg) (bs : bytes) : res (N * bytes) :=
  match dec_long bs with
  | LOk z r => if (z <? 0)%Z then Err else
               if safe_len c (Z.to_N z) then Ok (Z.to_N z, r) else Err
  | _ => Err
  end.

(* decode_seq_len, decode.rs:56-70 *)
Definition dec_seq_len (c : cfg) (bs : bytes) : res (N * bytes) :=
  match dec_long bs with
  | LOk z r =>
    if (z =? 0)%Z then Ok (0, r)
    else if (z <? 0)%Z then
      match dec_long r with
      | LOk _ r' =>
        if (z =? - 2 ^ 63)%Z then Err                   (* checked_neg *)
        else if safe_len c (Z.to_N (- z)) then Ok (Z.to_N (- z), r') else Err
      | _ => Err
      end
    else if safe_len c (Z.to_N z) then Ok (Z.to_N z, r) else Err
  | _ => Err
  end.

(* safe_collection_len::<T>, util.rs:180-199 *)
Definition safe_coll (c : cfg) (esize total : N) : bool :=
  (total * esize <=? usize_max) && (total * esize <=? max_alloc c).

Definition dec_bytes (c : cfg) (bs : bytes) : res (bytes * bytes) :=
  do (n, r) <- dec_len c bs;
  of_option (take n r).

(* deserialize_big_decimal, bigdecimal.rs:51-68 (input is the already extracted byte string) *)
Definition dec_bigdec (c : cfg) (bs : bytes) : res value :=
  do (u, r) <- dec_bytes c bs;
  match dec_long r with
  | LOk sc _ => Ok (VBigDecimal (minimal u) sc)
  | _ => Err
  end.

Fixpoint dec_items {A} (d : bytes -> res (A * bytes)) (n : nat) (bs : bytes)
  : res (list A * bytes) :=
  match n with
  | O => Ok ([], bs)
  | S n' => do (x, r) <- d bs; do (xs, r') <- dec_items d n' r; Ok (x :: xs, r')
  end.

(* the same loop with the count in binary: equal to dec_items (Proofs/CodecP.dec_count_spec) but it
   never builds a unary number, so a hostile count costs nothing before the first item fails *)
Fixpoint dec_pos {A} (d : bytes -> res (A * bytes)) (p : positive) (bs : bytes)
  : res (list A * bytes) :=
  match p with
  | xH => do (x, r) <- d bs; Ok ([x], r)
  | xO q => do (xs, r) <- dec_pos d q bs; do (ys, r') <- dec_pos d q r; Ok (xs ++ ys, r')
  | xI q => do (x, r0) <- d bs; do (xs, r) <- dec_pos d q r0; do (ys, r') <- dec_pos d q r;
            Ok (x :: xs ++ ys, r')
  end.
Definition dec_count {A} (d : bytes -> res (A * bytes)) (n : N) (bs : bytes) : res (list A * bytes) :=
  match n with N0 => Ok ([], bs) | Npos p => dec_pos d p bs end.

(* the block loop of the array and map arms, decode.rs:232-292.  [g] is fuel for the number of
   blocks (every block header consumes at least one byte); [have] = items.len() so far. *)
Fixpoint dec_blocks {A} (c : cfg) (esize : N) (d : bytes -> res (A * bytes)) (g : nat)
         (have : N) (bs : bytes) : res (list A * bytes) :=
  match g with
  | O => OutOfFuel
  | S g' =>
    do (n, r) <- dec_seq_len c bs;
    if n =? 0 then Ok ([], r)
    else if safe_coll c esize (have + n) then
      do (xs, r') <- dec_count d n r;
      do (ys, r'') <- dec_blocks c esize d g' (have + n) r';
      Ok (xs ++ ys, r'')
    else Err
  end.

(* HashMap::insert on the wire-order list: replace in place, else append *)
Fixpoint map_insert {A} (k : bytes) (v : A) (l : list (bytes * A)) : list (bytes * A) :=
  match l with
  | [] => [(k, v)]
  | (k', v') :: r => if bytes_eqb k k' then (k, v) :: r else (k', v') :: map_insert k v r
  end.
Definition map_of_list {A} (l : list (bytes * A)) : list (bytes * A) :=
  fold_left (fun acc kv => map_insert (fst kv) (snd kv) acc) l [].

Fixpoint dec_fields (d : schema -> bytes -> res (value * bytes)) (fs : list (fmeta * schema))
         (bs : bytes) : res (list (str * value) * bytes) :=
  match fs with
  | [] => Ok ([], bs)
  | (m, s) :: fs' =>
    do (x, r) <- d s bs; do (xs, r') <- dec_fields d fs' r; Ok ((f_name m, x) :: xs, r')
  end.

Definition dec_string (c : cfg) (bs : bytes) : res (bytes * bytes) :=
  do (b, r) <- dec_bytes c bs;
  if utf8_ok b then Ok (b, r) else Err.

Definition dec_fixed (size : N) (bs : bytes) : res (bytes * bytes) := of_option (take size bs).

Definition lift_long (f : Z -> value) (l : lres) : res (value * bytes) :=
  match l with LOk z r => Ok (f z, r) | _ => Err end.

Fixpoint decode (fuel : nat) (c : cfg) (nmz : names) (ens : option str) (s : schema)
         (bs : bytes) {struct fuel} : res (value * bytes) :=
  match fuel with
  | O => OutOfFuel
  | S f =>
  match s with
  | SNull => Ok (VNull, bs)
  | SBoolean =>
    match bs with
    | [] => Err
    | b :: r => if b =? 0 then Ok (VBoolean false, r)
                else if b =? 1 then Ok (VBoolean true, r) else Err
    end
  | SDecimal _ _ (DFixed fx) => do (b, r) <- dec_fixed (fx_size fx) bs; Ok (VDecimal b, r)
  | SDecimal _ _ DBytes => do (b, r) <- dec_bytes c bs; Ok (VDecimal b, r)
  | SBigDecimal => do (b, r) <- dec_bytes c bs; do v <- dec_bigdec c b; Ok (v, r)
  | SUuid UString =>
    do (t, r) <- dec_string c bs;
    match uuid_parse t with Some u => Ok (VUuid u, r) | None => Err end
  | SUuid UBytes =>
    do (b, r) <- dec_bytes c bs;
    if lenN b =? 16 then Ok (VUuid b, r) else Err
  | SUuid (UFixed fx) =>
    do (b, r) <- dec_fixed (fx_size fx) bs;
    if fx_size fx =? 16 then Ok (VUuid b, r) else Err
  | SInt => lift_long VInt (dec_int bs)
  | SDate => lift_long VDate (dec_int bs)
  | STimeMillis => lift_long VTimeMillis (dec_int bs)
  | SLong => lift_long VLong (dec_long bs)
  | STimeMicros => lift_long VTimeMicros (dec_long bs)
  | STimestampMillis => lift_long VTimestampMillis (dec_long bs)
  | STimestampMicros => lift_long VTimestampMicros (dec_long bs)
  | STimestampNanos => lift_long VTimestampNanos (dec_long bs)
  | SLocalTimestampMillis => lift_long VLocalTimestampMillis (dec_long bs)
  | SLocalTimestampMicros => lift_long VLocalTimestampMicros (dec_long bs)
  | SLocalTimestampNanos => lift_long VLocalTimestampNanos (dec_long bs)
  | SDuration fx =>
    if fx_size fx =? 12 then
      match take 4 bs with
      | Some (m, r1) =>
        match take 4 r1 with
        | Some (d, r2) =>
          match take 4 r2 with
          | Some (ms, r3) => Ok (VDuration (of_le m) (of_le d) (of_le ms), r3)
          | None => Err end
        | None => Err end
      | None => Err end
    else Err
  | SFloat => match take 4 bs with Some (b, r) => Ok (VFloat (of_le b), r) | None => Err end
  | SDouble => match take 8 bs with Some (b, r) => Ok (VDouble (of_le b), r) | None => Err end
  | SBytes => do (b, r) <- dec_bytes c bs; Ok (VBytes b, r)
  | SString => do (b, r) <- dec_string c bs; Ok (VString b, r)
  | SFixed fx => do (b, r) <- dec_fixed (fx_size fx) bs; Ok (VFixed (fx_size fx) b, r)
  | SArray it _ =>
    do (l, r) <- dec_blocks c (vsize c) (decode f c nmz ens it) (S (length bs)) 0 bs;
    Ok (VArray l, r)
  | SMap vt _ =>
    do (l, r) <- dec_blocks c (kvsize c)
                   (fun b => do (k, r1) <- dec_string c b;
                             do (x, r2) <- decode f c nmz ens vt r1; Ok ((k, x), r2))
                   (S (length bs)) 0 bs;
    Ok (VMap (map_of_list l), r)
  | SUnion brs =>
    match dec_long bs with
    | LOk i r =>
      if (i <? 0)%Z then Err else
      match nth_N brs (Z.to_N i) with
      | None => Err
      | Some b => do (x, r') <- decode f c nmz ens b r; Ok (VUnion (Z.to_N i mod 2 ^ 32) x, r')
      end
    | _ => Err
    end
  | SRecord n _ _ fs _ =>
    do (l, r) <- dec_fields (decode f c nmz (ns (fqn n ens))) fs bs; Ok (VRecord l, r)
  | SEnum _ _ _ symbols _ _ =>
    match dec_int bs with
    | LOk z r =>
      if (z <? 0)%Z then Err else
      match nth_N symbols (Z.to_N z) with
      | Some sym => Ok (VEnum (Z.to_N z) sym, r)
      | None => Err
      end
    | _ => Err
    end
  | SRef n =>
    match names_get (fqn n ens) nmz with
    | Some s' => decode f c nmz (ns (fqn n ens)) s' bs
    | None => Err
    end
  end end.
