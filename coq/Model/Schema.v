(* Data types of the model: JSON trees, names, schemas (avro/src/schema/mod.rs:89-164), values
   (avro/src/types.rs:55-129). *)
From AvroV Require Import Base.

(* serde_json::Value without preserve_order: objects are BTreeMaps (sorted, unique keys); numbers
   are PosInt(u64) | NegInt(i64) | Float(f64) - integers as Z, floats as f64 bit patterns. *)
Inductive json :=
| JNull | JBool (b : bool) | JInt (z : Z) | JFloat (bits : N) | JStr (s : str)
| JArr (l : list json) | JObj (l : list (str * json)).

(* schema/name.rs:44-50.  [ns = None] iff index_of_name = 0. *)
Record name := mkName { ns : option str; nm : str }.

Definition name_eqb (a b : name) : bool :=
  opt_eqb bytes_eqb (ns a) (ns b) && bytes_eqb (nm a) (nm b).

(* Name::fully_qualified_name, name.rs:155-168 *)
Definition fqn (n : name) (enclosing : option str) : name :=
  match ns n, enclosing with
  | None, Some e => match e with [] => n | _ => mkName (Some e) (nm n) end
  | _, _ => n
  end.

(* name.namespace().or(enclosing) *)
Definition ns_or (n : name) (enclosing : option str) : option str :=
  match ns n with Some x => Some x | None => enclosing end.

Definition attrs := list (str * json).

Record fixedS := mkFixed
  { fx_name : name; fx_aliases : option (list name); fx_doc : option str;
    fx_size : N; fx_attrs : attrs }.

Inductive dec_inner := DBytes | DFixed (f : fixedS).
Inductive uuid_inner := UString | UBytes | UFixed (f : fixedS).

(* RecordField without its schema, record/field.rs:33-46 *)
Record fmeta := mkFmeta
  { f_name : str; f_doc : option str; f_aliases : list str; f_default : option json;
    f_attrs : attrs }.

Inductive schema :=
| SNull | SBoolean | SInt | SLong | SFloat | SDouble | SBytes | SString
| SArray (items : schema) (a : attrs)
| SMap (vals : schema) (a : attrs)
| SUnion (branches : list schema)
| SRecord (n : name) (al : option (list name)) (doc : option str)
          (fields : list (fmeta * schema)) (a : attrs)
| SEnum (n : name) (al : option (list name)) (doc : option str)
        (symbols : list str) (default : option str) (a : attrs)
| SFixed (f : fixedS)
| SDecimal (precision scale : N) (inner : dec_inner)
| SBigDecimal
| SUuid (u : uuid_inner)
| SDate | STimeMillis | STimeMicros
| STimestampMillis | STimestampMicros | STimestampNanos
| SLocalTimestampMillis | SLocalTimestampMicros | SLocalTimestampNanos
| SDuration (f : fixedS)
| SRef (n : name).

(* HashMap<Name, &Schema> (ResolvedSchema::get_names): association list, first match *)
Definition names := list (name * schema).
Fixpoint names_get (k : name) (t : names) : option schema :=
  match t with
  | [] => None
  | (k', s) :: r => if name_eqb k k' then Some s else names_get k r
  end.

(* types.rs:55-129.  Floats are bit patterns; ints/longs are Z (range is a separate predicate, the
   Rust type enforces it).  A Decimal is its len-byte two's-complement representation: the only
   constructor is Decimal::from(bytes) = (from_signed_bytes_be bytes, bytes.len()), and a (value,
   len) pair determines those bytes.  A BigDecimal is (minimal two's-complement bytes of the
   unscaled BigInt, scale : i64).  Map and Record carry their entries in iteration order. *)
Inductive value :=
| VNull | VBoolean (b : bool) | VInt (z : Z) | VLong (z : Z)
| VFloat (bits : N) | VDouble (bits : N)
| VBytes (b : bytes) | VString (s : str)
| VFixed (n : N) (b : bytes)
| VEnum (i : N) (sym : str)
| VUnion (i : N) (v : value)
| VArray (l : list value)
| VMap (l : list (str * value))
| VRecord (l : list (str * value))
| VDate (z : Z) | VDecimal (b : bytes) | VBigDecimal (unscaled : bytes) (scale : Z)
| VTimeMillis (z : Z) | VTimeMicros (z : Z)
| VTimestampMillis (z : Z) | VTimestampMicros (z : Z) | VTimestampNanos (z : Z)
| VLocalTimestampMillis (z : Z) | VLocalTimestampMicros (z : Z) | VLocalTimestampNanos (z : Z)
| VDuration (months days millis : N)
| VUuid (b : bytes).
