(* Value::validate_internal: avro/src/types.rs:446-686, arm for arm, in the order of the Rust match.
   The result is Ok true for None (valid), Ok false for Some(reason).  The bare-value-in-union arm
   calls UnionSchema::find_schema_with_known_schemata, passed in as [find] (Model/FindSchema.v
   instantiates it); theorems that do not reach that arm hold for every [find]. *)
From AvroV Require Import Base Varint Schema Bytes Codec.
Open Scope N_scope.

Definition find_fn := names -> option str -> list schema -> value -> res bool.

Fixpoint all_res {A} (p : A -> res bool) (l : list A) : res bool :=
  match l with
  | [] => Ok true
  | x :: r => do a <- p x; do b <- all_res p r; Ok (a && b)
  end.

(* RecordField::is_nullable, record/field.rs:199-204 *)
Definition field_nullable (s : schema) : bool :=
  match s with SUnion bs => existsb is_null bs | _ => false end.

Fixpoint field_index (k : bytes) (fs : list (fmeta * schema)) : option schema :=
  match fs with
  | [] => None
  | (m, s) :: r => if bytes_eqb k (f_name m) then Some s else field_index k r
  end.

Fixpoint validate (fuel : nat) (find : find_fn) (nmz : names) (ens : option str) (s : schema)
         (v : value) {struct fuel} : res bool :=
  match fuel with
  | O => OutOfFuel
  | S f =>
  match s with
  | SRef n =>
    match names_get (fqn n ens) nmz with
    | None => Ok false
    | Some s' => validate f find nmz (ns (fqn n ens)) s' v
    end
  | _ =>
  match v, s with
  | VNull, SNull => Ok true
  | VBoolean _, SBoolean => Ok true
  | VInt _, SInt | VInt _, SDate | VInt _, STimeMillis | VInt _, SLong => Ok true
  | VLong _, SLong | VLong _, STimeMicros | VLong _, STimestampMillis | VLong _, STimestampMicros
  | VLong _, SLocalTimestampMillis | VLong _, SLocalTimestampMicros => Ok true
  | VTimestampMicros _, STimestampMicros | VTimestampMillis _, STimestampMillis
  | VTimestampNanos _, STimestampNanos | VLocalTimestampMicros _, SLocalTimestampMicros
  | VLocalTimestampMillis _, SLocalTimestampMillis | VLocalTimestampNanos _, SLocalTimestampNanos
  | VTimeMicros _, STimeMicros | VTimeMillis _, STimeMillis | VDate _, SDate => Ok true
  | VDecimal _, SDecimal _ _ _ => Ok true
  | VBigDecimal _ _, SBigDecimal => Ok true
  | VDuration _ _ _, SDuration _ => Ok true
  | VUuid _, SUuid _ => Ok true
  | VFloat _, SFloat | VFloat _, SDouble | VDouble _, SDouble => Ok true
  | VBytes _, SBytes => Ok true
  | VBytes _, SDecimal _ _ _ => Ok true
  | VBytes b, SUuid UBytes => Ok (lenN b =? 16)
  | VString _, SString => Ok true
  | VString t, SUuid UString => Ok (negb (lenN t <? 32))
  | VFixed n _, SFixed fx => Ok (n =? fx_size fx)
  | VBytes b, SFixed fx => Ok (lenN b =? fx_size fx)
  | VFixed n _, SDuration _ => Ok (n =? 12)
  | VFixed n _, SUuid (UFixed fx) => Ok ((fx_size fx =? 16) && (n =? 16))
  | VFixed _ _, SDecimal _ _ _ => Ok true
  | VString t, SEnum _ _ _ symbols _ _ => Ok (existsb (bytes_eqb t) symbols)
  | VEnum i sym, SEnum _ _ _ symbols default _ =>
    match nth_N symbols i with
    | Some y => Ok (bytes_eqb y sym)
    | None => Ok (match default with Some _ => true | None => false end)
    end
  | VUnion i x, SUnion bs =>
    match nth_N bs i with
    | Some b => validate f find nmz ens b x
    | None => Ok false
    end
  | _, SUnion bs => find nmz ens bs v
  | VArray l, SArray it _ => all_res (validate f find nmz ens it) l
  | VMap l, SMap vt _ => all_res (fun kv => validate f find nmz ens vt (snd kv)) l
  | VRecord l, SRecord n _ _ fs _ =>
    let required := length (filter (fun ms => negb (field_nullable (snd ms))) fs) in
    if (length l <? required)%nat then Ok false
    else if (length fs <? length l)%nat then Ok false
    else all_res (fun kv => match field_index (fst kv) fs with
                            | Some fsch => validate f find nmz (ns_or n ens) fsch (snd kv)
                            | None => Ok false
                            end) l
  | VMap l, SRecord _ _ _ fs _ =>
    all_res (fun ms => match lookup (f_name (fst ms)) l with
                       | Some x => validate f find nmz ens (snd ms) x
                       | None => Ok (field_nullable (snd ms))
                       end) fs
  | _, _ => Ok false
  end end end.

(* GenericDatumWriter::write_value_ref, writer/datum.rs:125-134 *)
Definition write_value (fuel : nat) (find : find_fn) (do_validate : bool) (nmz : names)
           (s : schema) (v : value) : res bytes :=
  if do_validate then
    do ok <- validate fuel find nmz None s v;
    if ok then encode fuel nmz None s v else Err
  else encode fuel nmz None s v.
