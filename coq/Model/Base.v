(* Base definitions shared by every model file: bytes, the three-way result monad.
   No proofs here (Model/ holds executable definitions only). *)
From Coq Require Export List ZArith NArith Bool Lia.
Export ListNotations.

Notation byte := N (only parsing).
Notation bytes := (list N) (only parsing).
Notation str := (list N) (only parsing).   (* UTF-8 bytes of a Rust String *)

(* Outcome of a model function.  [OutOfFuel] is never the image of an implementation outcome;
   every theorem excludes it by a fuel bound. *)
(* [Panic] marks a Rust panic site (expect/unwrap/index); the harness maps a caught unwind to it. *)
Inductive res (A : Type) := Ok (a : A) | Err | Panic | OutOfFuel.
Arguments Ok {A}. Arguments Err {A}. Arguments Panic {A}. Arguments OutOfFuel {A}.

Definition bind {A B} (r : res A) (k : A -> res B) : res B :=
  match r with Ok a => k a | Err => Err | Panic => Panic | OutOfFuel => OutOfFuel end.
Notation "'do' x <- r ; k" := (bind r (fun x => k))
  (at level 200, x pattern, r at level 100, k at level 200).

Definition of_option {A} (o : option A) : res A :=
  match o with Some a => Ok a | None => Err end.

Definition is_ok {A} (r : res A) : bool := match r with Ok _ => true | _ => false end.

Fixpoint list_eqb {A} (e : A -> A -> bool) (a b : list A) : bool :=
  match a, b with
  | [], [] => true
  | x :: a', y :: b' => e x y && list_eqb e a' b'
  | _, _ => false
  end.
Definition bytes_eqb (a b : bytes) : bool := list_eqb N.eqb a b.

Definition opt_eqb {A} (e : A -> A -> bool) (a b : option A) : bool :=
  match a, b with
  | None, None => true
  | Some x, Some y => e x y
  | _, _ => false
  end.

Fixpoint all_bytes (bs : bytes) : bool :=
  match bs with [] => true | b :: r => (b <? 256)%N && all_bytes r end.

(* index of the first element satisfying p (Iterator::position) *)
Fixpoint position {A} (p : A -> bool) (l : list A) : option nat :=
  match l with
  | [] => None
  | x :: r => if p x then Some O else option_map S (position p r)
  end.

(* slice::get with a binary index: structural on the list *)
Fixpoint nth_N {A} (l : list A) (i : N) : option A :=
  match l with
  | [] => None
  | x :: r => if (i =? 0)%N then Some x else nth_N r (i - 1)
  end.

Fixpoint lookup {A} (k : bytes) (l : list (bytes * A)) : option A :=
  match l with
  | [] => None
  | (k', v) :: r => if bytes_eqb k k' then Some v else lookup k r
  end.

Fixpoint repeat_n {A} (x : A) (n : nat) : list A :=
  match n with O => [] | S n' => x :: repeat_n x n' end.

(* split off the first n elements; None when fewer are available (read_exact on a slice).
   Structural on the byte list, the count is a binary number: a declared length of 2^40 costs
   nothing when the input is short. *)
Fixpoint take (n : N) (bs : bytes) : option (bytes * bytes) :=
  match bs with
  | [] => if (n =? 0)%N then Some ([], []) else None
  | b :: r => if (n =? 0)%N then Some ([], bs) else
              match take (n - 1) r with
              | Some (a, r') => Some (b :: a, r')
              | None => None
              end
  end.

Definition lenN {A} (l : list A) : N := N.of_nat (length l).
