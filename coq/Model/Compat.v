(* SchemaCompatibility::can_read / mutual_read: avro/src/schema_compatibility.rs:76-443.
   The pointer-keyed memo only replays the result the same pair of nodes produced before, and the
   check is a deterministic function of the pair, so it is omitted (DESIGN.md 6/C09). *)
From AvroV Require Import Base Varint Schema Bytes SingleObject.
Open Scope N_scope.

Inductive compat := CFull | CPartial.
Definition cand (a b : compat) : compat := match a, b with CFull, CFull => CFull | _, _ => CPartial end.

Definition int_like (s : schema) : bool := match s with SInt | SDate | STimeMillis => true | _ => false end.
Definition long_like (s : schema) : bool :=
  match s with
  | SLong | STimeMicros | STimestampMillis | STimestampMicros | STimestampNanos
  | SLocalTimestampMillis | SLocalTimestampMicros | SLocalTimestampNanos => true
  | _ => false end.
Definition bytes_like (s : schema) : bool :=
  match s with
  | SBytes | SString | SBigDecimal | SUuid UString | SUuid UBytes | SDecimal _ _ DBytes => true
  | _ => false end.
Definition fixed_of (s : schema) : option fixedS :=
  match s with
  | SFixed fx | SUuid (UFixed fx) | SDecimal _ _ (DFixed fx) | SDuration fx => Some fx
  | _ => None end.

(* the writer field a reader field is matched with: by the reader's name, then by its aliases, in
   that order; the first writer field carrying that name *)
Fixpoint wfield_named (n : str) (wfs : list (fmeta * schema)) : option schema :=
  match wfs with
  | [] => None
  | (m, s) :: r => if bytes_eqb (f_name m) n then Some s else wfield_named n r
  end.
Fixpoint wfield_for (names_ : list str) (wfs : list (fmeta * schema)) : option schema :=
  match names_ with
  | [] => None
  | n :: r => match wfield_named n wfs with Some s => Some s | None => wfield_for r wfs end
  end.

Fixpoint can_read (fuel : nat) (W R : schema) {struct fuel} : res compat :=
  match fuel with
  | O => OutOfFuel
  | S f =>
    let name_clash :=
      match schema_name W, schema_name R with
      | Some wn, Some rn => negb (bytes_eqb (nm wn) (nm rn))
      | _, _ => false
      end in
    if name_clash then Err else
    match W, R with
    | SRef wn, SRef rn => if name_eqb rn wn then Ok CFull else Err
    | SUnion wbs, SUnion rbs =>
      (* per writer branch: is there a fully compatible reader branch / any compatible one *)
      let per (wb : schema) : res (bool * bool) :=
        (fix scan (l : list schema) (full part : bool) : res (bool * bool) :=
           match l with
           | [] => Ok (full, part)
           | rb :: r =>
             match can_read f wb rb with
             | Ok CFull => scan r true part
             | Ok CPartial => scan r full true
             | Err => scan r full part
             | Panic => Panic | OutOfFuel => OutOfFuel
             end
           end) rbs false false in
      (fix go (l : list schema) (all any : bool) : res compat :=
         match l with
         | [] => if all then Ok CFull else if any then Ok CPartial else Err
         | wb :: r => do fp <- per wb; go r (all && fst fp) (any || fst fp || snd fp)
         end) wbs true false
    | SUnion wbs, _ =>
      (fix go (l : list schema) (all any : bool) : res compat :=
         match l with
         | [] => if all then Ok CFull else if any then Ok CPartial else Err
         | wb :: r =>
           match can_read f wb R with
           | Ok CFull => go r all true
           | Ok CPartial => go r false true
           | Err => go r false any
           | Panic => Panic | OutOfFuel => OutOfFuel
           end
         end) wbs true false
    | _, SUnion rbs =>
      (fix scan (l : list schema) (full part : bool) : res compat :=
         match l with
         | [] => if full then Ok CFull else if part then Ok CPartial else Err
         | rb :: r =>
           match can_read f W rb with
           | Ok CFull => scan r true part
           | Ok CPartial => scan r full true
           | Err => scan r full part
           | Panic => Panic | OutOfFuel => OutOfFuel
           end
         end) rbs false false
    | SNull, SNull | SBoolean, SBoolean => Ok CFull
    | SFloat, SFloat | SFloat, SDouble | SDouble, SDouble => Ok CFull
    | SDecimal wp ws _, SDecimal rp rs _ => if (rp =? wp) && (rs =? ws) then Ok CFull else Err
    | SArray wi _, SArray ri _ => can_read f wi ri
    | SMap wv _, SMap rv _ => can_read f wv rv
    | SEnum _ _ _ wsyms _ _, SEnum _ _ _ rsyms rdef _ =>
      match rdef with
      | Some _ => Ok CFull
      | None =>
        let hits := map (fun s => existsb (bytes_eqb s) rsyms) wsyms in
        if forallb (fun b => b) hits then Ok CFull
        else if existsb (fun b => b) hits then Ok CPartial else Err
      end
    | SRecord _ _ _ wfs _, SRecord _ _ _ rfs _ =>
      (fix go (l : list (fmeta * schema)) (acc : compat) : res compat :=
         match l with
         | [] => Ok acc
         | (m, rs) :: r =>
           match wfield_for (f_name m :: f_aliases m) wfs with
           | Some ws => match can_read f ws rs with
                        | Ok c => go r (cand acc c)
                        | Err => Err
                        | Panic => Panic | OutOfFuel => OutOfFuel
                        end
           | None => match f_default m with Some _ => go r acc | None => Err end
           end
         end) rfs CFull
    | _, _ =>
      if int_like W && (int_like R || long_like R || match R with SFloat | SDouble => true | _ => false end) then Ok CFull
      else if long_like W && (long_like R || match R with SFloat | SDouble => true | _ => false end) then Ok CFull
      else if bytes_like W && bytes_like R then Ok CFull
      else match W, R with
           | SUuid _, SUuid _ => Ok CFull
           | _, _ =>
             match fixed_of W, fixed_of R with
             | Some wf, Some rf => if fx_size rf =? fx_size wf then Ok CFull else Err
             | _, _ => Err
             end
           end
    end
  end.

Definition mutual_read (fuel : nat) (A B : schema) : res compat :=
  do c1 <- can_read fuel A B; do c2 <- can_read fuel B A; Ok (cand c1 c2).
