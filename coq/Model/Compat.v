(* SchemaCompatibility::can_read / mutual_read: avro/src/schema_compatibility.rs:76-443.
   The pointer-keyed memo only replays the result the same pair of nodes produced before, and the
   check is a deterministic function of the pair, so it is omitted (DESIGN.md 6/C09). *)
From AvroV Require Import Base Varint Schema Bytes SingleObject.
Open Scope N_scope.

Inductive compat := CFull | CPartial.
Definition cand (a b : compat) : compat := match a, b with CFull, CFull => CFull | _, _ => CPartial end.

Definition int_like (s : schema) : bool := match s with SInt | SDate | STimeMillis => true | _ => false end.
Definition long_like (s : schema) : bool :=
  match s with
  | SLong | STimeMicros | STimestampMillis | STimestampMicros | STimestampNanos
  | SLocalTimestampMillis | SLocalTimestampMicros | SLocalTimestampNanos => true
  | _ => false end.
Definition bytes_like (s : schema) : bool :=
  match s with
  | SBytes | SString | SBigDecimal | SUuid UString | SUuid UBytes | SDecimal _ _ DBytes => true
  | _ => false end.
Definition fixed_of (s : schema) : option fixedS :=
  match s with
  | SFixed fx | SUuid (UFixed fx) | SDecimal _ _ (DFixed fx) | SDuration fx => Some fx
  | _ => None end.

(* the writer field a reader field is matched with: by the reader's name, then by its aliases, in
   that order; the first writer field carrying that name *)
Fixpoint wfield_named (n : str) (wfs : list (fmeta * schema)) : option schema :=
  match wfs with
  | [] => None
  | (m, s) :: r => if bytes_eqb (f_name m) n then Some s else wfield_named n r
  end.
Fixpoint wfield_for (names_ : list str) (wfs : list (fmeta * schema)) : option schema :=
  match names_ with
  | [] => None
  | n :: r => match wfield_named n wfs with Some s => Some s | None => wfield_for r wfs end
  end.

(* the loops of the union and record arms, parameterised by the recursive call *)
(* one writer branch against every reader branch: is there a fully / a partially compatible one *)
Fixpoint scan_readers (cr : schema -> res compat) (l : list schema) (full part : bool) : res (bool * bool) :=
  match l with
  | [] => Ok (full, part)
  | rb :: r =>
    match cr rb with
    | Ok CFull => scan_readers cr r true part
    | Ok CPartial => scan_readers cr r full true
    | Err => scan_readers cr r full part
    | Panic => Panic | OutOfFuel => OutOfFuel
    end
  end.

Definition verdict (all any : bool) : res compat :=
  if all then Ok CFull else if any then Ok CPartial else Err.

(* union writer, union reader *)
Fixpoint union_union (per : schema -> res (bool * bool)) (l : list schema) (all any : bool) : res compat :=
  match l with
  | [] => verdict all any
  | wb :: r => do fp <- per wb; union_union per r (all && fst fp) (any || fst fp || snd fp)
  end.

(* union writer, non-union reader *)
Fixpoint union_writer (cr : schema -> res compat) (l : list schema) (all any : bool) : res compat :=
  match l with
  | [] => verdict all any
  | wb :: r =>
    match cr wb with
    | Ok CFull => union_writer cr r all true
    | Ok CPartial => union_writer cr r false true
    | Err => union_writer cr r false any
    | Panic => Panic | OutOfFuel => OutOfFuel
    end
  end.

(* non-union writer, union reader *)
Fixpoint union_reader (cr : schema -> res compat) (l : list schema) (full part : bool) : res compat :=
  match l with
  | [] => verdict full part
  | rb :: r =>
    match cr rb with
    | Ok CFull => union_reader cr r true part
    | Ok CPartial => union_reader cr r full true
    | Err => union_reader cr r full part
    | Panic => Panic | OutOfFuel => OutOfFuel
    end
  end.

(* every reader field: the writer field of that name (or alias) must be readable; a reader-only field
   needs a default *)
Fixpoint record_fields (cr : schema -> schema -> res compat) (wfs : list (fmeta * schema))
         (l : list (fmeta * schema)) (acc : compat) : res compat :=
  match l with
  | [] => Ok acc
  | (m, rs) :: r =>
    match wfield_for (f_name m :: f_aliases m) wfs with
    | Some ws => match cr ws rs with
                 | Ok c => record_fields cr wfs r (cand acc c)
                 | Err => Err
                 | Panic => Panic | OutOfFuel => OutOfFuel
                 end
    | None => match f_default m with Some _ => record_fields cr wfs r acc | None => Err end
    end
  end.

Definition leaf_compat (W R : schema) : res compat :=
  if int_like W && (int_like R || long_like R || match R with SFloat | SDouble => true | _ => false end) then Ok CFull
  else if long_like W && (long_like R || match R with SFloat | SDouble => true | _ => false end) then Ok CFull
  else if bytes_like W && bytes_like R then Ok CFull
  else match W, R with
       | SUuid _, SUuid _ => Ok CFull
       | _, _ =>
         match fixed_of W, fixed_of R with
         | Some wf, Some rf => if fx_size rf =? fx_size wf then Ok CFull else Err
         | _, _ => Err
         end
       end.

Definition name_clash (W R : schema) : bool :=
  match schema_name W, schema_name R with
  | Some wn, Some rn => negb (bytes_eqb (nm wn) (nm rn))
  | _, _ => false
  end.

Fixpoint can_read (fuel : nat) (W R : schema) {struct fuel} : res compat :=
  match fuel with
  | O => OutOfFuel
  | S f =>
    if name_clash W R then Err else
    match W, R with
    | SRef wn, SRef rn => if name_eqb rn wn then Ok CFull else Err
    | SUnion wbs, SUnion rbs =>
      union_union (fun wb => scan_readers (can_read f wb) rbs false false) wbs true false
    | SUnion wbs, _ => union_writer (fun wb => can_read f wb R) wbs true false
    | _, SUnion rbs => union_reader (can_read f W) rbs false false
    | SNull, SNull | SBoolean, SBoolean => Ok CFull
    | SFloat, SFloat | SFloat, SDouble | SDouble, SDouble => Ok CFull
    | SDecimal wp ws _, SDecimal rp rs _ => if (rp =? wp) && (rs =? ws) then Ok CFull else Err
    | SArray wi _, SArray ri _ => can_read f wi ri
    | SMap wv _, SMap rv _ => can_read f wv rv
    | SEnum _ _ _ wsyms _ _, SEnum _ _ _ rsyms rdef _ =>
      match rdef with
      | Some _ => Ok CFull
      | None =>
        let hits := map (fun s => existsb (bytes_eqb s) rsyms) wsyms in
        if forallb (fun b => b) hits then Ok CFull
        else if existsb (fun b => b) hits then Ok CPartial else Err
      end
    | SRecord _ _ _ wfs _, SRecord _ _ _ rfs _ => record_fields (can_read f) wfs rfs CFull
    | _, _ => leaf_compat W R
    end
  end.

Definition mutual_read (fuel : nat) (A B : schema) : res compat :=
  do c1 <- can_read fuel A B; do c2 <- can_read fuel B A; Ok (cand c1 c2).
