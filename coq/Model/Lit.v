(* ASCII literals as byte strings *)
From Coq Require Import String Ascii NArith List.
Import ListNotations.
Definition lit (s : string) : list N := List.map (fun a => N.of_nat (nat_of_ascii a)) (list_ascii_of_string s).
