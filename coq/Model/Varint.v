(* Variable-length zig-zag integers: avro/src/util.rs:83-160. *)
From AvroV Require Import Base.
Open Scope N_scope.

(* encode_variable, util.rs:112-134: 7 bits per byte, least significant group first; a u64 needs
   at most 10 bytes, fuel 10 is exact. *)
Fixpoint enc_var (fuel : nat) (z : N) : bytes :=
  match fuel with
  | O => []
  | S f => if z <=? 127 then [z mod 128] else (128 + z mod 128) :: enc_var f (z / 128)
  end.

(* decode_variable, util.rs:138-160: reads at most 10 bytes (j = 0..9), accumulates with
   [|= (b & 0x7f) << (7 j)] in a u64, i.e. modulo 2^64 (bits shifted past bit 63 are dropped). *)
Inductive vres := VOk (n : N) (rest : bytes) | VEof | VOverflow.

Fixpoint dec_var (fuel : nat) (j acc : N) (bs : bytes) : vres :=
  match fuel with
  | O => VOverflow
  | S f =>
    if 9 <? j then VOverflow else
    match bs with
    | [] => VEof
    | b :: rest =>
      let acc' := (acc + (b mod 128) * 2 ^ (7 * j)) mod 2 ^ 64 in
      if b / 128 =? 0 then VOk acc' rest else dec_var f (j + 1) acc' rest
    end
  end.

(* zig_i64, util.rs:91-94:  ((n << 1) ^ (n >> 63)) as u64  on an i64 *)
Definition zig (z : Z) : N :=
  if (0 <=? z)%Z then Z.to_N (2 * z) else Z.to_N (- 2 * z - 1).

(* zag_i64, util.rs:101-108 *)
Definition zag (n : N) : Z :=
  if N.even n then Z.of_N (n / 2) else (- Z.of_N (n / 2) - 1)%Z.

Definition in_i64 (z : Z) : bool := ((- 2 ^ 63 <=? z) && (z <? 2 ^ 63))%Z.
Definition in_i32 (z : Z) : bool := ((- 2 ^ 31 <=? z) && (z <? 2 ^ 31))%Z.

Definition enc_long (z : Z) : bytes := enc_var 10 (zig z).

Inductive lres := LOk (z : Z) (rest : bytes) | LEof | LErr.

Definition dec_long (bs : bytes) : lres :=
  match dec_var 11 0 0 bs with
  | VOk n r => LOk (zag n) r
  | VEof => LEof
  | VOverflow => LErr
  end.

(* zag_i32, util.rs:96-99: i32::try_from *)
Definition dec_int (bs : bytes) : lres :=
  match dec_long bs with
  | LOk z r => if in_i32 z then LOk z r else LErr
  | o => o
  end.

(* little-endian fixed-width integers (f32/f64 bit patterns, duration fields) *)
Fixpoint le_bytes (n : nat) (x : N) : bytes :=
  match n with O => [] | S n' => (x mod 256) :: le_bytes n' (x / 256) end.
Fixpoint of_le (bs : bytes) : N :=
  match bs with [] => 0 | b :: r => b + 256 * of_le r end.
