(* Schema resolution of a value: Value::resolve_internal and the resolve_* functions
   (avro/src/types.rs:712-1320), UnionSchema::find_schema_with_known_schemata
   (avro/src/schema/union.rs:232-352), JSON -> Value (types.rs:274-308). *)
From AvroV Require Import Base Varint Schema Bytes Names Floats Codec Validate SingleObject.
Open Scope N_scope.

(* ---- SchemaKind ---- *)
Inductive kind :=
| KNull | KBoolean | KInt | KLong | KFloat | KDouble | KBytes | KString | KArray | KMap | KUnion
| KRecord | KEnum | KFixed | KDecimal | KBigDecimal | KUuid | KDate | KTimeMillis | KTimeMicros
| KTimestampMillis | KTimestampMicros | KTimestampNanos | KLocalTimestampMillis
| KLocalTimestampMicros | KLocalTimestampNanos | KDuration | KRef.

Definition kind_eqb (a b : kind) : bool :=
  match a, b with
  | KNull, KNull | KBoolean, KBoolean | KInt, KInt | KLong, KLong | KFloat, KFloat | KDouble, KDouble
  | KBytes, KBytes | KString, KString | KArray, KArray | KMap, KMap | KUnion, KUnion | KRecord, KRecord
  | KEnum, KEnum | KFixed, KFixed | KDecimal, KDecimal | KBigDecimal, KBigDecimal | KUuid, KUuid
  | KDate, KDate | KTimeMillis, KTimeMillis | KTimeMicros, KTimeMicros
  | KTimestampMillis, KTimestampMillis | KTimestampMicros, KTimestampMicros
  | KTimestampNanos, KTimestampNanos | KLocalTimestampMillis, KLocalTimestampMillis
  | KLocalTimestampMicros, KLocalTimestampMicros | KLocalTimestampNanos, KLocalTimestampNanos
  | KDuration, KDuration | KRef, KRef => true
  | _, _ => false
  end.

Definition schema_kind (s : schema) : kind :=
  match s with
  | SNull => KNull | SBoolean => KBoolean | SInt => KInt | SLong => KLong | SFloat => KFloat
  | SDouble => KDouble | SBytes => KBytes | SString => KString | SArray _ _ => KArray | SMap _ _ => KMap
  | SUnion _ => KUnion | SRecord _ _ _ _ _ => KRecord | SEnum _ _ _ _ _ _ => KEnum | SFixed _ => KFixed
  | SDecimal _ _ _ => KDecimal | SBigDecimal => KBigDecimal | SUuid _ => KUuid | SDate => KDate
  | STimeMillis => KTimeMillis | STimeMicros => KTimeMicros | STimestampMillis => KTimestampMillis
  | STimestampMicros => KTimestampMicros | STimestampNanos => KTimestampNanos
  | SLocalTimestampMillis => KLocalTimestampMillis | SLocalTimestampMicros => KLocalTimestampMicros
  | SLocalTimestampNanos => KLocalTimestampNanos | SDuration _ => KDuration | SRef _ => KRef
  end.

(* schema_to_base_schemakind, union.rs:494-531 *)
Definition base_kind (s : schema) : kind :=
  match s with
  | SDate | STimeMillis => KInt
  | STimeMicros | STimestampMillis | STimestampMicros | STimestampNanos
  | SLocalTimestampMillis | SLocalTimestampMicros | SLocalTimestampNanos => KLong
  | SUuid UBytes => KBytes | SUuid UString => KString | SUuid (UFixed _) => KFixed
  | SDecimal _ _ DBytes => KBytes | SDecimal _ _ (DFixed _) => KFixed
  | SDuration _ => KFixed
  | _ => schema_kind s
  end.

Definition value_kind (v : value) : kind :=
  match v with
  | VNull => KNull | VBoolean _ => KBoolean | VInt _ => KInt | VLong _ => KLong | VFloat _ => KFloat
  | VDouble _ => KDouble | VBytes _ => KBytes | VString _ => KString | VFixed _ _ => KFixed
  | VEnum _ _ => KEnum | VUnion _ _ => KUnion | VArray _ => KArray | VMap _ => KMap | VRecord _ => KRecord
  | VDate _ => KDate | VDecimal _ => KDecimal | VBigDecimal _ _ => KBigDecimal
  | VTimeMillis _ => KTimeMillis | VTimeMicros _ => KTimeMicros
  | VTimestampMillis _ => KTimestampMillis | VTimestampMicros _ => KTimestampMicros
  | VTimestampNanos _ => KTimestampNanos | VLocalTimestampMillis _ => KLocalTimestampMillis
  | VLocalTimestampMicros _ => KLocalTimestampMicros | VLocalTimestampNanos _ => KLocalTimestampNanos
  | VDuration _ _ _ => KDuration | VUuid _ => KUuid
  end.

(* value_to_base_schemakind, union.rs:293-345: (unnamed, named) *)
Definition value_kinds (v : value) : option kind * option kind :=
  match value_kind v with
  | KDecimal => (Some KBytes, Some KFixed)
  | KBigDecimal => (Some KBytes, None)
  | KUuid => (Some KString, Some KFixed)
  | KDate | KTimeMillis => (Some KInt, None)
  | KTimeMicros | KTimestampMillis | KTimestampMicros | KTimestampNanos
  | KLocalTimestampMillis | KLocalTimestampMicros | KLocalTimestampNanos => (Some KLong, None)
  | KDuration => (None, Some KFixed)
  | KRecord => (None, Some KRecord) | KEnum => (None, Some KEnum) | KFixed => (None, Some KFixed)
  | KMap => (Some KMap, Some KRecord)
  | k => (Some k, None)
  end.

Definition is_named (s : schema) : bool := match schema_name s with Some _ => true | None => false end.

(* variant_index.get(kind): the unnamed branch of that base kind *)
Fixpoint variant_index (k : kind) (i : N) (bs : list schema) : option (N * schema) :=
  match bs with
  | [] => None
  | b :: r => if negb (is_named b) && kind_eqb (base_kind b) k then Some (i, b)
              else variant_index k (i + 1) r
  end.

(* [ok b] = does the value resolve against branch b; a panic inside resolution propagates *)
Definition okres := schema -> res bool.

(* first named branch of kind k (or a reference) that the value resolves against *)
Fixpoint find_named (ok : okres) (k : kind) (i : N) (bs : list schema) : res (option (N * schema)) :=
  match bs with
  | [] => Ok None
  | b :: r =>
    if is_named b && (kind_eqb (base_kind b) k || kind_eqb (base_kind b) KRef) then
      do t <- ok b; if t then Ok (Some (i, b)) else find_named ok k (i + 1) r
    else find_named ok k (i + 1) r
  end.

Fixpoint find_any (ok : okres) (i : N) (bs : list schema) : res (option (N * schema)) :=
  match bs with
  | [] => Ok None
  | b :: r => do t <- ok b; if t then Ok (Some (i, b)) else find_any ok (i + 1) r
  end.

(* find_schema_with_known_schemata *)
Definition find_schema (ok : okres) (bs : list schema) (v : value) : res (option (N * schema)) :=
  let '(uk, nk) := value_kinds v in
  do unnamed <-
    match uk with
    | None => Ok None
    | Some k =>
      match variant_index k 0 bs with
      | Some (i, b) =>
        match schema_kind b with
        | KMap | KArray => do t <- ok b; Ok (if t then Some (i, b) else None)
        | _ => Ok (Some (i, b))
        end
      | None => Ok None
      end
    end;
  do named <- match nk with None => Ok None | Some k => find_named ok k 0 bs end;
  match unnamed, named with
  | Some (ui, ub), Some (ni, nb) => Ok (if ui <? ni then Some (ui, ub) else Some (ni, nb))
  | Some u, None => Ok (Some u)
  | None, Some n => Ok (Some n)
  | None, None => find_any ok 0 bs
  end.

(* .is_ok() / .ok() on a resolution attempt: errors become "no", panics propagate *)
Definition attempt {A} (r : res A) : res bool :=
  match r with Ok _ => Ok true | Err => Ok false | Panic => Panic | OutOfFuel => OutOfFuel end.

(* ---- JSON -> Value ---- *)
Fixpoint json_to_value (fuel : nat) (j : json) : res value :=
  match fuel with O => OutOfFuel | S f =>
  match j with
  | JNull => Ok VNull
  | JBool b => Ok (VBoolean b)
  | JInt z => if in_i32 z then Ok (VInt z) else if in_i64 z then Ok (VLong z) else Err
  | JFloat x => Ok (VDouble x)
  | JStr s => Ok (VString s)
  | JArr l =>
    do vs <- (fix go (l : list json) : res (list value) :=
                match l with
                | [] => Ok []
                | x :: r => do a <- json_to_value f x; do b <- go r; Ok (a :: b)
                end) l;
    Ok (VArray vs)
  | JObj l =>
    do kvs <- (fix go (l : list (str * json)) : res (list (str * value)) :=
                 match l with
                 | [] => Ok []
                 | (k, x) :: r => do a <- json_to_value f x; do b <- go r; Ok ((k, a) :: b)
                 end) l;
    Ok (VMap kvs)
  end end.

(* String::chars(): code points of a (valid UTF-8) string, used by the String -> Decimal rule *)
Fixpoint utf8_chars (fuel : nat) (bs : bytes) : option (list N) :=
  match fuel with O => None | S f =>
  match bs with
  | [] => Some []
  | b0 :: r =>
    if b0 <? 128 then option_map (cons b0) (utf8_chars f r)
    else if b0 <? 224 then
      match r with b1 :: r' => option_map (cons ((b0 - 192) * 64 + (b1 - 128))) (utf8_chars f r') | _ => None end
    else if b0 <? 240 then
      match r with
      | b1 :: b2 :: r' => option_map (cons ((b0 - 224) * 4096 + (b1 - 128) * 64 + (b2 - 128))) (utf8_chars f r')
      | _ => None end
    else
      match r with
      | b1 :: b2 :: b3 :: r' =>
        option_map (cons ((b0 - 240) * 262144 + (b1 - 128) * 4096 + (b2 - 128) * 64 + (b3 - 128))) (utf8_chars f r')
      | _ => None end
  end end.

Definition lit_NaN : bytes := [78; 97; 78].
Definition lit_INF : bytes := [73; 78; 70].
Definition lit_Infinity : bytes := [73; 110; 102; 105; 110; 105; 116; 121].
Definition lit_mINF : bytes := [45; 73; 78; 70].
Definition lit_mInfinity : bytes := [45; 73; 110; 102; 105; 110; 105; 116; 121].

Definition parse_special_float (s : bytes) : option N :=
  if bytes_eqb s lit_NaN then Some f32_nan
  else if bytes_eqb s lit_INF || bytes_eqb s lit_Infinity then Some f32_inf
  else if bytes_eqb s lit_mINF || bytes_eqb s lit_mInfinity then Some f32_neg_inf
  else None.

Fixpoint map_res {A B} (f : A -> res B) (l : list A) : res (list B) :=
  match l with
  | [] => Ok []
  | x :: r => do a <- f x; do b <- map_res f r; Ok (a :: b)
  end.

(* HashMap::remove on the association list (keys unique) *)
Fixpoint remove_key {A} (k : bytes) (l : list (bytes * A)) : list (bytes * A) :=
  match l with
  | [] => []
  | (k', v) :: r => if bytes_eqb k k' then r else (k', v) :: remove_key k r
  end.

Definition resolve_enum (symbols : list str) (dflt : option str) (v : value) : res value :=
  let validate_symbol (sym : str) :=
    match position (bytes_eqb sym) symbols with
    | Some i => Ok (VEnum (N.of_nat i mod 2 ^ 32) sym)
    | None =>
      match dflt with
      | Some d =>
        match position (bytes_eqb d) symbols with
        | Some i => Ok (VEnum (N.of_nat i mod 2 ^ 32) d)
        | None => Err
        end
      | None => Err
      end
    end in
  match v with
  | VEnum _ s => validate_symbol s
  | VString s => validate_symbol s
  | _ => Err
  end.

Definition resolve_decimal (precision scale : N) (inner : dec_inner) (v : value) : res value :=
  if precision <? scale then Err else
  let inner_ok := match inner with
                  | DFixed fx => negb (max_prec_for_len (fx_size fx) <? precision)
                  | DBytes => true end in
  if negb inner_ok then Err else
  match v with
  | VDecimal b => Ok (VDecimal b)
  | VFixed _ b | VBytes b => if max_prec_for_len (lenN b) <? precision then Err else Ok (VDecimal b)
  | VString s =>
    match utf8_chars (S (length s)) s with
    | Some cps => if forallb (fun cp => cp <=? 255) cps then Ok (VDecimal cps) else Err
    | None => Err
    end
  | _ => Err
  end.

Definition resolve_uuid (u : uuid_inner) (v : value) : res value :=
  match v, u with
  | VUuid b, _ => Ok (VUuid b)
  | VString s, UString => match uuid_parse s with Some b => Ok (VUuid b) | None => Err end
  | VBytes b, UBytes => if lenN b =? 16 then Ok (VUuid b) else Err
  | VFixed n b, UFixed _ => if n =? 16 then (if lenN b =? 16 then Ok (VUuid b) else Err) else Err
  | VString s, UFixed _ => if lenN s =? 16 then Ok (VUuid s) else Err
  | _, _ => Err
  end.

(* deserialize_big_decimal on an in-memory byte string uses the process-wide limit *)
Definition resolve_bigdecimal (c : cfg) (v : value) : res value :=
  match v with
  | VBigDecimal u sc => Ok (VBigDecimal u sc)
  | VBytes b => dec_bigdec c b
  | _ => Err
  end.

Definition try_u8 (v : value) : res N :=
  (* self.resolve(&Schema::Int): a union value is unwrapped, Int stays, Long narrows *)
  let v := match v with VUnion _ x => x | _ => v end in
  match v with
  | VInt z => if (0 <=? z)%Z && (z <=? 255)%Z then Ok (Z.to_N z) else Err
  | VLong z => if in_i32 z then (if (0 <=? z)%Z && (z <=? 255)%Z then Ok (Z.to_N z) else Err) else Err
  | _ => Err
  end.

Definition ns_for (b : schema) (ens : option str) : option str :=
  match schema_ns b with Some n => Some n | None => ens end.

(* the record arm's loop, types.rs:1247-1311, parameterised by the recursive call *)
Fixpoint resolve_fields (r : schema -> value -> res value) (jv : json -> res value)
         (fs : list (fmeta * schema)) (items : list (str * value)) : res (list (str * value)) :=
  match fs with
  | [] => Ok []
  | (m, fsch) :: rest =>
    do x <- match lookup (f_name m) items with
            | Some x => Ok x
            | None =>
              match f_default m with
              | None => Err
              | Some j =>
                match fsch with
                | SEnum _ _ _ symbols dflt _ => do v0 <- jv j; resolve_enum symbols dflt v0
                | SUnion (SNull :: _) => Ok (VUnion 0 VNull)
                | SUnion (first :: _) => do v0 <- jv j; do y <- r first v0; Ok (VUnion 0 y)
                | SUnion [] => Panic                 (* variants()[0] on an empty union *)
                | _ => jv j
                end
              end
            end;
    do y <- r fsch x;
    do more <- resolve_fields r jv rest (remove_key (f_name m) items);
    Ok ((f_name m, y) :: more)
  end.

Fixpoint resolve (fuel : nat) (c : cfg) (nmz : names) (ens : option str) (s : schema) (v : value)
  {struct fuel} : res value :=
  match fuel with
  | O => OutOfFuel
  | S f =>
  (* a union value read with a non-union schema is unwrapped first *)
  let v := match v, s with
           | VUnion _ _, SUnion _ => v
           | VUnion _ x, _ => x
           | _, _ => v end in
  match s with
  | SRef n =>
    match names_get (fqn n ens) nmz with
    | Some s' => resolve f c nmz (ns (fqn n ens)) s' v
    | None => Err
    end
  | SNull => match v with VNull => Ok VNull | _ => Err end
  | SBoolean => match v with VBoolean b => Ok (VBoolean b) | _ => Err end
  | SInt => match v with
            | VInt z => Ok (VInt z)
            | VLong z => if in_i32 z then Ok (VInt z) else Err
            | _ => Err end
  | SLong => match v with VInt z | VLong z => Ok (VLong z) | _ => Err end
  | SFloat => match v with
              | VInt z | VLong z => Ok (VFloat (f32_of_Z z))
              | VFloat x => Ok (VFloat x)
              | VDouble x => Ok (VFloat (f64_to_f32 x))
              | VString t => match parse_special_float t with Some x => Ok (VFloat x) | None => Err end
              | _ => Err end
  | SDouble => match v with
               | VInt z | VLong z => Ok (VDouble (f64_of_Z z))
               | VFloat x => Ok (VDouble (f32_to_f64 x))
               | VDouble x => Ok (VDouble x)
               | VString t => match parse_special_float t with Some x => Ok (VDouble (f32_to_f64 x)) | None => Err end
               | _ => Err end
  | SBytes => match v with
              | VBytes b => Ok (VBytes b)
              | VString t => Ok (VBytes t)
              | VArray l => do bs <- map_res try_u8 l; Ok (VBytes bs)
              | _ => Err end
  | SString => match v with
               | VString t => Ok (VString t)
               | VBytes b | VFixed _ b => if utf8_ok b then Ok (VString b) else Err
               | _ => Err end
  | SFixed fx => match v with
                 | VFixed n b => if n =? fx_size fx then Ok (VFixed n b) else Err
                 | VString t => Ok (VFixed (lenN t) t)
                 | VBytes b => if lenN b =? fx_size fx then Ok (VFixed (fx_size fx) b) else Err
                 | _ => Err end
  | SUnion bs =>
    let x := match v with VUnion _ y => y | _ => v end in
    do found <- find_schema (fun b => attempt (resolve f c nmz (ns_for b ens) b x)) bs x;
    match found with
    | Some (i, b) => do y <- resolve f c nmz ens b x; Ok (VUnion (i mod 2 ^ 32) y)
    | None => Err
    end
  | SEnum _ _ _ symbols dflt _ => resolve_enum symbols dflt v
  | SArray it _ => match v with
                   | VArray l => do l' <- map_res (resolve f c nmz ens it) l; Ok (VArray l')
                   | _ => Err end
  | SMap vt _ => match v with
                 | VMap l => do l' <- map_res (fun kv => do y <- resolve f c nmz ens vt (snd kv); Ok (fst kv, y)) l;
                             Ok (VMap l')
                 | _ => Err end
  | SRecord n _ _ fs _ =>
    let rns := ns_or n ens in
    match (match v with
           | VMap l => Some l
           | VRecord l => Some (map_of_list l)       (* collect into a HashMap: last duplicate wins *)
           | _ => None end) with
    | None => Err
    | Some items =>
      do l <- resolve_fields (resolve f c nmz rns) (json_to_value f) fs items;
      Ok (VRecord l)
    end
  | SDecimal p sc inner => resolve_decimal p sc inner v
  | SBigDecimal => resolve_bigdecimal c v
  | SDate => match v with VDate z | VInt z => Ok (VDate z) | _ => Err end
  | STimeMillis => match v with VTimeMillis z | VInt z => Ok (VTimeMillis z) | _ => Err end
  | STimeMicros => match v with VTimeMicros z | VLong z | VInt z => Ok (VTimeMicros z) | _ => Err end
  | STimestampMillis => match v with VTimestampMillis z | VLong z | VInt z => Ok (VTimestampMillis z) | _ => Err end
  | STimestampMicros => match v with VTimestampMicros z | VLong z | VInt z => Ok (VTimestampMicros z) | _ => Err end
  | STimestampNanos => match v with VTimestampNanos z | VLong z | VInt z => Ok (VTimestampNanos z) | _ => Err end
  | SLocalTimestampMillis => match v with VLocalTimestampMillis z | VLong z | VInt z => Ok (VLocalTimestampMillis z) | _ => Err end
  | SLocalTimestampMicros => match v with VLocalTimestampMicros z | VLong z | VInt z => Ok (VLocalTimestampMicros z) | _ => Err end
  | SLocalTimestampNanos => match v with VLocalTimestampNanos z | VLong z | VInt z => Ok (VLocalTimestampNanos z) | _ => Err end
  | SDuration _ =>
    match v with
    | VDuration m d ms => Ok (VDuration m d ms)
    | VFixed n b =>
      if n =? 12 then
        match take 4 b with
        | Some (x1, r1) => match take 4 r1 with
                           | Some (x2, r2) => match take 4 r2 with
                                              | Some (x3, _) => Ok (VDuration (of_le x1) (of_le x2) (of_le x3))
                                              | None => Panic end      (* bytes[k] out of bounds *)
                           | None => Panic end
        | None => Panic end
      else Err
    | _ => Err end
  | SUuid u => resolve_uuid u v
  end end.

(* the union search of validation (types.rs:594-599) *)
Definition find_impl (c : cfg) (fuel : nat) : find_fn :=
  fun nmz ens bs v =>
    do found <- find_schema (fun b => attempt (resolve fuel c nmz (ns_for b ens) b v)) bs v;
    Ok (match found with Some _ => true | None => false end).
