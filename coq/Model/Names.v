(* ResolvedSchema: avro/src/schema/resolve.rs:146-228 (resolve_names, resolve_names_with_schemata) *)
From AvroV Require Import Base Schema.

Definition names_mem (k : name) (t : names) : bool :=
  match names_get k t with Some _ => true | None => false end.

(* known: HashMap of already known schemata (looked up, never extended) *)
Fixpoint resolve_names (known : names) (s : schema) (ens : option str) (acc : names)
  {struct s} : res names :=
  let define (n : name) :=
    let q := fqn n ens in
    if names_mem q acc || names_mem q known then Err else Ok (acc ++ [(q, s)]) in
  match s with
  | SArray it _ => resolve_names known it ens acc
  | SMap vt _ => resolve_names known vt ens acc
  | SUnion bs =>
    (fix go (bs : list schema) (acc : names) : res names :=
       match bs with
       | [] => Ok acc
       | b :: r => do a <- resolve_names known b ens acc; go r a
       end) bs acc
  | SEnum n _ _ _ _ _ => define n
  | SFixed fx | SUuid (UFixed fx) | SDecimal _ _ (DFixed fx) | SDuration fx => define (fx_name fx)
  | SRecord n _ _ fs _ =>
    let q := fqn n ens in
    if names_mem q acc || names_mem q known then Err else
    (fix go (fs : list (fmeta * schema)) (acc : names) : res names :=
       match fs with
       | [] => Ok acc
       | (_, fsch) :: r => do a <- resolve_names known fsch (ns q) acc; go r a
       end) fs (acc ++ [(q, s)])
  | SRef n =>
    let q := fqn n ens in
    if names_mem q acc || names_mem q known then Ok acc else Err
  | _ => Ok acc
  end.

(* ResolvedSchema::new / try_from(&Schema) *)
Definition resolved (s : schema) : res names := resolve_names [] s None [].

(* ResolvedSchema::new_with_schemata *)
Fixpoint resolve_list (l : list schema) (acc : names) : res names :=
  match l with
  | [] => Ok acc
  | s :: r => do a <- resolve_names [] s None acc; resolve_list r a
  end.
