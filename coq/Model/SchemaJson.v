(* Schema -> JSON (the hand-written Serialize impls: schema/mod.rs:371-394, 855-1062,
   record/field.rs:207-233, name.rs:325-332), serde_json::to_value (objects become BTreeMaps: keys
   sorted bytewise, a repeated key keeps its last value), and the canonical form computed from that
   value (schema/mod.rs:466-472, 1067-1201).

   JSON objects are association lists in emission order; a key may repeat (that is what the
   serializer may emit - C10 asks that it does not). *)
From AvroV Require Import Base Schema Lit.
From Coq Require Import String.
Open Scope N_scope.

Definition K (s : string) : str := lit s.
Arguments K s%string.

(* Name::fullname(None) *)
Definition fullname (n : name) : str :=
  match ns n with Some x => x ++ K "." ++ nm n | None => nm n end.

Definition j_ns_name (n : name) : list (str * json) :=
  (match ns n with Some x => [(K "namespace", JStr x)] | None => [] end) ++ [(K "name", JStr (nm n))].
Definition j_opt (k : string) (o : option str) : list (str * json) :=
  match o with Some d => [(K k, JStr d)] | None => [] end.
Arguments j_opt k%string o.
Definition j_aliases (al : option (list name)) : list (str * json) :=
  match al with Some l => [(K "aliases", JArr (map (fun a => JStr (fullname a)) l))] | None => [] end.

(* FixedSchema::serialize_to_map_without *)
Definition fixed_entries (f : fixedS) (without : list str) : list (str * json) :=
  [(K "type", JStr (K "fixed"))] ++ j_ns_name (fx_name f) ++ j_opt "doc" (fx_doc f)
  ++ [(K "size", JInt (Z.of_N (fx_size f)))] ++ j_aliases (fx_aliases f)
  ++ filter (fun kv => negb (existsb (bytes_eqb (fst kv)) without)) (fx_attrs f).

Definition logical (base : string) (lt : string) : json :=
  JObj [(K "type", JStr (K base)); (K "logicalType", JStr (K lt))].
Arguments logical base%string lt%string.

Fixpoint ser (s : schema) : json :=
  match s with
  | SRef n => JStr (fullname n)
  | SNull => JStr (K "null") | SBoolean => JStr (K "boolean") | SInt => JStr (K "int")
  | SLong => JStr (K "long") | SFloat => JStr (K "float") | SDouble => JStr (K "double")
  | SBytes => JStr (K "bytes") | SString => JStr (K "string")
  | SArray it a => JObj ([(K "type", JStr (K "array")); (K "items", ser it)] ++ a)
  | SMap vt a => JObj ([(K "type", JStr (K "map")); (K "values", ser vt)] ++ a)
  | SUnion bs => JArr (map ser bs)
  | SRecord n al doc fs a =>
    JObj ([(K "type", JStr (K "record"))] ++ j_ns_name n ++ j_opt "doc" doc ++ j_aliases al
          ++ [(K "fields",
               JArr (map (fun ms : fmeta * schema =>
                            let m := fst ms in
                            JObj ([(K "name", JStr (f_name m)); (K "type", ser (snd ms))]
                                  ++ (match f_default m with Some d => [(K "default", d)] | None => [] end)
                                  ++ j_opt "doc" (f_doc m)
                                  ++ (match f_aliases m with
                                      | [] => []
                                      | l => [(K "aliases", JArr (map JStr l))] end)
                                  ++ f_attrs m)) fs))]
          ++ a)
  | SEnum n al doc symbols dflt a =>
    JObj ([(K "type", JStr (K "enum"))] ++ j_ns_name n ++ [(K "symbols", JArr (map JStr symbols))]
          ++ j_aliases al ++ j_opt "default" dflt ++ j_opt "doc" doc ++ a)
  | SFixed f => JObj (fixed_entries f [])
  | SDecimal p sc inner =>
    JObj ((match inner with
           | DFixed f => fixed_entries f [K "scale"; K "precision"]
           | DBytes => [(K "type", JStr (K "bytes"))] end)
          ++ [(K "logicalType", JStr (K "decimal")); (K "scale", JInt (Z.of_N sc)); (K "precision", JInt (Z.of_N p))])
  | SBigDecimal => logical "bytes" "big-decimal"
  | SUuid u =>
    JObj ((match u with
           | UBytes => [(K "type", JStr (K "bytes"))]
           | UString => [(K "type", JStr (K "string"))]
           | UFixed f => fixed_entries f [] end)
          ++ [(K "logicalType", JStr (K "uuid"))])
  | SDate => logical "int" "date" | STimeMillis => logical "int" "time-millis"
  | STimeMicros => logical "long" "time-micros"
  | STimestampMillis => logical "long" "timestamp-millis" | STimestampMicros => logical "long" "timestamp-micros"
  | STimestampNanos => logical "long" "timestamp-nanos"
  | SLocalTimestampMillis => logical "long" "local-timestamp-millis"
  | SLocalTimestampMicros => logical "long" "local-timestamp-micros"
  | SLocalTimestampNanos => logical "long" "local-timestamp-nanos"
  | SDuration f => JObj (fixed_entries f [] ++ [(K "logicalType", JStr (K "duration"))])
  end.

(* strict JSON: no object repeats a key *)
Fixpoint nodup_keys (l : list str) : bool :=
  match l with [] => true | k :: r => negb (existsb (bytes_eqb k) r) && nodup_keys r end.
Fixpoint strict (j : json) : bool :=
  match j with
  | JArr l => forallb strict l
  | JObj l => nodup_keys (map fst l) && forallb (fun kv => strict (snd kv)) l
  | _ => true
  end.

(* serde_json::to_value: BTreeMap<String, Value> *)
Fixpoint bytes_ltb (a b : bytes) : bool :=
  match a, b with
  | _, [] => false
  | [], _ :: _ => true
  | x :: a', y :: b' => (x <? y) || ((x =? y) && bytes_ltb a' b')
  end.
Fixpoint bt_insert {A} (k : bytes) (v : A) (l : list (bytes * A)) : list (bytes * A) :=
  match l with
  | [] => [(k, v)]
  | (k', v') :: r =>
    if bytes_eqb k k' then (k, v) :: r
    else if bytes_ltb k k' then (k, v) :: l
    else (k', v') :: bt_insert k v r
  end.
Fixpoint to_value (j : json) : json :=
  match j with
  | JArr l => JArr (map to_value l)
  | JObj l => JObj (fold_left (fun acc kv => bt_insert (fst kv) (to_value (snd kv)) acc) l [])
  | _ => j
  end.

(* ---- canonical form ---- *)
Definition quote (s : str) : str := K """" ++ s ++ K """".

Definition reserved : list str :=
  [K "name"; K "type"; K "fields"; K "symbols"; K "items"; K "values"; K "size"; K "logicalType"; K "order"; K "doc";
   K "aliases"; K "default"; K "precision"; K "scale"].
Definition field_pos (k : str) : option nat := position (bytes_eqb k) reserved.

Definition is_key (k : str) (s : string) : bool := bytes_eqb k (K s).
Arguments is_key k s%string.

(* decimal digits of an integer (i64::to_string / serde_json number printing of an integer) *)
Fixpoint digits_pos (fuel : nat) (n : N) (acc : str) : str :=
  match fuel with
  | O => acc
  | S f => let acc' := (48 + n mod 10) :: acc in
           if n / 10 =? 0 then acc' else digits_pos f (n / 10) acc'
  end.
Definition show_Z (z : Z) : str :=
  match z with
  | Z0 => [48]
  | Zpos p => digits_pos 40 (Npos p) []
  | Zneg p => 45 :: digits_pos 40 (Npos p) []
  end.

(* str::parse::<i64>: optional sign, at least one digit, in range *)
Fixpoint parse_digits (s : str) (acc : Z) : option Z :=
  match s with
  | [] => Some acc
  | c :: r => if (48 <=? c) && (c <=? 57) then parse_digits r (acc * 10 + Z.of_N (c - 48))%Z else None
  end.
Definition parse_i64 (s : str) : option Z :=
  let body sign r :=
    match r with
    | [] => None
    | _ => match parse_digits r 0 with
           | Some z => let v := (sign * z)%Z in
                       if ((-9223372036854775808 <=? v) && (v <=? 9223372036854775807))%Z then Some v else None
           | None => None end
    end in
  match s with
  | 43 :: r => body 1%Z r
  | 45 :: r => body (-1)%Z r
  | _ => body 1%Z s
  end.

(* serde_json's compact printing of a value (strings escaped as serde_json does; floats are outside
   this model) *)
Definition hex_digit (n : N) : N := if n <? 10 then 48 + n else 87 + n.
Fixpoint esc_chars (s : str) : str :=
  match s with
  | [] => []
  | c :: r =>
    (if c =? 34 then K "\""" else if c =? 92 then K "\\"
     else if c =? 8 then K "\b" else if c =? 12 then K "\f" else if c =? 10 then K "\n"
     else if c =? 13 then K "\r" else if c =? 9 then K "\t"
     else if c <? 32 then K "\u00" ++ [hex_digit (c / 16); hex_digit (c mod 16)]
     else [c]) ++ esc_chars r
  end.
Definition show_str (s : str) : str := K """" ++ esc_chars s ++ K """".
Fixpoint intercalate (sep : str) (l : list str) : str :=
  match l with [] => [] | [x] => x | x :: r => x ++ sep ++ intercalate sep r end.
Fixpoint show_json (j : json) : option str :=
  match j with
  | JNull => Some (K "null") | JBool true => Some (K "true") | JBool false => Some (K "false")
  | JInt z => Some (show_Z z)
  | JFloat _ => None
  | JStr s => Some (show_str s)
  | JArr l =>
    (fix go (l : list json) (acc : list str) : option str :=
       match l with
       | [] => Some (K "[" ++ intercalate (K ",") (rev acc) ++ K "]")
       | x :: r => match show_json x with Some t => go r (t :: acc) | None => None end
       end) l []
  | JObj l =>
    (fix go (l : list (str * json)) (acc : list str) : option str :=
       match l with
       | [] => Some (K "{" ++ intercalate (K ",") (rev acc) ++ K "}")
       | (k, x) :: r => match show_json x with Some t => go r ((show_str k ++ K ":" ++ t) :: acc) | None => None end
       end) l []
  end.

(* insertion by canonical position (the positions of distinct keys are distinct, so the unstable
   sort of the implementation is determined) *)
Fixpoint ins_by_pos (p : nat) (x : str) (l : list (nat * str)) : list (nat * str) :=
  match l with
  | [] => [(p, x)]
  | (q, y) :: r => if (p <? q)%nat then (p, x) :: l else (q, y) :: ins_by_pos p x r
  end.
Fixpoint join (sep : str) (l : list str) : str :=
  match l with
  | [] => []
  | [x] => x
  | x :: r => x ++ sep ++ join sep r
  end.

(* Value::to_string of a value stored under "size" / "precision" / "scale" that is not a string
   holding an integer: only integers are printed by this model; anything else (a custom attribute of
   that name holding a float, a list, ...) is outside it *)
Inductive pcf_out := POk (s : str) | PUnmodelled | POutOfFuel.

Fixpoint pcf (fuel : nat) (j : json) (defined : list str) {struct fuel} : pcf_out * list str :=
  match fuel with
  | O => (POutOfFuel, defined)
  | S f =>
    match j with
    | JStr s => (POk (quote s), defined)
    | JArr l =>
      let '(parts, defined', bad) :=
        fold_left (fun (st : list str * list str * option pcf_out) x =>
                     let '(acc, d, bad) := st in
                     match bad with
                     | Some _ => st
                     | None => match pcf f x d with
                               | (POk t, d') => (acc ++ [t], d', None)
                               | (o, d') => (acc, d', Some o)
                               end
                     end) l ([], defined, None) in
      match bad with
      | Some o => (o, defined')
      | None => (POk (K "[" ++ join (K ",") parts ++ K "]"), defined')
      end
    | JObj m =>
      let typ := match lookup (K "type") m with Some (JStr t) => Some t | _ => None end in
      let named := match typ with
                   | Some t => is_key t "record" || is_key t "enum" || is_key t "fixed" || is_key t "ref"
                   | None => false end in
      let name := if named then
                    let nsp := match lookup (K "namespace") m with Some (JStr n) => n ++ K "." | _ => [] end in
                    let raw := match lookup (K "name") m with Some (JStr n) => n | _ => [] end in
                    Some (nsp ++ raw)
                  else None in
      match (match name with Some n => if existsb (bytes_eqb n) defined then Some n else None | None => None end) with
      | Some n => (POk (quote n), defined)
      | None =>
        let defined := match name with Some n => n :: defined | None => defined end in
        (* the [PRIMITIVE] early return sits inside the loop: a one-entry object whose only key is "type" *)
        match m with
        | [(k, JStr s)] => if is_key k "type" then (POk (quote s), defined) else pcf_entries f m name defined
        | _ => pcf_entries f m name defined
        end
      end
    | JNull => (POk (K "null"), defined)
    | JBool true => (POk (K "true"), defined)
    | JBool false => (POk (K "false"), defined)
    | JInt z => (POk (show_Z z), defined)
    | JFloat _ => (PUnmodelled, defined)
    end
  end
with pcf_entries (fuel : nat) (m : list (str * json)) (name : option str) (defined : list str)
  {struct fuel} : pcf_out * list str :=
  match fuel with
  | O => (POutOfFuel, defined)
  | S f =>
    let '(fields, defined', bad) :=
      fold_left (fun (st : list (nat * str) * list str * option pcf_out) (kv : str * json) =>
                   let '(acc, d, bad) := st in
                   match bad with
                   | Some _ => st
                   | None =>
                     let '(k, v) := kv in
                     match field_pos k with
                     | None => st
                     | Some p =>
                       if is_key k "default" || is_key k "doc" || is_key k "aliases" || is_key k "logicalType" then st
                       else if is_key k "name" && (match name with Some _ => true | None => false end) then
                         match name with
                         | Some n => (ins_by_pos p (quote k ++ K ":" ++ quote n) acc, d, None)
                         | None => st end
                       else if is_key k "size" || is_key k "precision" || is_key k "scale" then
                         match (match v with
                                | JStr s => match parse_i64 s with Some z => Some (show_Z z) | None => show_json v end
                                | _ => show_json v end) with
                         | Some t => (ins_by_pos p (quote k ++ K ":" ++ t) acc, d, None)
                         | None => (acc, d, Some PUnmodelled)
                         end
                       else
                         match pcf f v d with
                         | (POk t, d') => (ins_by_pos p (quote k ++ K ":" ++ t) acc, d', None)
                         | (o, d') => (acc, d', Some o)
                         end
                     end
                   end) m ([], defined, None) in
    match bad with
    | Some o => (o, defined')
    | None => (POk (K "{" ++ join (K ",") (map snd fields) ++ K "}"), defined')
    end
  end.

(* Schema::canonical_form *)
Definition canonical_form (fuel : nat) (s : schema) : pcf_out := fst (pcf fuel (to_value (ser s)) []).
