(* The neutral term language exchanged between generator, Rust harness and model driver
   (DESIGN.md 3.2), with the conversions to and from model data.  Glue, not model. *)
From Coq Require Import String.
From AvroV Require Import Base Schema.
Local Open Scope string_scope.

Inductive sexp := Sym (s : string) | Num (z : Z) | Hex (b : bytes) | L (l : list sexp).

Fixpoint mapM {A B} (f : A -> option B) (l : list A) : option (list B) :=
  match l with
  | [] => Some []
  | x :: r => match f x, mapM f r with
              | Some y, Some ys => Some (y :: ys)
              | _, _ => None
              end
  end.

Definition tagged (x : sexp) : option (string * list sexp) :=
  match x with L (Sym t :: args) => Some (t, args) | _ => None end.

Definition opt_of {A} (f : sexp -> option A) (x : sexp) : option (option A) :=
  match x with
  | L [Sym t] => if t =? "none" then Some None else None
  | L [Sym t; y] => if t =? "some" then option_map Some (f y) else None
  | _ => None
  end.

Definition hex_of_sexp (x : sexp) : option bytes := match x with Hex b => Some b | _ => None end.
Definition N_of_sexp (x : sexp) : option N :=
  match x with Num z => if (z <? 0)%Z then None else Some (Z.to_N z) | _ => None end.
Definition Z_of_sexp (x : sexp) : option Z := match x with Num z => Some z | _ => None end.

Fixpoint json_of (fuel : nat) (x : sexp) {struct fuel} : option json :=
  match fuel with O => None | S fuel' =>
  let json_of := json_of fuel' in
  match x with
  | L (Sym t :: args) =>
    if t =? "jnull" then Some JNull
    else if t =? "jbool" then match args with [Num z] => Some (JBool (negb (z =? 0)%Z)) | _ => None end
    else if t =? "jint" then match args with [Num z] => Some (JInt z) | _ => None end
    else if t =? "jfloat" then match args with [Num z] => Some (JFloat (Z.to_N z)) | _ => None end
    else if t =? "jstr" then match args with [Hex b] => Some (JStr b) | _ => None end
    else if t =? "jarr" then option_map JArr (mapM json_of args)
    else if t =? "jobj" then
      option_map JObj
        (mapM (fun kv => match kv with
                         | L [Sym _; Hex k; v] => option_map (pair k) (json_of v)
                         | _ => None end) args)
    else None
  | _ => None
  end end.
Definition conv_fuel : nat := 400.

Fixpoint sexp_of_json (j : json) : sexp :=
  match j with
  | JNull => L [Sym "jnull"]
  | JBool b => L [Sym "jbool"; Num (if b then 1 else 0)]
  | JInt z => L [Sym "jint"; Num z]
  | JFloat b => L [Sym "jfloat"; Num (Z.of_N b)]
  | JStr s => L [Sym "jstr"; Hex s]
  | JArr l => L (Sym "jarr" :: map sexp_of_json l)
  | JObj l => L (Sym "jobj" :: map (fun kv => L [Sym "kv"; Hex (fst kv); sexp_of_json (snd kv)]) l)
  end.

Definition name_of (x : sexp) : option name :=
  match x with
  | L [Sym t; nsx; Hex n] =>
    if t =? "name" then option_map (fun o => mkName o n) (opt_of hex_of_sexp nsx) else None
  | _ => None
  end.
Definition sexp_of_opt {A} (f : A -> sexp) (o : option A) : sexp :=
  match o with None => L [Sym "none"] | Some a => L [Sym "some"; f a] end.
Definition sexp_of_name (n : name) : sexp :=
  L [Sym "name"; sexp_of_opt Hex (ns n); Hex (nm n)].

Definition aliases_of (x : sexp) : option (option (list name)) :=
  match x with
  | L [Sym t] => if t =? "none" then Some None else if t =? "some" then Some (Some []) else None
  | L (Sym t :: l) => if t =? "some" then option_map Some (mapM name_of l) else None
  | _ => None
  end.

Definition json_of' := json_of conv_fuel.
Definition attrs_of (x : sexp) : option attrs :=
  match x with
  | L (Sym t :: l) =>
    if t =? "attrs" then
      mapM (fun kv => match kv with
                      | L [Sym _; Hex k; v] => option_map (pair k) (json_of' v)
                      | _ => None end) l
    else None
  | _ => None
  end.

Definition fixed_of (x : sexp) : option fixedS :=
  match x with
  | L [Sym t; n; al; doc; Num sz; at_] =>
    if t =? "fixed" then
      match name_of n, aliases_of al, opt_of hex_of_sexp doc, attrs_of at_ with
      | Some n', Some al', Some d', Some a' => Some (mkFixed n' al' d' (Z.to_N sz) a')
      | _, _, _, _ => None
      end
    else None
  | _ => None
  end.

Definition hexlist_of (x : sexp) : option (list bytes) :=
  match x with L (Sym _ :: l) => mapM hex_of_sexp l | _ => None end.

Fixpoint schema_of (fuel : nat) (x : sexp) {struct fuel} : option schema :=
  match fuel with O => None | S fuel' =>
  let schema_of := schema_of fuel' in
  match x with
  | L (Sym t :: args) =>
    if t =? "null" then Some SNull else if t =? "boolean" then Some SBoolean
    else if t =? "int" then Some SInt else if t =? "long" then Some SLong
    else if t =? "float" then Some SFloat else if t =? "double" then Some SDouble
    else if t =? "bytes" then Some SBytes else if t =? "string" then Some SString
    else if t =? "array" then
      match args with
      | [it; a] => match schema_of it, attrs_of a with
                   | Some s, Some a' => Some (SArray s a') | _, _ => None end
      | _ => None end
    else if t =? "map" then
      match args with
      | [it; a] => match schema_of it, attrs_of a with
                   | Some s, Some a' => Some (SMap s a') | _, _ => None end
      | _ => None end
    else if t =? "union" then option_map SUnion (mapM schema_of args)
    else if t =? "record" then
      match args with
      | [n; al; doc; L (Sym _ :: fs); a] =>
        match name_of n, aliases_of al, opt_of hex_of_sexp doc, attrs_of a,
              mapM (fun f => match f with
                             | L [Sym _; Hex fname; fdoc; fal; fdef; fs; fat] =>
                               match opt_of hex_of_sexp fdoc, hexlist_of fal, opt_of json_of' fdef,
                                     schema_of fs, attrs_of fat with
                               | Some d, Some al', Some df, Some s, Some a' =>
                                 Some (mkFmeta fname d al' df a', s)
                               | _, _, _, _, _ => None
                               end
                             | _ => None end) fs with
        | Some n', Some al', Some d', Some a', Some fs' => Some (SRecord n' al' d' fs' a')
        | _, _, _, _, _ => None
        end
      | _ => None end
    else if t =? "enum" then
      match args with
      | [n; al; doc; syms; def; a] =>
        match name_of n, aliases_of al, opt_of hex_of_sexp doc, hexlist_of syms,
              opt_of hex_of_sexp def, attrs_of a with
        | Some n', Some al', Some d', Some sy, Some df, Some a' => Some (SEnum n' al' d' sy df a')
        | _, _, _, _, _, _ => None
        end
      | _ => None end
    else if t =? "fixed" then option_map SFixed (fixed_of x)
    else if t =? "decimal" then
      match args with
      | [Num p; Num sc; inner] =>
        match inner with
        | L [Sym i] => if i =? "bytes" then Some (SDecimal (Z.to_N p) (Z.to_N sc) DBytes) else None
        | _ => option_map (fun f => SDecimal (Z.to_N p) (Z.to_N sc) (DFixed f)) (fixed_of inner)
        end
      | _ => None end
    else if t =? "bigdecimal" then Some SBigDecimal
    else if t =? "uuid" then
      match args with
      | [inner] =>
        match inner with
        | L [Sym i] => if i =? "string" then Some (SUuid UString)
                       else if i =? "bytes" then Some (SUuid UBytes) else None
        | _ => option_map (fun f => SUuid (UFixed f)) (fixed_of inner)
        end
      | _ => None end
    else if t =? "date" then Some SDate
    else if t =? "time-millis" then Some STimeMillis
    else if t =? "time-micros" then Some STimeMicros
    else if t =? "timestamp-millis" then Some STimestampMillis
    else if t =? "timestamp-micros" then Some STimestampMicros
    else if t =? "timestamp-nanos" then Some STimestampNanos
    else if t =? "local-timestamp-millis" then Some SLocalTimestampMillis
    else if t =? "local-timestamp-micros" then Some SLocalTimestampMicros
    else if t =? "local-timestamp-nanos" then Some SLocalTimestampNanos
    else if t =? "duration" then
      match args with [f] => option_map SDuration (fixed_of f) | _ => None end
    else if t =? "ref" then
      match args with [n] => option_map SRef (name_of n) | _ => None end
    else None
  | _ => None
  end end.

(* the inverse direction, in the harness's own format *)
Definition sexp_of_aliases (al : option (list name)) : sexp :=
  match al with None => L [Sym "none"] | Some l => L (Sym "some" :: map sexp_of_name l) end.
Definition sexp_of_attrs (a : attrs) : sexp :=
  L (Sym "attrs" :: map (fun kv => L [Sym "kv"; Hex (fst kv); sexp_of_json (snd kv)]) a).
Definition sexp_of_fixed (f : fixedS) : sexp :=
  L [Sym "fixed"; sexp_of_name (fx_name f); sexp_of_aliases (fx_aliases f); sexp_of_opt Hex (fx_doc f);
     Num (Z.of_N (fx_size f)); sexp_of_attrs (fx_attrs f)].
Fixpoint sexp_of_schema (s : schema) : sexp :=
  match s with
  | SNull => L [Sym "null"] | SBoolean => L [Sym "boolean"] | SInt => L [Sym "int"] | SLong => L [Sym "long"]
  | SFloat => L [Sym "float"] | SDouble => L [Sym "double"] | SBytes => L [Sym "bytes"] | SString => L [Sym "string"]
  | SArray it a => L [Sym "array"; sexp_of_schema it; sexp_of_attrs a]
  | SMap vt a => L [Sym "map"; sexp_of_schema vt; sexp_of_attrs a]
  | SUnion bs => L (Sym "union" :: map sexp_of_schema bs)
  | SRecord n al doc fs a =>
    L [Sym "record"; sexp_of_name n; sexp_of_aliases al; sexp_of_opt Hex doc;
       L (Sym "fields" :: map (fun ms : fmeta * schema =>
                                 let m := fst ms in
                                 L [Sym "field"; Hex (f_name m); sexp_of_opt Hex (f_doc m);
                                    L (Sym "aliases" :: map Hex (f_aliases m));
                                    sexp_of_opt sexp_of_json (f_default m); sexp_of_schema (snd ms);
                                    sexp_of_attrs (f_attrs m)]) fs);
       sexp_of_attrs a]
  | SEnum n al doc symbols dflt a =>
    L [Sym "enum"; sexp_of_name n; sexp_of_aliases al; sexp_of_opt Hex doc; L (Sym "symbols" :: map Hex symbols);
       sexp_of_opt Hex dflt; sexp_of_attrs a]
  | SFixed f => sexp_of_fixed f
  | SDecimal p sc inner =>
    L [Sym "decimal"; Num (Z.of_N p); Num (Z.of_N sc);
       match inner with DBytes => L [Sym "bytes"] | DFixed f => sexp_of_fixed f end]
  | SBigDecimal => L [Sym "bigdecimal"]
  | SUuid u => L [Sym "uuid"; match u with UString => L [Sym "string"] | UBytes => L [Sym "bytes"] | UFixed f => sexp_of_fixed f end]
  | SDate => L [Sym "date"] | STimeMillis => L [Sym "time-millis"] | STimeMicros => L [Sym "time-micros"]
  | STimestampMillis => L [Sym "timestamp-millis"] | STimestampMicros => L [Sym "timestamp-micros"]
  | STimestampNanos => L [Sym "timestamp-nanos"]
  | SLocalTimestampMillis => L [Sym "local-timestamp-millis"] | SLocalTimestampMicros => L [Sym "local-timestamp-micros"]
  | SLocalTimestampNanos => L [Sym "local-timestamp-nanos"]
  | SDuration f => L [Sym "duration"; sexp_of_fixed f]
  | SRef n => L [Sym "ref"; sexp_of_name n]
  end.

Fixpoint value_of (fuel : nat) (x : sexp) {struct fuel} : option value :=
  match fuel with O => None | S fuel' =>
  let value_of := value_of fuel' in
  match x with
  | L (Sym t :: args) =>
    let z1 (f : Z -> value) := match args with [Num z] => Some (f z) | _ => None end in
    let kvs := mapM (fun kv => match kv with
                               | L [Sym _; Hex k; v] => option_map (pair k) (value_of v)
                               | _ => None end) in
    if t =? "null" then Some VNull
    else if t =? "boolean" then z1 (fun z => VBoolean (negb (z =? 0)%Z))
    else if t =? "int" then z1 VInt else if t =? "long" then z1 VLong
    else if t =? "float" then z1 (fun z => VFloat (Z.to_N z))
    else if t =? "double" then z1 (fun z => VDouble (Z.to_N z))
    else if t =? "bytes" then match args with [Hex b] => Some (VBytes b) | _ => None end
    else if t =? "string" then match args with [Hex b] => Some (VString b) | _ => None end
    else if t =? "fixed" then match args with [Num n; Hex b] => Some (VFixed (Z.to_N n) b) | _ => None end
    else if t =? "enum" then match args with [Num n; Hex b] => Some (VEnum (Z.to_N n) b) | _ => None end
    else if t =? "union" then
      match args with [Num n; v] => option_map (VUnion (Z.to_N n)) (value_of v) | _ => None end
    else if t =? "array" then option_map VArray (mapM value_of args)
    else if t =? "map" then option_map VMap (kvs args)
    else if t =? "record" then option_map VRecord (kvs args)
    else if t =? "date" then z1 VDate
    else if t =? "decimal" then match args with [Hex b] => Some (VDecimal b) | _ => None end
    else if t =? "bigdecimal" then
      match args with [Hex b; Num sc] => Some (VBigDecimal b sc) | _ => None end
    else if t =? "time-millis" then z1 VTimeMillis
    else if t =? "time-micros" then z1 VTimeMicros
    else if t =? "timestamp-millis" then z1 VTimestampMillis
    else if t =? "timestamp-micros" then z1 VTimestampMicros
    else if t =? "timestamp-nanos" then z1 VTimestampNanos
    else if t =? "local-timestamp-millis" then z1 VLocalTimestampMillis
    else if t =? "local-timestamp-micros" then z1 VLocalTimestampMicros
    else if t =? "local-timestamp-nanos" then z1 VLocalTimestampNanos
    else if t =? "duration" then
      match args with
      | [Num m; Num d; Num ms] => Some (VDuration (Z.to_N m) (Z.to_N d) (Z.to_N ms))
      | _ => None end
    else if t =? "uuid" then match args with [Hex b] => Some (VUuid b) | _ => None end
    else None
  | _ => None
  end end.

Fixpoint sexp_of_value (v : value) : sexp :=
  let z1 t z := L [Sym t; Num z] in
  let kvs := map (fun kv => L [Sym "kv"; Hex (fst kv); sexp_of_value (snd kv)]) in
  match v with
  | VNull => L [Sym "null"]
  | VBoolean b => z1 "boolean" (if b then 1 else 0)%Z
  | VInt z => z1 "int" z | VLong z => z1 "long" z
  | VFloat x => z1 "float" (Z.of_N x) | VDouble x => z1 "double" (Z.of_N x)
  | VBytes b => L [Sym "bytes"; Hex b] | VString b => L [Sym "string"; Hex b]
  | VFixed n b => L [Sym "fixed"; Num (Z.of_N n); Hex b]
  | VEnum i s => L [Sym "enum"; Num (Z.of_N i); Hex s]
  | VUnion i x => L [Sym "union"; Num (Z.of_N i); sexp_of_value x]
  | VArray l => L (Sym "array" :: map sexp_of_value l)
  | VMap l => L (Sym "map" :: kvs l)
  | VRecord l => L (Sym "record" :: kvs l)
  | VDate z => z1 "date" z
  | VDecimal b => L [Sym "decimal"; Hex b]
  | VBigDecimal b sc => L [Sym "bigdecimal"; Hex b; Num sc]
  | VTimeMillis z => z1 "time-millis" z | VTimeMicros z => z1 "time-micros" z
  | VTimestampMillis z => z1 "timestamp-millis" z
  | VTimestampMicros z => z1 "timestamp-micros" z
  | VTimestampNanos z => z1 "timestamp-nanos" z
  | VLocalTimestampMillis z => z1 "local-timestamp-millis" z
  | VLocalTimestampMicros z => z1 "local-timestamp-micros" z
  | VLocalTimestampNanos z => z1 "local-timestamp-nanos" z
  | VDuration m d ms => L [Sym "duration"; Num (Z.of_N m); Num (Z.of_N d); Num (Z.of_N ms)]
  | VUuid b => L [Sym "uuid"; Hex b]
  end.
