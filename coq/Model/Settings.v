(* Process-wide write-once settings (std::sync::OnceLock): avro/src/util.rs:29-33,162-164,201-207,
   avro/src/validator.rs:109-132 (and the three sibling validators), avro/src/schema_equality.rs:235-260.
   A run is any list of operations - one interleaving, at the granularity at which OnceLock is atomic. *)
From AvroV Require Import Base.

Section Settings.
Context {V : Type}.

Inductive sop :=
| GetOrInit (v : V)     (* max_allocation_bytes(v), set_serde_human_readable(v), every use (v = default) *)
| TrySet (v : V).       (* set_*_validator(v), set_schemata_equality_comparator(v) *)

Inductive sout :=
| Got (v : V)           (* the value in force, returned to the caller *)
| Accepted              (* Ok(()) *)
| Rejected (v : V).     (* Err(v): the caller's value handed back *)

Definition sstep (c : option V) (o : sop) : option V * sout :=
  match o, c with
  | GetOrInit v, None => (Some v, Got v)
  | GetOrInit _, Some x => (Some x, Got x)
  | TrySet v, None => (Some v, Accepted)
  | TrySet v, Some x => (Some x, Rejected v)
  end.

Fixpoint srun (c : option V) (ops : list sop) : option V * list sout :=
  match ops with
  | [] => (c, [])
  | o :: r => let '(c', out) := sstep c o in
              let '(c'', outs) := srun c' r in (c'', out :: outs)
  end.

Definition op_value (o : sop) : V := match o with GetOrInit v | TrySet v => v end.
End Settings.
