(* Output sinks obeying the std::io::Write contract, and write_all over them.
   A sink is a script of per-call behaviours; when the script is exhausted every call accepts
   [dflt] bytes (at least one). *)
From AvroV Require Import Base.
Open Scope N_scope.

Inductive beh := Accept (n : N) | Fail | Interrupted.

Record sink := mkSink { sk_script : list beh; sk_default : N; sk_data : bytes; sk_calls : N }.

(* one call of Write::write on a non-empty buffer: how many bytes were taken, or an error *)
Inductive wres := Took (k : nat) | WErr | WIntr.

Definition accept_len (n : N) (buf : bytes) : nat :=
  Nat.min (Nat.max 1 (N.to_nat n)) (length buf).

Definition sink_write (s : sink) (buf : bytes) : wres * sink :=
  match sk_script s with
  | [] =>
    let k := accept_len (sk_default s) buf in
    (Took k, mkSink [] (sk_default s) (sk_data s ++ firstn k buf) (sk_calls s + 1))
  | Accept n :: r =>
    let k := accept_len n buf in
    (Took k, mkSink r (sk_default s) (sk_data s ++ firstn k buf) (sk_calls s + 1))
  | Fail :: r => (WErr, mkSink r (sk_default s) (sk_data s) (sk_calls s + 1))
  | Interrupted :: r => (WIntr, mkSink r (sk_default s) (sk_data s) (sk_calls s + 1))
  end.

(* std::io::Write::write_all: loop until the buffer is empty; Interrupted is retried, any other
   error is returned (Ok(0) cannot happen: sinks accept at least one byte).  Fuel: every iteration
   consumes a byte of the buffer or an element of the script. *)
Fixpoint write_all (fuel : nat) (s : sink) (buf : bytes) : bool * sink :=
  match buf with
  | [] => (true, s)
  | _ =>
    match fuel with
    | O => (false, s)
    | S f =>
      match sink_write s buf with
      | (Took k, s') => write_all f s' (skipn k buf)
      | (WErr, s') => (false, s')
      | (WIntr, s') => write_all f s' buf
      end
    end
  end.

Definition wa_fuel (s : sink) (buf : bytes) : nat := S (length buf + length (sk_script s)).

(* an operation that hands the sink a sequence of pieces with write_all, stopping at the first error
   (encode_internal, Writer::flush, ...).  Returns success and the byte count it reports. *)
Fixpoint write_pieces (s : sink) (ps : list bytes) : bool * sink :=
  match ps with
  | [] => (true, s)
  | p :: r =>
    match write_all (wa_fuel s p) s p with
    | (true, s') => write_pieces s' r
    | (false, s') => (false, s')
    end
  end.

(* GenericSingleObjectWriter (writer/single_object.rs): the writer keeps one buffer that holds the
   message header between calls.  write_value_ref refuses a buffer whose length is outside 10..=20,
   appends the encoded value (None: validation or encoding failed), hands the whole buffer to
   write_all, and truncates the buffer back to its length at entry whatever happened.  Result: the
   message length, or an error. *)
Definition so_guard (buf : bytes) : bool := (10 <=? length buf)%nat && (length buf <=? 20)%nat.

Definition sow_write (buf : bytes) (s : sink) (payload : option bytes) : option nat * bytes * sink :=
  if so_guard buf then
    match payload with
    | None => (None, buf, s)
    | Some p =>
      let msg := buf ++ p in
      match write_all (wa_fuel s msg) s msg with
      | (true, s') => (Some (length msg), firstn (length buf) msg, s')
      | (false, s') => (None, firstn (length buf) msg, s')
      end
    end
  else (None, buf, s).

(* a history of calls on one writer; each call is reported with the bytes the sink took during it *)
Fixpoint sow_run (buf : bytes) (s : sink) (ops : list (option bytes)) : list (option nat * bytes) * bytes * sink :=
  match ops with
  | [] => ([], buf, s)
  | p :: r =>
    let '(res, buf', s') := sow_write buf s p in
    let taken := skipn (length (sk_data s)) (sk_data s') in
    let '(outs, bufn, sn) := sow_run buf' s' r in
    ((res, taken) :: outs, bufn, sn)
  end.
