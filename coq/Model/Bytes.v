(* Byte-level helpers: UTF-8 validation (String::from_utf8), two's-complement big-endian integers
   (num-bigint to/from_signed_bytes_be seen through Decimal, decimal.rs:91-102), UUID text. *)
From AvroV Require Import Base.
Open Scope N_scope.

(* Unicode 15 table 3-7, as std::str::from_utf8 implements it.  k = continuation bytes still
   expected, [lo,hi] = admissible range of the next continuation byte. *)
Fixpoint utf8_go (k : nat) (lo hi : N) (bs : bytes) : bool :=
  match bs with
  | [] => Nat.eqb k 0
  | b :: r =>
    match k with
    | O =>
      if b <? 128 then utf8_go 0 0 0 r
      else if (194 <=? b) && (b <=? 223) then utf8_go 1 128 191 r
      else if b =? 224 then utf8_go 2 160 191 r
      else if ((225 <=? b) && (b <=? 236)) || (b =? 238) || (b =? 239) then utf8_go 2 128 191 r
      else if b =? 237 then utf8_go 2 128 159 r
      else if b =? 240 then utf8_go 3 144 191 r
      else if (241 <=? b) && (b <=? 243) then utf8_go 3 128 191 r
      else if b =? 244 then utf8_go 3 128 143 r
      else false
    | S k' => if (lo <=? b) && (b <=? hi) then utf8_go k' 128 191 r else false
    end
  end.
Definition utf8_ok (bs : bytes) : bool := utf8_go 0 0 0 bs.

(* to_signed_bytes_be (from_signed_bytes_be bs): strip redundant leading sign bytes *)
Fixpoint minimal (bs : bytes) : bytes :=
  match bs with
  | [] => [0]
  | b0 :: r =>
    match r with
    | [] => bs
    | b1 :: _ =>
      if ((b0 =? 0) && (b1 <? 128)) || ((b0 =? 255) && (128 <=? b1)) then minimal r else bs
    end
  end.

(* BigInt sign of from_signed_bytes_be bs *)
Definition is_neg (bs : bytes) : bool :=
  match bs with [] => false | b :: _ => 128 <=? b end.

(* Decimal::to_sign_extended_bytes_with_len, decimal.rs:91-102 *)
Definition sign_extend (len : N) (bs : bytes) : option bytes :=
  let raw := minimal bs in
  let sb := if is_neg bs then 255 else 0 in
  if lenN raw <=? len then Some (repeat_n sb (N.to_nat (len - lenN raw)) ++ raw) else None.

(* Decimal::to_vec = to_sign_extended_bytes_with_len(self.len.max(1)): a decimal read from zero
   bytes is the number zero and is written as one zero byte *)
Definition dec_to_vec (bs : bytes) : option bytes := sign_extend (N.max 1 (lenN bs)) bs.

(* ---- UUID text ---- *)
Definition hexdig (n : N) : N := if n <? 10 then 48 + n else 87 + n.   (* lower case *)
Definition hex2 (b : N) : bytes := [hexdig (b / 16); hexdig (b mod 16)].
Fixpoint hex_of (bs : bytes) : bytes :=
  match bs with [] => [] | b :: r => hex2 b ++ hex_of r end.

(* Uuid::to_string: hyphenated lower case 8-4-4-4-12 *)
Definition uuid_text (b : bytes) : bytes :=
  match b with
  | [b0; b1; b2; b3; b4; b5; b6; b7; b8; b9; b10; b11; b12; b13; b14; b15] =>
    hex_of [b0; b1; b2; b3] ++ 45 :: hex_of [b4; b5] ++ 45 :: hex_of [b6; b7] ++ 45 ::
    hex_of [b8; b9] ++ 45 :: hex_of [b10; b11; b12; b13; b14; b15]
  | _ => []
  end.

Definition unhex (c : N) : option N :=
  if (48 <=? c) && (c <=? 57) then Some (c - 48)
  else if (97 <=? c) && (c <=? 102) then Some (c - 87)
  else if (65 <=? c) && (c <=? 70) then Some (c - 55)
  else None.

Fixpoint unhex_pairs (bs : bytes) : option bytes :=
  match bs with
  | [] => Some []
  | h :: r =>
    match r with
    | [] => None
    | l :: r' =>
      match unhex h, unhex l, unhex_pairs r' with
      | Some a, Some b, Some t => Some (a * 16 + b :: t)
      | _, _, _ => None
      end
    end
  end.

(* groups 8-4-4-4-12 separated by '-' (45) *)
Definition parse_hyphenated (s : bytes) : option bytes :=
  match take 8 s with
  | Some (g1, x1 :: r1) =>
    match take 4 r1 with
    | Some (g2, x2 :: r2) =>
      match take 4 r2 with
      | Some (g3, x3 :: r3) =>
        match take 4 r3 with
        | Some (g4, x4 :: g5) =>
          if (x1 =? 45) && (x2 =? 45) && (x3 =? 45) && (x4 =? 45) && (lenN g5 =? 12)
          then unhex_pairs (g1 ++ g2 ++ g3 ++ g4 ++ g5) else None
        | _ => None end
      | _ => None end
    | _ => None end
  | _ => None
  end.

Definition urn_prefix : bytes := [117; 114; 110; 58; 117; 117; 105; 100; 58].  (* "urn:uuid:" *)

(* uuid 1.x parser.rs try_parse: simple (32), hyphenated (36), braced (38), urn (45) *)
Definition uuid_parse (s : bytes) : option bytes :=
  let n := lenN s in
  if n =? 32 then unhex_pairs s
  else if n =? 36 then parse_hyphenated s
  else if n =? 38 then
    match s with
    | x :: r => match take 36 r with
                | Some (m, [y]) => if (x =? 123) && (y =? 125) then parse_hyphenated m else None
                | _ => None end
    | [] => None
    end
  else if n =? 45 then
    match take 9 s with
    | Some (p, r) => if bytes_eqb p urn_prefix then parse_hyphenated r else None
    | None => None
    end
  else None.

(* f64::from(f32) on bit patterns: exact widening; NaNs keep sign and payload and become quiet
   (what the hardware conversion does).  Used by the encoder for a Float under a double schema. *)
Definition f32_to_f64 (x : N) : N :=
  let sign := (x / 2 ^ 31) * 2 ^ 63 in
  let e := (x / 2 ^ 23) mod 256 in
  let m := x mod 2 ^ 23 in
  if e =? 255 then
    if m =? 0 then sign + 2047 * 2 ^ 52
    else sign + 2047 * 2 ^ 52 + N.lor (m * 2 ^ 29) (2 ^ 51)
  else if e =? 0 then
    if m =? 0 then sign
    else let k := N.log2 m in sign + (k + 874) * 2 ^ 52 + (m - 2 ^ k) * 2 ^ (52 - k)
  else sign + (e + 896) * 2 ^ 52 + m * 2 ^ 29.
