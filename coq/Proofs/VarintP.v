(* Laws of the varint / zig-zag layer against the faithful 10-byte, mod-2^64 reader. *)
From AvroV Require Import Base Varint.
From Coq Require Import ZifyN ZifyBool.
Open Scope N_scope.
Ltac Zify.zify_post_hook ::= Z.div_mod_to_equations.

Lemma enc_dec_gen : forall fe z j acc rest fd,
  z < 2 ^ (64 - 7 * j) -> 7 * j <= 63 -> acc < 2 ^ (7 * j) ->
  (N.to_nat (N.log2 z / 7) < fe)%nat -> (fe <= fd)%nat ->
  dec_var fd j acc (enc_var fe z ++ rest) = VOk (acc + z * 2 ^ (7 * j)) rest.
Proof.
  induction fe as [|f IH]; intros z j acc rest fd Hz Hj Hacc Hf Hfd; [lia|].
  destruct fd as [|g]; [lia|].
  cbn [enc_var dec_var].
  assert (Hj9 : (9 <? j) = false) by (apply N.ltb_ge; lia).
  rewrite Hj9.
  destruct (z <=? 127) eqn:Hle.
  - apply N.leb_le in Hle. cbn [app].
    assert (Hm : (z mod 128) mod 128 = z) by (rewrite N.mod_mod by lia; apply N.mod_small; lia).
    rewrite Hm.
    assert (Hd : z mod 128 / 128 = 0) by (apply N.div_small; apply N.mod_lt; lia).
    rewrite Hd. rewrite N.eqb_refl.
    f_equal.
    apply N.mod_small.
    assert (Hp : 2 ^ (7*j) * 2 ^ (64 - 7*j) = 2 ^ 64) by (rewrite <- N.pow_add_r; f_equal; lia).
    rewrite <- Hp.
    remember (2 ^ (7*j)) as P. remember (2 ^ (64 - 7*j)) as Q. nia.
  - apply N.leb_gt in Hle. cbn [app].
    assert (Hm : (128 + z mod 128) mod 128 = z mod 128).
    { pose proof (N.mod_lt z 128 ltac:(lia)) as Hlt.
      symmetry. apply (N.mod_unique _ _ 1); lia. }
    rewrite Hm.
    assert (Hd : (128 + z mod 128) / 128 =? 0 = false).
    { apply N.eqb_neq. intro H0. apply N.div_small_iff in H0; lia. }
    rewrite Hd.
    assert (Hpow : 2 ^ (7*j) * 2 ^ (64 - 7*j) = 2 ^ 64) by (rewrite <- N.pow_add_r; f_equal; lia).
    assert (H7 : 2 ^ (7 * (j+1)) = 2 ^ (7*j) * 128).
    { replace (7 * (j+1)) with (7*j + 7) by lia. rewrite N.pow_add_r. reflexivity. }
    assert (Hjlt : 7 * (j + 1) <= 63).
    { destruct (N.le_gt_cases (7 * (j+1)) 63) as [|Hgt]; [assumption|].
      exfalso. assert (64 - 7 * j <= 7) by lia.
      assert (2 ^ (64 - 7*j) <= 2 ^ 7) by (apply N.pow_le_mono_r; lia).
      change (2^7) with 128 in *. lia. }
    assert (Hsmall : (acc + z mod 128 * 2 ^ (7 * j)) mod 2 ^ 64 = acc + z mod 128 * 2 ^ (7 * j)).
    { apply N.mod_small.
      assert (z mod 128 < 128) by (apply N.mod_lt; lia).
      assert (2 ^ (7*j) * 128 <= 2 ^ 63).
      { rewrite <- H7. apply N.pow_le_mono_r; lia. }
      assert (2 ^ 63 < 2 ^ 64) by (apply N.pow_lt_mono_r; lia).
      nia. }
    rewrite Hsmall.
    rewrite IH.
    + f_equal. rewrite H7.
      pose proof (N.div_mod z 128 ltac:(lia)). nia.
    + assert (Hsplit : 2 ^ (64 - 7*j) = 2 ^ (64 - 7*(j+1)) * 128).
      { replace (64 - 7*j) with (64 - 7*(j+1) + 7) by lia. rewrite N.pow_add_r. reflexivity. }
      apply N.div_lt_upper_bound; [lia|]. lia.
    + assumption.
    + rewrite H7. assert (z mod 128 < 128) by (apply N.mod_lt; lia). nia.
    + assert (N.log2 (z / 128) = N.log2 z - 7).
      { change 128 with (2^7). rewrite <- N.shiftr_div_pow2. apply N.log2_shiftr. }
      assert (7 <= N.log2 z) by (change 7 with (N.log2 128); apply N.log2_le_mono; lia).
      assert ((N.log2 z - 7) / 7 = N.log2 z / 7 - 1).
      { replace (N.log2 z) with ((N.log2 z - 7) + 1 * 7) at 2 by lia. rewrite N.div_add by lia. lia. }
      assert (1 <= N.log2 z / 7) by (apply N.div_le_lower_bound; lia).
      lia.
    + lia.
Qed.

Theorem varint_roundtrip : forall z rest, z < 2 ^ 64 ->
  dec_var 11 0 0 (enc_var 10 z ++ rest) = VOk z rest.
Proof.
  intros z rest Hz.
  rewrite enc_dec_gen; try (cbn; lia).
  - f_equal. cbn. lia.
  - assert (N.log2 z < 64) by (destruct (N.eq_dec z 0) as [->|]; [cbn; lia| apply N.log2_lt_pow2; lia]).
    assert (N.log2 z / 7 <= 9) by (apply N.div_le_upper_bound; lia). lia.
Qed.

Lemma enc_var_nonempty : forall f z, enc_var (S f) z <> [].
Proof. intros f z. cbn [enc_var]. destruct (z <=? 127); discriminate. Qed.

(* ---- zig-zag ---- *)
Lemma in_i64_spec z : in_i64 z = true <-> (- 2 ^ 63 <= z < 2 ^ 63)%Z.
Proof. unfold in_i64. rewrite andb_true_iff, Z.leb_le, Z.ltb_lt. tauto. Qed.
Lemma in_i32_spec z : in_i32 z = true <-> (- 2 ^ 31 <= z < 2 ^ 31)%Z.
Proof. unfold in_i32. rewrite andb_true_iff, Z.leb_le, Z.ltb_lt. tauto. Qed.
Lemma in_i32_i64 z : in_i32 z = true -> in_i64 z = true.
Proof. rewrite in_i32_spec, in_i64_spec. lia. Qed.

Lemma zig_bound z : in_i64 z = true -> zig z < 2 ^ 64.
Proof.
  rewrite in_i64_spec. intros H. unfold zig.
  destruct (0 <=? z)%Z eqn:E; lia.
Qed.

Lemma zag_zig z : in_i64 z = true -> zag (zig z) = z.
Proof.
  rewrite in_i64_spec. intros H. unfold zig, zag.
  destruct (0 <=? z)%Z eqn:E.
  - assert (Hev : N.even (Z.to_N (2 * z)) = true).
    { rewrite N.even_spec. exists (Z.to_N z). lia. }
    rewrite Hev. lia.
  - assert (Hev : N.even (Z.to_N (- 2 * z - 1)) = false).
    { rewrite <- N.negb_odd. apply negb_false_iff. rewrite N.odd_spec. exists (Z.to_N (- z - 1)). lia. }
    rewrite Hev. lia.
Qed.

Theorem long_roundtrip z rest : in_i64 z = true -> dec_long (enc_long z ++ rest) = LOk z rest.
Proof.
  intros H. unfold dec_long, enc_long.
  rewrite varint_roundtrip by (apply zig_bound; assumption).
  rewrite zag_zig by assumption. reflexivity.
Qed.

Theorem int_roundtrip z rest : in_i32 z = true -> dec_int (enc_long z ++ rest) = LOk z rest.
Proof.
  intros H. unfold dec_int. rewrite long_roundtrip by (apply in_i32_i64; assumption).
  rewrite H. reflexivity.
Qed.

Lemma enc_long_nonempty z : enc_long z <> [].
Proof. unfold enc_long. apply enc_var_nonempty. Qed.

Lemma enc_long_0 : enc_long 0 = [0].
Proof. reflexivity. Qed.

Lemma enc_long_length_pos z : (1 <= length (enc_long z))%nat.
Proof. pose proof (enc_long_nonempty z). destruct (enc_long z); [congruence|cbn; lia]. Qed.

(* ---- prefix law: a strict prefix of a varint is an end-of-input, never a number ---- *)
Lemma enc_var_length_le f z : (length (enc_var f z) <= f)%nat.
Proof.
  revert z. induction f as [|f IH]; intros z; cbn [enc_var length]; [lia|].
  destruct (z <=? 127); cbn [length]; [lia|]. specialize (IH (z / 128)). lia.
Qed.

Lemma enc_var_prefix : forall fe z k fd j acc,
  (k < length (enc_var fe z))%nat -> (k < fd)%nat -> j + N.of_nat k <= 9 ->
  dec_var fd j acc (firstn k (enc_var fe z)) = VEof.
Proof.
  induction fe as [|f IH]; intros z k fd j acc Hk Hfd Hj; [cbn in Hk; lia|].
  destruct fd as [|g]; [lia|].
  cbn [enc_var] in *.
  assert (Hj9 : (9 <? j) = false) by (apply N.ltb_ge; lia).
  destruct (z <=? 127) eqn:Hle.
  - cbn [length] in Hk. assert (k = 0)%nat by lia. subst k. cbn [firstn dec_var]. rewrite Hj9. reflexivity.
  - destruct k as [|k'].
    + cbn [firstn dec_var]. rewrite Hj9. reflexivity.
    + cbn [firstn dec_var]. rewrite Hj9.
      assert (Hd : (128 + z mod 128) / 128 =? 0 = false).
      { apply N.eqb_neq. intro H0. apply N.div_small_iff in H0; lia. }
      rewrite Hd. apply IH.
      * cbn [length] in Hk. lia.
      * lia.
      * lia.
Qed.

Lemma enc_long_length_le z : (length (enc_long z) <= 10)%nat.
Proof. unfold enc_long. apply enc_var_length_le. Qed.

Theorem long_prefix_eof z k : (k < length (enc_long z))%nat -> dec_long (firstn k (enc_long z)) = LEof.
Proof.
  intros Hk. unfold dec_long, enc_long in *.
  pose proof (enc_var_length_le 10 (zig z)).
  rewrite enc_var_prefix; [reflexivity|exact Hk|lia|lia].
Qed.
