From AvroV Require Import Base Varint Schema Bytes Names Codec Conforms Validate Rabin CRC64 SingleObject.
From AvroV Require Import VarintP BytesP CodecP ValidateP RabinP.
From Coq Require Import ZifyN ZifyBool ZifyNat.
Open Scope N_scope.

Lemma firstn_length_app {A} (a b : list A) : firstn (length a) (a ++ b) = a.
Proof. induction a as [|x a IH]; cbn [length firstn app]; [destruct b; reflexivity|]. rewrite IH. reflexivity. Qed.
Lemma firstn_length_self {A} (a : list A) : firstn (length a) a = a.
Proof. rewrite <- (app_nil_r a) at 2. apply firstn_length_app. Qed.

Definition emitted_ok (hdr : bytes) (op : res bytes * bool) (o : so_out) : Prop :=
  match o with
  | SoEmitted m => exists d, fst op = Ok d /\ snd op = true /\ m = hdr ++ d
  | SoValueErr => forall d, fst op <> Ok d
  | SoSinkErr => snd op = false
  | SoStateErr => False
  end.

Lemma so_write_inv hdr d ok :
  10 <= lenN hdr <= 20 ->
  fst (so_write hdr d ok) = hdr /\ emitted_ok hdr (d, ok) (snd (so_write hdr d ok)).
Proof.
  intros [H1 H2]. unfold so_write.
  assert (E : ((10 <=? lenN hdr) && (lenN hdr <=? 20)) = true) by lia. rewrite E.
  destruct d as [d| | |]; cbn [fst snd].
  - rewrite firstn_length_app. destruct ok; cbn [fst snd emitted_ok]; split; try reflexivity.
    exists d. repeat split; reflexivity.
  - rewrite firstn_length_self. split; [reflexivity|]. cbn [emitted_ok fst]. intros d; discriminate.
  - rewrite firstn_length_self. split; [reflexivity|]. cbn [emitted_ok fst]. intros d; discriminate.
  - rewrite firstn_length_self. split; [reflexivity|]. cbn [emitted_ok fst]. intros d; discriminate.
Qed.

Theorem so_run_inv hdr ops :
  10 <= lenN hdr <= 20 ->
  fst (so_run hdr ops) = hdr /\ Forall2 (emitted_ok hdr) ops (snd (so_run hdr ops)).
Proof.
  intros Hh. induction ops as [|[d ok] r IH]; cbn [so_run]; [split; [reflexivity|constructor]|].
  destruct (so_write_inv hdr d ok Hh) as [Hb He].
  destruct (so_write hdr d ok) as [buf' o] eqn:Ew. cbn [fst snd] in Hb, He. subst buf'.
  destruct (so_run hdr r) as [buf'' os] eqn:Er. cbn [fst snd] in IH |- *.
  destruct IH as [IH1 IH2]. split; [exact IH1|]. constructor; assumption.
Qed.

Definition is_ref (s : schema) : bool := match s with SRef _ => true | _ => false end.

(* the writer's enclosing namespace (the root's own) and the reader's (None) denote the same scope *)
Lemma agree_root s : is_ref s = false -> agree (schema_ns s) None s.
Proof.
  intros Hr. destruct s; cbn [agree schema_ns schema_name]; try reflexivity; try exact I; try discriminate.
  - (* record *) unfold ns_or, fqn. destruct (ns n) eqn:E; cbn [ns]; rewrite ?E; reflexivity.
  - destruct inner; [reflexivity|exact I].
  - destruct u; try reflexivity; exact I.
Qed.

Theorem so_message_roundtrip (c : cfg) (nmz : names) (find : find_fn) (s : schema) (v : value) (fuel : nat) (hdr : bytes) :
  names_ok nmz -> is_ref s = false ->
  conforms fuel c nmz None s v = true ->
  exists d, so_datum fuel find nmz s v = Ok d /\
    forall fd rest, (fuel <= fd)%nat -> so_read fd c nmz s hdr (hdr ++ d ++ rest) = Ok (v, rest).
Proof.
  intros Hok Hr Hc.
  destruct (roundtrip_gen c nmz Hok fuel s v (schema_ns s) None (agree_root s Hr) Hc) as (d & Hd & Hdec).
  exists d. split.
  - unfold so_datum.
    rewrite (conforms_validates c nmz find fuel s v (schema_ns s) None (agree_root s Hr) Hc).
    cbn [bind]. exact Hd.
  - intros fd rest Hfd. unfold so_read. rewrite take_app, bytes_eqb_refl. apply Hdec. exact Hfd.
Qed.

Lemma so_read_foreign fuel c nmz s hdr hdr' body :
  lenN hdr' = lenN hdr -> hdr' <> hdr -> so_read fuel c nmz s hdr (hdr' ++ body) = Err.
Proof.
  intros Hl Hne. unfold so_read. rewrite <- Hl, take_app.
  destruct (bytes_eqb hdr' hdr) eqn:E; [|reflexivity]. apply bytes_eqb_eq in E. contradiction.
Qed.

Lemma take_short n bs : lenN bs < n -> take n bs = None.
Proof.
  revert n. induction bs as [|b bs IH]; intros n H; cbn [take].
  - rewrite lenN_nil in H. assert (E : (n =? 0) = false) by lia. rewrite E. reflexivity.
  - rewrite lenN_cons in H. assert (E : (n =? 0) = false) by lia. rewrite E.
    rewrite IH by lia. reflexivity.
Qed.

Lemma so_read_short fuel c nmz s hdr msg :
  lenN msg < lenN hdr -> so_read fuel c nmz s hdr msg = Err.
Proof. intros H. unfold so_read. rewrite take_short by exact H. reflexivity. Qed.

Lemma so_header_layout pcf : all_bytes pcf = true ->
  so_header pcf = [0xC3; 0x01] ++ le_bytes 8 (crc64_avro pcf) /\ lenN (so_header pcf) = 10.
Proof.
  intros H. unfold so_header, rabin_digest. rewrite rabin_is_crc64 by exact H. split; [reflexivity|].
  rewrite lenN_app. unfold lenN. rewrite le_bytes_length. reflexivity.
Qed.
