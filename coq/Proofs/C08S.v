(* C08, idempotence beyond leaves: on schemas built from leaves (every primitive, enum and logical
   type; plain fixed is excluded because a string read as a fixed is not idempotent, finding F-class
   string_for_fixed), arrays, maps and records with distinct field names - at every depth - resolving
   an already resolved value changes nothing.  Unions and references are outside this fragment. *)
From AvroV Require Import Base Varint Schema Bytes Names Floats Codec Conforms Validate SingleObject Resolve Resolution Compat.
From AvroV Require Import BytesP DecodedP C08P C09P C09S.
From Coq Require Import ZifyN ZifyBool ZifyNat.
Open Scope N_scope.

Fixpoint idemb (fuel : nat) (s : schema) {struct fuel} : bool :=
  match fuel with
  | O => false
  | S f =>
    match s with
    | SArray it _ => idemb f it
    | SMap vt _ => idemb f vt
    | SRecord _ _ _ fs _ =>
      nodup_strs (map (fun ms : fmeta * schema => f_name (fst ms)) fs)
      && forallb (fun ms : fmeta * schema => idemb f (snd ms)) fs
    | SUnion _ | SRef _ | SFixed _ => false
    | _ => true
    end
  end.

Definition non_union (s : schema) : bool := match s with SUnion _ => false | _ => true end.

Lemma map_res_idem {A} (g : A -> res A) : forall l l',
  (forall x y, In x l -> g x = Ok y -> g y = Ok y) ->
  Resolve.map_res g l = Ok l' -> Resolve.map_res g l' = Ok l'.
Proof.
  induction l as [|x r IH]; intros l' Hg H; cbn [Resolve.map_res] in H.
  - injection H as <-. reflexivity.
  - destruct (g x) as [y| | |] eqn:Ey; cbn [bind] in H; try discriminate H.
    destruct (Resolve.map_res g r) as [r'| | |] eqn:Er; cbn [bind] in H; try discriminate H.
    injection H as <-. cbn [Resolve.map_res]. rewrite (Hg x y (or_introl eq_refl) Ey). cbn [bind].
    rewrite (IH r' (fun a b Ha => Hg a b (or_intror Ha)) eq_refl). reflexivity.
Qed.

(* a record whose entries are aligned with the reader's fields, each already resolved, resolves to itself *)
Lemma resolve_fields_aligned (r : schema -> value -> res value) jv : forall fs out,
  Forall2 (fun (ms : fmeta * schema) (o : str * value) =>
             fst o = f_name (fst ms) /\ r (snd ms) (snd o) = Ok (snd o)) fs out ->
  resolve_fields r jv fs out = Ok out.
Proof.
  induction fs as [|[m fsch] rest IH]; intros out H; inversion H as [|ms o fs' out' Hh Ht]; subst; [reflexivity|].
  destruct o as [k y]. cbn [fst snd] in Hh. destruct Hh as [-> Hy].
  cbn [resolve_fields lookup remove_key]. rewrite bytes_eqb_refl. cbn [bind]. rewrite Hy. cbn [bind].
  rewrite (IH out' Ht). reflexivity.
Qed.

Lemma forall2_keys (P : fmeta * schema -> str * value -> Prop) fs out :
  Forall2 P fs out -> (forall ms o, P ms o -> fst o = f_name (fst ms)) ->
  map fst out = map (fun ms : fmeta * schema => f_name (fst ms)) fs.
Proof.
  intros H Hp. induction H as [|ms o fs' out' Hh Ht IH]; [reflexivity|].
  cbn [map]. rewrite (Hp _ _ Hh), IH. reflexivity.
Qed.

Lemma shape_to_aligned (r : schema -> value -> res value) fs out :
  Forall2 (fun (ms : fmeta * schema) (o : str * value) =>
             fst o = f_name (fst ms) /\ exists x, r (snd ms) x = Ok (snd o)) fs out ->
  (forall ms, In ms fs -> forall x y, r (snd ms) x = Ok y -> r (snd ms) y = Ok y) ->
  Forall2 (fun (ms : fmeta * schema) (o : str * value) =>
             fst o = f_name (fst ms) /\ r (snd ms) (snd o) = Ok (snd o)) fs out.
Proof.
  intros H. induction H as [|ms o fs' out' Hh Ht IHsh]; intros Hr; [constructor|].
  constructor.
  - destruct Hh as [Hf (x & Hx)]. split; [exact Hf|]. exact (Hr ms (or_introl eq_refl) x (snd o) Hx).
  - apply IHsh. intros ms' Hm. apply Hr. right. exact Hm.
Qed.

Theorem resolve_idempotent : forall fuel c nmz ens s v v',
  idemb fuel s = true -> resolve fuel c nmz ens s v = Ok v' -> resolve fuel c nmz ens s v' = Ok v'.
Proof.
  induction fuel as [|f IH]; intros c nmz ens s v v' Hi H; [discriminate Hi|].
  destruct s; try discriminate Hi;
    try (apply (leaf_idempotent c nmz ens f _ v v'); [reflexivity|destruct v; reflexivity|exact H]; fail).
  - (* array *)
    cbn [idemb] in Hi.
    assert (U : forall x, resolve (S f) c nmz ens (SArray s a) x =
                          match unwrap x with
                          | VArray l => do l' <- Resolve.map_res (resolve f c nmz ens s) l; Ok (VArray l')
                          | _ => Err end) by (intros []; reflexivity).
    rewrite U in H. destruct (unwrap v) as [| | | | | | | | | | | | | | | | | | | | | |l| | | |] eqn:Eu; try discriminate H.
    destruct (Resolve.map_res (resolve f c nmz ens s) l) as [l'| | |] eqn:El; cbn [bind] in H; try discriminate H.
    injection H as <-. rewrite U. cbn [unwrap].
    rewrite (map_res_idem (resolve f c nmz ens s) l l' (fun x y _ Hx => IH c nmz ens s x y Hi Hx) El). reflexivity.
  - (* map *)
    cbn [idemb] in Hi.
    set (g := fun kv : str * value => do y <- resolve f c nmz ens s (snd kv); Ok (fst kv, y)).
    assert (U : forall x, resolve (S f) c nmz ens (SMap s a) x =
                          match unwrap x with
                          | VMap l => do l' <- Resolve.map_res g l; Ok (VMap l')
                          | _ => Err end) by (intros []; reflexivity).
    rewrite U in H. destruct (unwrap v) as [| | | | | | | | | | | | | | | | | | | | | | |l| | |] eqn:Eu; try discriminate H.
    destruct (Resolve.map_res g l) as [l'| | |] eqn:El; cbn [bind] in H; try discriminate H.
    injection H as <-. rewrite U. cbn [unwrap].
    rewrite (map_res_idem g l l'); [reflexivity| |exact El].
    intros [k x] [k' y] _ Hx. unfold g in Hx |- *. cbn [fst snd] in Hx |- *.
    destruct (resolve f c nmz ens s x) as [y0| | |] eqn:Ey; cbn [bind] in Hx; try discriminate Hx.
    injection Hx as <- <-. rewrite (IH c nmz ens s x y0 Hi Ey). reflexivity.
  - (* record *)
    cbn [idemb] in Hi. apply andb_prop in Hi. destruct Hi as [Hnd Hall].
    set (rf := resolve_fields (resolve f c nmz (ns_or n ens)) (json_to_value f) fields).
    assert (U : forall x, resolve (S f) c nmz ens (SRecord n al doc fields a) x =
                          match (match unwrap x with
                                 | VMap l => Some l | VRecord l => Some (map_of_list l) | _ => None end) with
                          | None => Err
                          | Some items => do l <- rf items; Ok (VRecord l)
                          end) by (intros []; reflexivity).
    rewrite U in H.
    destruct (match unwrap v with VMap l => Some l | VRecord l => Some (map_of_list l) | _ => None end)
      as [items|] eqn:Ei; [|discriminate H].
    destruct (rf items) as [out| | |] eqn:Eo; cbn [bind] in H; try discriminate H.
    injection H as <-. rewrite U. cbn [unwrap]. unfold rf in Eo |- *.
    pose proof (resolve_fields_shape _ _ _ _ _ Eo) as Hsh.
    assert (Hk : map fst out = map (fun ms : fmeta * schema => f_name (fst ms)) fields).
    { eapply forall2_keys; [exact Hsh|]. intros ms o [Hf _]. exact Hf. }
    rewrite (map_of_list_nodup out) by (rewrite Hk; exact Hnd).
    rewrite (resolve_fields_aligned (resolve f c nmz (ns_or n ens)) (json_to_value f) fields out); [reflexivity|].
    rewrite forallb_forall in Hall.
    apply shape_to_aligned; [exact Hsh|].
    intros ms Hm x y Hx. exact (IH c nmz (ns_or n ens) (snd ms) x y (Hall ms Hm) Hx).
Qed.

(* ---- the result validates against the reader schema ---- *)
Fixpoint validb (fuel : nat) (s : schema) {struct fuel} : bool :=
  match fuel with
  | O => false
  | S f =>
    match s with
    | SArray it _ => validb f it
    | SMap vt _ => validb f vt
    | SRecord _ _ _ fs _ =>
      nodup_strs (map (fun ms : fmeta * schema => f_name (fst ms)) fs)
      && forallb (fun ms : fmeta * schema => validb f (snd ms)) fs
    | SEnum _ _ _ symbols _ _ => lenN symbols <? 2 ^ 32
    | SUnion _ | SRef _ | SFixed _ => false
    | _ => true
    end
  end.

Lemma position_nth {A} (p : A -> bool) : forall l k,
  position p l = Some k -> exists y, nth_N l (N.of_nat k) = Some y /\ p y = true.
Proof.
  induction l as [|a l IH]; intros k H; cbn [position] in H; [discriminate H|].
  destruct (p a) eqn:Ea.
  - injection H as <-. exists a. split; [reflexivity|exact Ea].
  - destruct (position p l) as [j|] eqn:Ej; [|discriminate H]. injection H as <-.
    destruct (IH j eq_refl) as (y & Hy & Hp). exists y. split; [|exact Hp].
    cbn [nth_N]. replace (N.of_nat (S j) =? 0) with false by lia.
    replace (N.of_nat (S j) - 1) with (N.of_nat j) by lia. exact Hy.
Qed.

Lemma enum_validates symbols dflt v v' g find nmz ens n al doc a :
  lenN symbols <? 2 ^ 32 = true ->
  resolve_enum symbols dflt v = Ok v' ->
  validate (S g) find nmz ens (SEnum n al doc symbols dflt a) v' = Ok true.
Proof.
  intros Hl H. unfold lenN in Hl.
  assert (K : forall sym k, position (bytes_eqb sym) symbols = Some k ->
              validate (S g) find nmz ens (SEnum n al doc symbols dflt a) (VEnum (N.of_nat k mod 2 ^ 32) sym) = Ok true).
  { intros sym k Hp. pose proof (position_lt _ _ _ Hp) as Hk. rewrite N.mod_small by lia.
    destruct (position_nth _ _ _ Hp) as (y & Hy & Hpy). cbn [validate]. rewrite Hy.
    rewrite bytes_eqb_sym, Hpy. reflexivity. }
  unfold resolve_enum in H.
  destruct v; try discriminate H.
  all: match type of H with
       | match position (bytes_eqb ?s0) ?sy with _ => _ end = _ =>
         destruct (position (bytes_eqb s0) sy) as [k|] eqn:Ep;
           [injection H as <-; exact (K _ _ Ep)|]
       end.
  all: match type of H with
       | match ?df with Some _ => _ | None => _ end = _ => destruct df as [d|]; [|discriminate H]
       end.
  all: match type of H with
       | match position (bytes_eqb ?d0) ?sy with _ => _ end = _ =>
         destruct (position (bytes_eqb d0) sy) as [k|] eqn:Ed; [|discriminate H]
       end.
  all: injection H as <-; exact (K _ _ Ed).
Qed.

Lemma all_res_true {A} (p : A -> res bool) l : (forall x, In x l -> p x = Ok true) -> all_res p l = Ok true.
Proof.
  induction l as [|x r IH]; intros H; [reflexivity|]. cbn [all_res].
  rewrite (H x (or_introl eq_refl)). cbn [bind]. rewrite (IH (fun y Hy => H y (or_intror Hy))). reflexivity.
Qed.

Lemma map_res_In {A B} (g : A -> res B) : forall l l' y,
  Resolve.map_res g l = Ok l' -> In y l' -> exists x, In x l /\ g x = Ok y.
Proof.
  induction l as [|x r IH]; intros l' y H Hy; cbn [Resolve.map_res] in H.
  - injection H as <-. destruct Hy.
  - destruct (g x) as [y0| | |] eqn:Ey; cbn [bind] in H; try discriminate H.
    destruct (Resolve.map_res g r) as [r'| | |] eqn:Er; cbn [bind] in H; try discriminate H.
    injection H as <-. destruct Hy as [<-|Hy].
    + exists x. split; [left; reflexivity|exact Ey].
    + destruct (IH r' y eq_refl Hy) as (x' & Hx' & Hg). exists x'. split; [right; exact Hx'|exact Hg].
Qed.

Lemma field_index_nodup k fsch : forall fs,
  NoDup (map (fun ms : fmeta * schema => f_name (fst ms)) fs) ->
  (exists m, In (m, fsch) fs /\ f_name m = k) -> field_index k fs = Some fsch.
Proof.
  induction fs as [|[m0 s0] fs IH]; intros Hnd (m & Hin & Hk); [destruct Hin|].
  cbn [map fst] in Hnd. apply NoDup_cons_iff in Hnd. destruct Hnd as [Hnotin Hnd].
  cbn [field_index]. destruct Hin as [Heq|Hin].
  - injection Heq as -> ->. rewrite Hk, bytes_eqb_refl. reflexivity.
  - destruct (bytes_eqb k (f_name m0)) eqn:E.
    + apply bytes_eqb_eq in E. exfalso. apply Hnotin. rewrite <- E, <- Hk.
      apply (in_map (fun ms : fmeta * schema => f_name (fst ms)) fs (m, fsch)). exact Hin.
    + apply IH; [exact Hnd|]. exists m. split; assumption.
Qed.

Lemma forall2_in_r {A B} (P : A -> B -> Prop) l1 l2 y :
  Forall2 P l1 l2 -> In y l2 -> exists x, In x l1 /\ P x y.
Proof.
  intros H. induction H as [|a b l1' l2' Hab Ht IH]; intros Hy; [destruct Hy|].
  destruct Hy as [<-|Hy]; [exists a; split; [left; reflexivity|exact Hab]|].
  destruct (IH Hy) as (x & Hx & Hp). exists x. split; [right; exact Hx|exact Hp].
Qed.

Lemma leaf_validates c nmz ens f s v v' g find nmz' ens' :
  validb 1 s = true -> leaf_schema s = true ->
  resolve (S f) c nmz ens s v = Ok v' -> validate (S g) find nmz' ens' s v' = Ok true.
Proof.
  intros Hv Hl H.
  destruct s; try discriminate Hl; try discriminate Hv.
  all: try match goal with
       | |- validate _ _ _ _ (SEnum ?n ?al ?doc ?symbols ?d ?a) _ = _ =>
         assert (U : forall x, resolve (S f) c nmz ens (SEnum n al doc symbols d a) x
                          = resolve_enum symbols d (unwrap x)) by (intros []; reflexivity);
         rewrite U in H; cbn [validb] in Hv; eapply enum_validates; [exact Hv|exact H]
       | |- validate _ _ _ _ (SDecimal ?p ?sc ?inner) _ = _ =>
         assert (U : forall x, resolve (S f) c nmz ens (SDecimal p sc inner) x
                          = resolve_decimal p sc inner (unwrap x)) by (intros []; reflexivity);
         rewrite U in H; unfold resolve_decimal in H;
         destruct (p <? sc); [discriminate H|];
         destruct (negb match inner with DFixed fx => negb (max_prec_for_len (fx_size fx) <? p) | DBytes => true end);
           [discriminate H|];
         destruct (unwrap v); try discriminate H; crunch H; reflexivity
       | |- validate _ _ _ _ SBigDecimal _ = _ =>
         assert (U : forall x, resolve (S f) c nmz ens SBigDecimal x = resolve_bigdecimal c (unwrap x)) by (intros []; reflexivity);
         rewrite U in H; unfold resolve_bigdecimal, dec_bigdec in H;
         destruct (unwrap v) as [| | | | | |bb| | | | | | | | | | | | | | | | | | | |]; try discriminate H;
         [destruct (dec_bytes c bb) as [[u r]| | |]; cbn [bind] in H; try discriminate H;
          destruct (dec_long r) as [z r'| |]; try discriminate H; injection H as <-; reflexivity
         |injection H as <-; reflexivity]
       | |- validate _ _ _ _ (SUuid ?u) _ = _ =>
         assert (U : forall x, resolve (S f) c nmz ens (SUuid u) x = resolve_uuid u (unwrap x)) by (intros []; reflexivity);
         rewrite U in H; unfold resolve_uuid in H;
         destruct (unwrap v); destruct u; try discriminate H; crunch H; reflexivity
       end.
  all: destruct v; try (cbn in H; discriminate H).
  all: try (cbn in H; crunch H; reflexivity).
  all: try (cbn in H; destruct v; try discriminate H; crunch H; reflexivity).
Qed.

Lemma forall2_length {A B} (P : A -> B -> Prop) l1 l2 : Forall2 P l1 l2 -> length l1 = length l2.
Proof. intros H. induction H as [|a b l1' l2' _ _ IH]; [reflexivity|cbn [length]; rewrite IH; reflexivity]. Qed.

Lemma filter_length_le {A} (p : A -> bool) l : (length (filter p l) <= length l)%nat.
Proof. induction l as [|a l IH]; cbn [filter length]; [lia|]. destruct (p a); cbn [length]; lia. Qed.

Theorem resolve_validates : forall fuel c nmz ens s v v' find nmz' ens',
  validb fuel s = true -> resolve fuel c nmz ens s v = Ok v' -> validate fuel find nmz' ens' s v' = Ok true.
Proof.
  induction fuel as [|f IH]; intros c nmz ens s v v' find nmz' ens' Hi H; [discriminate Hi|].
  destruct s; try discriminate Hi;
    try (apply (leaf_validates c nmz ens f _ v v' f find nmz' ens'); [exact Hi|reflexivity|exact H]; fail).
  - (* array *)
    cbn [validb] in Hi.
    assert (U : forall x, resolve (S f) c nmz ens (SArray s a) x =
                          match unwrap x with
                          | VArray l => do l' <- Resolve.map_res (resolve f c nmz ens s) l; Ok (VArray l')
                          | _ => Err end) by (intros []; reflexivity).
    rewrite U in H. destruct (unwrap v) as [| | | | | | | | | | | | | | | | | | | | | |l| | | |] eqn:Eu; try discriminate H.
    destruct (Resolve.map_res (resolve f c nmz ens s) l) as [l'| | |] eqn:El; cbn [bind] in H; try discriminate H.
    injection H as <-. cbn [validate]. apply all_res_true. intros y Hy.
    destruct (map_res_In _ _ _ _ El Hy) as (x & _ & Hx).
    exact (IH c nmz ens s x y find nmz' ens' Hi Hx).
  - (* map *)
    cbn [validb] in Hi.
    set (g := fun kv : str * value => do y <- resolve f c nmz ens s (snd kv); Ok (fst kv, y)).
    assert (U : forall x, resolve (S f) c nmz ens (SMap s a) x =
                          match unwrap x with
                          | VMap l => do l' <- Resolve.map_res g l; Ok (VMap l')
                          | _ => Err end) by (intros []; reflexivity).
    rewrite U in H. destruct (unwrap v) as [| | | | | | | | | | | | | | | | | | | | | | |l| | |] eqn:Eu; try discriminate H.
    destruct (Resolve.map_res g l) as [l'| | |] eqn:El; cbn [bind] in H; try discriminate H.
    injection H as <-. cbn [validate]. apply all_res_true. intros [k y] Hy.
    destruct (map_res_In _ _ _ _ El Hy) as ([k0 x] & _ & Hx). unfold g in Hx. cbn [fst snd] in Hx |- *.
    destruct (resolve f c nmz ens s x) as [y0| | |] eqn:Ey; cbn [bind] in Hx; try discriminate Hx.
    injection Hx as _ <-. exact (IH c nmz ens s x y0 find nmz' ens' Hi Ey).
  - (* record *)
    cbn [validb] in Hi. apply andb_prop in Hi. destruct Hi as [Hnd Hall].
    set (rf := resolve_fields (resolve f c nmz (ns_or n ens)) (json_to_value f) fields).
    assert (U : forall x, resolve (S f) c nmz ens (SRecord n al doc fields a) x =
                          match (match unwrap x with
                                 | VMap l => Some l | VRecord l => Some (map_of_list l) | _ => None end) with
                          | None => Err
                          | Some items => do l <- rf items; Ok (VRecord l)
                          end) by (intros []; reflexivity).
    rewrite U in H.
    destruct (match unwrap v with VMap l => Some l | VRecord l => Some (map_of_list l) | _ => None end)
      as [items|] eqn:Ei; [|discriminate H].
    destruct (rf items) as [out| | |] eqn:Eo; cbn [bind] in H; try discriminate H.
    injection H as <-. unfold rf in Eo.
    pose proof (resolve_fields_shape _ _ _ _ _ Eo) as Hsh.
    pose proof (forall2_length _ _ _ Hsh) as Hlen.
    pose proof (filter_length_le (fun ms : fmeta * schema => negb (field_nullable (snd ms))) fields) as Hfl.
    cbn [validate].
    replace (length out <? length (filter (fun ms : fmeta * schema => negb (field_nullable (snd ms))) fields))%nat
      with false by (symmetry; apply Nat.ltb_ge; lia).
    replace (length fields <? length out)%nat with false by (symmetry; apply Nat.ltb_ge; lia).
    apply all_res_true. intros [k y] Hy.
    destruct (forall2_in_r _ _ _ _ Hsh Hy) as ([m fsch] & Hm & Hk & x & Hx). cbn [fst snd] in Hk, Hx |- *.
    rewrite (field_index_nodup k fsch fields (nodup_strs_NoDup' _ Hnd)) by (exists m; split; [exact Hm|symmetry; exact Hk]).
    rewrite forallb_forall in Hall.
    exact (IH c nmz (ns_or n ens) fsch x y find nmz' (ns_or n ens') (Hall (m, fsch) Hm) Hx).
Qed.
