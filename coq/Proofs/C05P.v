(* Lemmas for C05: the decoder model never produces Panic, and every length or count declared in the
   data is compared with the allocation limit before anything is taken from the input. *)
From AvroV Require Import Base Varint Schema Bytes Names Codec BytesP.
From Coq Require Import ZifyN ZifyBool ZifyNat.
Open Scope N_scope.

Definition nopanic {A} (r : res A) : Prop := r <> Panic.

Lemma np_of_option {A} (o : option A) : nopanic (of_option o).
Proof. destruct o; discriminate. Qed.
Lemma np_dec_len c bs : nopanic (dec_len c bs).
Proof. unfold dec_len. destruct (dec_long bs) as [z r| |]; try discriminate. destruct (z <? 0)%Z; [discriminate|]. destruct (safe_len c (Z.to_N z)); discriminate. Qed.
Lemma np_dec_bytes c bs : nopanic (dec_bytes c bs).
Proof.
  unfold dec_bytes. pose proof (np_dec_len c bs) as H. destruct (dec_len c bs) as [[n r]| | |]; cbn [bind]; try discriminate; [apply np_of_option|contradiction].
Qed.
Lemma np_dec_string c bs : nopanic (dec_string c bs).
Proof.
  unfold dec_string. pose proof (np_dec_bytes c bs) as H. destruct (dec_bytes c bs) as [[b r]| | |]; cbn [bind]; try discriminate; [|contradiction].
  destruct (utf8_ok b); discriminate.
Qed.
Lemma np_dec_fixed n bs : nopanic (dec_fixed n bs).
Proof. apply np_of_option. Qed.
Lemma np_dec_bigdec c bs : nopanic (dec_bigdec c bs).
Proof.
  unfold dec_bigdec. pose proof (np_dec_bytes c bs) as H. destruct (dec_bytes c bs) as [[u r]| | |]; cbn [bind]; try discriminate; [|contradiction].
  destruct (dec_long r) as [z r'| |]; discriminate.
Qed.
Lemma np_lift f l : nopanic (lift_long f l).
Proof. destruct l; discriminate. Qed.
Lemma np_dec_seq_len c bs : nopanic (dec_seq_len c bs).
Proof.
  unfold dec_seq_len. destruct (dec_long bs) as [z r| |]; try discriminate.
  destruct (z =? 0)%Z; [discriminate|]. destruct (z <? 0)%Z.
  - destruct (dec_long r) as [z' r'| |]; try discriminate. destruct (z =? - 2 ^ 63)%Z; [discriminate|]. destruct (safe_len c (Z.to_N (- z))); discriminate.
  - destruct (safe_len c (Z.to_N z)); discriminate.
Qed.

Lemma np_dec_pos {A} (d : bytes -> res (A * bytes)) : (forall b, nopanic (d b)) -> forall p bs, nopanic (dec_pos d p bs).
Proof.
  intros Hd. induction p as [q IH|q IH|]; intros bs; cbn [dec_pos].
  - pose proof (Hd bs) as H0. destruct (d bs) as [[x r0]| | |]; cbn [bind]; try discriminate; [|contradiction].
    pose proof (IH r0) as H1. destruct (dec_pos d q r0) as [[xs r]| | |]; cbn [bind]; try discriminate; [|contradiction].
    pose proof (IH r) as H2. destruct (dec_pos d q r) as [[ys r']| | |]; cbn [bind]; try discriminate. contradiction.
  - pose proof (IH bs) as H1. destruct (dec_pos d q bs) as [[xs r]| | |]; cbn [bind]; try discriminate; [|contradiction].
    pose proof (IH r) as H2. destruct (dec_pos d q r) as [[ys r']| | |]; cbn [bind]; try discriminate. contradiction.
  - pose proof (Hd bs) as H0. destruct (d bs) as [[x r]| | |]; cbn [bind]; try discriminate. contradiction.
Qed.
Lemma np_dec_count {A} (d : bytes -> res (A * bytes)) n bs : (forall b, nopanic (d b)) -> nopanic (dec_count d n bs).
Proof. intros Hd. destruct n; cbn [dec_count]; [discriminate|apply np_dec_pos; exact Hd]. Qed.

Lemma np_dec_blocks {A} c esize (d : bytes -> res (A * bytes)) : (forall b, nopanic (d b)) ->
  forall g have bs, nopanic (dec_blocks c esize d g have bs).
Proof.
  intros Hd. induction g as [|g IH]; intros have bs; cbn [dec_blocks]; [discriminate|].
  pose proof (np_dec_seq_len c bs) as H0. destruct (dec_seq_len c bs) as [[n r]| | |]; cbn [bind]; try discriminate; [|contradiction].
  destruct (n =? 0); [discriminate|]. destruct (safe_coll c esize (have + n)); [|discriminate].
  pose proof (np_dec_count d n r Hd) as H1. destruct (dec_count d n r) as [[xs r']| | |]; cbn [bind]; try discriminate; [|contradiction].
  pose proof (IH (have + n) r') as H2. destruct (dec_blocks c esize d g (have + n) r') as [[ys r'']| | |]; cbn [bind]; try discriminate. contradiction.
Qed.

Lemma np_dec_fields (d : schema -> bytes -> res (value * bytes)) : (forall s b, nopanic (d s b)) ->
  forall fs bs, nopanic (dec_fields d fs bs).
Proof.
  intros Hd. induction fs as [|[m s] fs IH]; intros bs; cbn [dec_fields]; [discriminate|].
  pose proof (Hd s bs) as H0. destruct (d s bs) as [[x r]| | |]; cbn [bind]; try discriminate; [|contradiction].
  pose proof (IH r) as H1. destruct (dec_fields d fs r) as [[xs r']| | |]; cbn [bind]; try discriminate. contradiction.
Qed.

Ltac np_bind H := match goal with
  | |- nopanic (bind ?r _) => let E := fresh "E" in pose proof H as E; destruct r as [[? ?]| | |]; cbn [bind]; try discriminate; try contradiction
  end.

Theorem decode_no_panic : forall fuel c nmz ens s bs, nopanic (decode fuel c nmz ens s bs).
Proof.
  induction fuel as [|f IH]; intros c nmz ens s bs; cbn [decode]; [discriminate|].
  destruct s.
  - discriminate.
  - destruct bs as [|b r]; [discriminate|]. destruct (b =? 0); [discriminate|]. destruct (b =? 1); discriminate.
  - apply np_lift.
  - apply np_lift.
  - destruct (take 4 bs) as [[b r]|]; discriminate.
  - destruct (take 8 bs) as [[b r]|]; discriminate.
  - np_bind (np_dec_bytes c bs).
  - np_bind (np_dec_string c bs).
  - (* array *)
    pose proof (np_dec_blocks c (vsize c) (decode f c nmz ens s) (fun b => IH c nmz ens s b) (S (length bs)) 0 bs) as H.
    destruct (dec_blocks c (vsize c) (decode f c nmz ens s) (S (length bs)) 0 bs) as [[l r]| | |]; cbn [bind]; try discriminate. contradiction.
  - (* map *)
    assert (Hd : forall b, nopanic (do (k, r1) <- dec_string c b; do (x, r2) <- decode f c nmz ens s r1; Ok ((k, x), r2))).
    { intros b. pose proof (np_dec_string c b) as E0. destruct (dec_string c b) as [[k r1]| | |]; cbn [bind]; try discriminate; [|contradiction].
      pose proof (IH c nmz ens s r1) as E1. destruct (decode f c nmz ens s r1) as [[x r2]| | |]; cbn [bind]; try discriminate. contradiction. }
    pose proof (np_dec_blocks c (kvsize c) _ Hd (S (length bs)) 0 bs) as H.
    match goal with |- nopanic (bind ?rr _) => destruct rr as [[ll rest]| | |]; cbn [bind]; try discriminate end. contradiction.
  - (* union *)
    destruct (dec_long bs) as [z r| |]; try discriminate. destruct (z <? 0)%Z; [discriminate|].
    destruct (nth_N branches (Z.to_N z)) as [b|]; [|discriminate]. np_bind (IH c nmz ens b r).
  - (* record *)
    pose proof (np_dec_fields (decode f c nmz (ns (fqn n ens))) (fun s b => IH c nmz _ s b) fields bs) as H.
    destruct (dec_fields (decode f c nmz (ns (fqn n ens))) fields bs) as [[l r]| | |]; cbn [bind]; try discriminate. contradiction.
  - (* enum *)
    destruct (dec_int bs) as [z r| |]; try discriminate. destruct (z <? 0)%Z; [discriminate|]. destruct (nth_N symbols (Z.to_N z)); discriminate.
  - np_bind (np_dec_fixed (fx_size f0) bs).
  - destruct inner as [|fx].
    + np_bind (np_dec_bytes c bs).
    + np_bind (np_dec_fixed (fx_size fx) bs).
  - np_bind (np_dec_bytes c bs). pose proof (np_dec_bigdec c l) as E1. destruct (dec_bigdec c l) as [v| | |]; cbn [bind]; try discriminate. contradiction.
  - destruct u as [| |fx].
    + np_bind (np_dec_string c bs). destruct (uuid_parse l); discriminate.
    + np_bind (np_dec_bytes c bs). destruct (lenN l =? 16); discriminate.
    + np_bind (np_dec_fixed (fx_size fx) bs). destruct (fx_size fx =? 16); discriminate.
  - apply np_lift.
  - apply np_lift.
  - apply np_lift.
  - apply np_lift.
  - apply np_lift.
  - apply np_lift.
  - apply np_lift.
  - apply np_lift.
  - apply np_lift.
  - destruct (fx_size f0 =? 12); [|discriminate].
    destruct (take 4 bs) as [[m r1]|]; [|discriminate]. destruct (take 4 r1) as [[d r2]|]; [|discriminate].
    destruct (take 4 r2) as [[ms r3]|]; discriminate.
  - destruct (names_get (fqn n ens) nmz) as [s'|]; [apply IH|discriminate].
Qed.

(* a declared length above the allocation limit is refused before a byte of payload is looked at *)
Lemma dec_len_limit c bs n r : dec_len c bs = Ok (n, r) -> n <= max_alloc c.
Proof.
  unfold dec_len. destruct (dec_long bs) as [z r0| |]; try discriminate. destruct (z <? 0)%Z; [discriminate|].
  destruct (safe_len c (Z.to_N z)) eqn:E; [|discriminate]. intros H. injection H as <- <-. unfold safe_len in E. lia.
Qed.

Lemma dec_bytes_limit c bs b r : dec_bytes c bs = Ok (b, r) -> lenN b <= max_alloc c.
Proof.
  unfold dec_bytes. destruct (dec_len c bs) as [[n r0]| | |] eqn:E; cbn [bind]; try discriminate.
  destruct (take n r0) as [[b' r']|] eqn:Et; cbn [of_option]; [|discriminate]. intros H. injection H as <- <-.
  apply take_spec in Et. destruct Et as [_ Hl]. rewrite Hl. exact (dec_len_limit _ _ _ _ E).
Qed.

Lemma dec_seq_len_limit c bs n r : dec_seq_len c bs = Ok (n, r) -> n <= max_alloc c.
Proof.
  unfold dec_seq_len. destruct (dec_long bs) as [z r0| |]; try discriminate.
  destruct (z =? 0)%Z; [intros H; injection H as <- <-; lia|]. destruct (z <? 0)%Z.
  - destruct (dec_long r0) as [z' r1| |]; try discriminate. destruct (z =? - 2 ^ 63)%Z; [discriminate|].
    destruct (safe_len c (Z.to_N (- z))) eqn:E; [|discriminate]. intros H. injection H as <- <-. unfold safe_len in E. lia.
  - destruct (safe_len c (Z.to_N z)) eqn:E; [|discriminate]. intros H. injection H as <- <-. unfold safe_len in E. lia.
Qed.

(* the running total of items times the size of one item stays within the limit at every block *)
Lemma dec_blocks_guard {A} c esize (d : bytes -> res (A * bytes)) g have bs n r :
  dec_seq_len c bs = Ok (n, r) -> n <> 0 -> safe_coll c esize (have + n) = false ->
  dec_blocks c esize d (S g) have bs = Err.
Proof.
  intros H Hn Hs. cbn [dec_blocks]. rewrite H. cbn [bind].
  assert (E : (n =? 0) = false) by lia. rewrite E, Hs. reflexivity.
Qed.
