(* Padded longs at the datum level: read as the long by the decoder, and outside the specification relation. *)
From AvroV Require Import Base Varint Schema Bytes Names Codec Conforms BinEnc.
From AvroV Require Import VarintP SpecP PaddedP.
From Coq Require Import ZifyN ZifyBool ZifyNat.
Open Scope N_scope.

Lemma spec_long_is_enc nmz ens v bs : spec nmz ens SLong v bs -> exists z, v = VLong z /\ bs = enc_long z /\ in_i64 z = true.
Proof.
  intros Hs. remember SLong as s eqn:Es. destruct Hs; try discriminate Es.
  match goal with H : slong _ _ |- _ => apply slong_is_enc in H as [-> Hi] end.
  eexists. split; [reflexivity|]. split; [reflexivity|exact Hi].
Qed.

Theorem padded_outside_spec nmz ens z p b k v :
  in_i64 z = true -> enc_long z = p ++ [b] -> (length p + k + 2 <= 10)%nat ->
  ~ spec nmz ens SLong v (p ++ padding b k).
Proof.
  intros Hz E Hl Hs. apply spec_long_is_enc in Hs as (z' & _ & E' & Hz').
  pose proof (long_padded_decodes z p b k [] Hz E Hl) as D. rewrite app_nil_r in D.
  rewrite E' in D. pose proof (long_roundtrip z' [] Hz') as R. rewrite app_nil_r in R.
  rewrite R in D. injection D as ->.
  rewrite E in E'. apply app_inv_head in E'. unfold padding in E'. apply (f_equal (hd 0)) in E'. cbn [hd app] in E'. lia.
Qed.

Theorem padded_long_datum c nmz ens z p b k rest f :
  in_i64 z = true -> enc_long z = p ++ [b] -> (length p + k + 2 <= 10)%nat ->
  decode (S f) c nmz ens SLong (p ++ padding b k ++ rest) = Ok (VLong z, rest).
Proof.
  intros Hz E Hl. cbn [decode]. rewrite (long_padded_decodes z p b k rest Hz E Hl). reflexivity.
Qed.
