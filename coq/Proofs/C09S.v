(* C09, soundness direction on a fragment: if can_read reports Full, every value of the writer schema
   is read successfully with the reader schema - for pairs built from primitive types (all promotions,
   without bytes -> string), arrays, maps, fixed, enums and records whose reader fields are writer fields
   (reordered or fewer; no aliases, no reader-only fields).  Unions, references, logical types, aliases
   and defaults are outside the fragment: that is where the verdict is unsound (Props/C09.v refutations). *)
From AvroV Require Import Base Varint Schema Bytes Names Floats Codec Conforms Validate SingleObject Resolve Compat.
From AvroV Require Import BytesP DecodedP C08P C09P.
From Coq Require Import ZifyN ZifyBool ZifyNat.
Open Scope N_scope.

Definition primb (s : schema) : bool :=
  match s with
  | SNull | SBoolean | SInt | SLong | SFloat | SDouble | SBytes | SString => true
  | _ => false
  end.

Fixpoint frag (fuel : nat) (W R : schema) {struct fuel} : bool :=
  match fuel with
  | O => false
  | S f =>
    match W, R with
    | SBytes, SString => false
    | SArray wi _, SArray ri _ => frag f wi ri
    | SMap wv _, SMap rv _ => frag f wv rv
    | SFixed _, SFixed _ => true
    | SEnum _ _ _ _ _ _, SEnum _ _ _ rsyms rdef _ =>
      match rdef with Some d => existsb (bytes_eqb d) rsyms | None => true end
    | SRecord _ _ _ wfs _, SRecord _ _ _ rfs _ =>
      nodup_strs (map (fun ms : fmeta * schema => f_name (fst ms)) rfs)
      && forallb (fun mr : fmeta * schema =>
                    (match f_aliases (fst mr) with [] => true | _ => false end)
                    && match wfield_named (f_name (fst mr)) wfs with
                       | Some ws => frag f ws (snd mr)
                       | None => false end) rfs
    | _, _ => primb W && primb R
    end
  end.

(* ---- small facts ---- *)
Lemma map_res_ok {A B} (g : A -> res B) (l : list A) :
  (forall x, In x l -> exists y, g x = Ok y) -> exists l', Resolve.map_res g l = Ok l'.
Proof.
  induction l as [|x r IH]; intros H; [exists []; reflexivity|].
  destruct (H x (or_introl eq_refl)) as (y & Hy). destruct IH as (l' & Hl'); [intros z Hz; apply H; right; exact Hz|].
  exists (y :: l'). cbn [Resolve.map_res]. rewrite Hy. cbn [bind]. rewrite Hl'. reflexivity.
Qed.

Lemma existsb_position (p : str) (l : list str) :
  existsb (bytes_eqb p) l = true -> exists i, position (bytes_eqb p) l = Some i.
Proof.
  induction l as [|a l IH]; cbn [existsb position]; [discriminate|].
  destruct (bytes_eqb p a); [exists O; reflexivity|]. cbn [orb]. intros H. destruct (IH H) as (i & Hi).
  exists (S i). rewrite Hi. reflexivity.
Qed.

Lemma nth_N_In {A} (l : list A) : forall i x, nth_N l i = Some x -> In x l.
Proof.
  induction l as [|a l IH]; intros i x H; cbn [nth_N] in H; [discriminate|].
  destruct (i =? 0); [injection H as <-; left; reflexivity|right; exact (IH _ _ H)].
Qed.

(* a map built by inserting distinct keys in order is that list *)
Lemma map_insert_fresh {A} k (v : A) l :
  existsb (bytes_eqb k) (map fst l) = false -> map_insert k v l = l ++ [(k, v)].
Proof.
  induction l as [|[k' v'] r IH]; cbn [map_insert map fst existsb app]; [reflexivity|].
  intros H. apply orb_false_iff in H. destruct H as [H1 H2]. rewrite H1, (IH H2). reflexivity.
Qed.

Lemma map_of_list_nodup {A} (l : list (bytes * A)) :
  nodup_strs (map fst l) = true -> map_of_list l = l.
Proof.
  unfold map_of_list.
  assert (G : forall acc, nodup_strs (map fst (acc ++ l)) = true ->
                fold_left (fun a kv => map_insert (fst kv) (snd kv) a) l acc = acc ++ l).
  { induction l as [|[k v] r IH]; intros acc H; cbn [fold_left]; [rewrite app_nil_r; reflexivity|].
    cbn [fst snd]. rewrite map_insert_fresh.
    - rewrite IH; [rewrite <- app_assoc; reflexivity|]. rewrite <- app_assoc. exact H.
    - (* k is not among the keys of acc: nodup of acc ++ (k :: r) *)
      clear IH. induction acc as [|[k0 v0] acc IHa]; [reflexivity|].
      cbn [app map fst nodup_strs existsb] in H |- *. apply andb_prop in H. destruct H as [H1 H2].
      rewrite (IHa H2), orb_false_r. apply negb_true_iff in H1.
      rewrite map_app, existsb_app in H1. apply orb_false_iff in H1. destruct H1 as [_ H1].
      cbn [map fst existsb] in H1. apply orb_false_iff in H1. destruct H1 as [H1 _].
      rewrite bytes_eqb_sym. exact H1. }
  intros H. apply (G [] H).
Qed.

(* the value stored under a writer field's name in a conforming record *)
Lemma conf_fields_lookup (cf : schema -> value -> bool) : forall wfs l n ws,
  conf_fields cf wfs l = true -> wfield_named n wfs = Some ws ->
  exists x, lookup n l = Some x /\ cf ws x = true.
Proof.
  induction wfs as [|[m s] wfs IH]; intros l n ws Hc Hw; [discriminate Hw|].
  destruct l as [|[k v] l]; [discriminate Hc|].
  cbn [conf_fields] in Hc. apply andb_prop in Hc. destruct Hc as [Hc Hrest]. apply andb_prop in Hc. destruct Hc as [Hk Hv].
  apply bytes_eqb_eq in Hk. subst k. cbn [wfield_named] in Hw. cbn [lookup].
  rewrite (bytes_eqb_sym n (f_name m)).
  destruct (bytes_eqb (f_name m) n) eqn:E.
  - injection Hw as <-. exists v. split; [reflexivity|exact Hv].
  - exact (IH l n ws Hrest Hw).
Qed.

Lemma conf_fields_keys (cf : schema -> value -> bool) : forall wfs l,
  conf_fields cf wfs l = true -> map fst l = map (fun ms : fmeta * schema => f_name (fst ms)) wfs.
Proof.
  induction wfs as [|[m s] wfs IH]; intros l Hc; destruct l as [|[k v] l]; try discriminate Hc; [reflexivity|].
  cbn [conf_fields] in Hc. apply andb_prop in Hc. destruct Hc as [Hc Hrest]. apply andb_prop in Hc. destruct Hc as [Hk _].
  apply bytes_eqb_eq in Hk. cbn [map fst]. rewrite (IH l Hrest), Hk. reflexivity.
Qed.

(* record_fields = Ok CFull: every reader field was matched fully (or defaulted) *)
Lemma cand_full a b : cand a b = CFull -> a = CFull /\ b = CFull.
Proof. destruct a, b; cbn; intros H; try discriminate H; split; reflexivity. Qed.

Lemma record_fields_full cr wfs : forall l acc,
  record_fields cr wfs l acc = Ok CFull ->
  acc = CFull /\
  forall m rs ws, In (m, rs) l -> wfield_for (f_name m :: f_aliases m) wfs = Some ws -> cr ws rs = Ok CFull.
Proof.
  induction l as [|[m0 rs0] r IH]; intros acc H; cbn [record_fields] in H.
  - injection H as ->. split; [reflexivity|intros ? ? ? []].
  - destruct (wfield_for (f_name m0 :: f_aliases m0) wfs) as [ws0|] eqn:Ew.
    + destruct (cr ws0 rs0) as [c0| | |] eqn:Ec; try discriminate H.
      destruct (IH _ H) as [Hacc Hall]. apply cand_full in Hacc. destruct Hacc as [-> ->].
      split; [reflexivity|]. intros m rs ws [Heq|Hin] Hw.
      * injection Heq as <- <-. rewrite Ew in Hw. injection Hw as <-. exact Ec.
      * exact (Hall m rs ws Hin Hw).
    + destruct (f_default m0); [|discriminate H]. destruct (IH _ H) as [-> Hall].
      split; [reflexivity|]. intros m rs ws [Heq|Hin] Hw.
      * injection Heq as <- <-. rewrite Ew in Hw. discriminate Hw.
      * exact (Hall m rs ws Hin Hw).
Qed.

(* resolve_fields succeeds when every reader field (distinct names) finds a value that resolves *)
Lemma resolve_fields_ok (r : schema -> value -> res value) jv : forall rfs items,
  NoDup (map (fun ms : fmeta * schema => f_name (fst ms)) rfs) ->
  (forall m rs, In (m, rs) rfs -> exists x y, lookup (f_name m) items = Some x /\ r rs x = Ok y) ->
  exists out, resolve_fields r jv rfs items = Ok out.
Proof.
  induction rfs as [|[m rs] rest IH]; intros items Hnd Hall; [exists []; reflexivity|].
  cbn [map fst] in Hnd. apply NoDup_cons_iff in Hnd. destruct Hnd as [Hnot Hnd].
  destruct (Hall m rs (or_introl eq_refl)) as (x & y & Hl & Hr).
  destruct (IH (remove_key (f_name m) items) Hnd) as (more & Hmore).
  { intros m' rs' Hin. destruct (Hall m' rs' (or_intror Hin)) as (x' & y' & Hl' & Hr').
    exists x', y'. split; [|exact Hr'].
    rewrite lookup_remove_other; [exact Hl'|].
    destruct (bytes_eqb (f_name m) (f_name m')) eqn:E; [|reflexivity].
    apply bytes_eqb_eq in E. exfalso. apply Hnot. rewrite E.
    apply (in_map (fun ms : fmeta * schema => f_name (fst ms)) rest (m', rs')). exact Hin. }
  exists ((f_name m, y) :: more). cbn [resolve_fields]. rewrite Hl. cbn [bind]. rewrite Hr. cbn [bind]. rewrite Hmore. reflexivity.
Qed.

Lemma nodup_strs_NoDup' l : nodup_strs l = true -> NoDup l.
Proof.
  induction l as [|a l IH]; cbn [nodup_strs]; intros H; [constructor|].
  apply andb_prop in H. destruct H as [H1 H2]. constructor; [|apply IH; exact H2].
  intros Hin. apply negb_true_iff in H1.
  assert (E : existsb (bytes_eqb a) l = true).
  { apply existsb_exists. exists a. split; [exact Hin|apply bytes_eqb_refl]. }
  rewrite E in H1. discriminate H1.
Qed.

(* primitive pairs: a Full verdict (identical types and promotions, bytes -> string excluded) reads *)
Lemma prim_sound fc c nmz ens f c' nmz' ens' W R v :
  primb W = true -> primb R = true -> (match W, R with SBytes, SString => false | _, _ => true end) = true ->
  can_read (S f) W R = Ok CFull -> conforms (S fc) c nmz ens W v = true ->
  exists v', resolve (S f) c' nmz' ens' R v = Ok v'.
Proof.
  intros HW HR Hbs Hl Hc.
  destruct W; try discriminate HW; destruct R; try discriminate HR; try discriminate Hbs; try discriminate Hl;
    destruct v; try discriminate Hc; eexists; reflexivity.
Qed.

Theorem full_verdict_sound : forall fuel W R v fc c nmz ens c' nmz' ens',
  frag fuel W R = true -> can_read fuel W R = Ok CFull -> conforms fc c nmz ens W v = true ->
  exists v', resolve fuel c' nmz' ens' R v = Ok v'.
Proof.
  induction fuel as [|f IH]; intros W R v fc c nmz ens c' nmz' ens' Hf Hcr Hc; [discriminate Hf|].
  destruct fc as [|fc]; [discriminate Hc|].
  pose proof Hcr as Hcr0. cbn [can_read] in Hcr. destruct (name_clash W R) eqn:Enc; [discriminate Hcr|].
  destruct W; try (destruct R; try discriminate Hf;
                   match goal with
                   | Hc' : conforms _ _ _ _ ?W0 ?v0 = true |- exists _, resolve _ _ _ _ ?R0 _ = _ =>
                     apply (prim_sound fc c nmz ens f c' nmz' ens' W0 R0 v0);
                     [reflexivity|reflexivity|reflexivity|exact Hcr0|exact Hc']
                   end; fail).
  - (* array *)
    destruct R; try discriminate Hf. cbn [frag] in Hf.
    cbn [conforms] in Hc; destruct v; try discriminate Hc. apply andb_prop in Hc. destruct Hc as [_ Hall].
    destruct (map_res_ok (resolve f c' nmz' ens' R) l) as (l' & Hl').
    { intros x Hx. rewrite forallb_forall in Hall. exact (IH W R x fc c nmz ens c' nmz' ens' Hf Hcr (Hall x Hx)). }
    exists (VArray l'). cbn [resolve]. rewrite Hl'. reflexivity.
  - (* map *)
    destruct R; try discriminate Hf. cbn [frag] in Hf.
    cbn [conforms] in Hc; destruct v; try discriminate Hc. apply andb_prop in Hc. destruct Hc as [_ Hall].
    destruct (map_res_ok (fun kv : str * value => do y <- resolve f c' nmz' ens' R (snd kv); Ok (fst kv, y)) l) as (l' & Hl').
    { intros kv Hkv. rewrite forallb_forall in Hall. specialize (Hall kv Hkv). apply andb_prop in Hall. destruct Hall as [_ Hv].
      destruct (IH W R (snd kv) fc c nmz ens c' nmz' ens' Hf Hcr Hv) as (y & Hy). exists (fst kv, y). rewrite Hy. reflexivity. }
    exists (VMap l'). cbn [resolve]. rewrite Hl'. reflexivity.
  - (* record *)
    destruct R; try discriminate Hf. cbn [frag] in Hf. apply andb_prop in Hf. destruct Hf as [Hnd Hfr].
    cbn [conforms] in Hc; destruct v; try discriminate Hc. apply andb_prop in Hc. destruct Hc as [Hwnd Hcf].
    destruct (record_fields_full _ _ _ _ Hcr) as [_ Hfull].
    pose proof (conf_fields_keys _ _ _ Hcf) as Hkeys.
    assert (Hml : map_of_list l = l) by (apply map_of_list_nodup; rewrite Hkeys; exact Hwnd).
    destruct (resolve_fields_ok (resolve f c' nmz' (ns_or n0 ens')) (json_to_value f) fields0 l) as (out & Hout).
    { apply nodup_strs_NoDup'. exact Hnd. }
    { intros m rs Hin. rewrite forallb_forall in Hfr. specialize (Hfr (m, rs) Hin). cbn [fst snd] in Hfr.
      apply andb_prop in Hfr. destruct Hfr as [Hal Hws].
      destruct (f_aliases m) as [|ali0 alr0] eqn:Ea; [|discriminate Hal].
      destruct (wfield_named (f_name m) fields) as [ws|] eqn:Ew; [|discriminate Hws].
      destruct (conf_fields_lookup _ _ _ _ _ Hcf Ew) as (x & Hx & Hcx).
      assert (Hwf : wfield_for (f_name m :: f_aliases m) fields = Some ws) by (rewrite Ea; cbn [wfield_for]; rewrite Ew; reflexivity).
      destruct (IH ws rs x fc c nmz (ns (fqn n ens)) c' nmz' (ns_or n0 ens') Hws (Hfull m rs ws Hin Hwf) Hcx) as (y & Hy).
      exists x, y. split; [exact Hx|exact Hy]. }
    exists (VRecord out). cbn [resolve]. rewrite Hml, Hout. reflexivity.
  - (* enum *)
    destruct R; try discriminate Hf. cbn [frag] in Hf.
    cbn [conforms] in Hc; destruct v; try discriminate Hc. apply andb_prop in Hc. destruct Hc as [_ Hsym].
    destruct (nth_N symbols i) as [y|] eqn:En; [|discriminate Hsym]. apply bytes_eqb_eq in Hsym. subst y.
    pose proof (nth_N_In _ _ _ En) as Hin.
    cbn [resolve]. unfold resolve_enum.
    destruct (position (bytes_eqb sym) symbols0) as [k|] eqn:Ep; [eexists; reflexivity|].
    destruct default0 as [d|].
    + destruct (existsb_position d symbols0 Hf) as (k & Hk). rewrite Hk. eexists; reflexivity.
    + (* no default: Full means every writer symbol is a reader symbol *)
      exfalso.
      destruct (forallb (fun b : bool => b) (map (fun s : str => existsb (bytes_eqb s) symbols0) symbols)) eqn:Eall.
      * rewrite forallb_forall in Eall.
        assert (E : existsb (bytes_eqb sym) symbols0 = true).
        { apply Eall. apply in_map_iff. exists sym. split; [reflexivity|exact Hin]. }
        destruct (existsb_position sym symbols0 E) as (k & Hk). rewrite Hk in Ep. discriminate Ep.
      * destruct (existsb (fun b : bool => b) (map (fun s : str => existsb (bytes_eqb s) symbols0) symbols)); discriminate Hcr.
  - (* fixed *)
    destruct R; try discriminate Hf.
    cbn [conforms] in Hc; destruct v; try discriminate Hc. apply andb_prop in Hc. destruct Hc as [Hc _]. apply andb_prop in Hc. destruct Hc as [Hn _].
    unfold leaf_compat in Hcr. cbn in Hcr.
    destruct (fx_size f1 =? fx_size f0) eqn:Es; [|discriminate Hcr].
    cbn [resolve]. assert (E : (n =? fx_size f1) = true) by lia. rewrite E. eexists; reflexivity.
Qed.
