(* Laws of the byte-level helpers. *)
From AvroV Require Import Base Varint Bytes.
From Coq Require Import ZifyN ZifyBool ZifyNat.
Open Scope N_scope.
Ltac Zify.zify_post_hook ::= Z.div_mod_to_equations.

Lemma bytes_eqb_eq a b : bytes_eqb a b = true <-> a = b.
Proof.
  unfold bytes_eqb. revert b. induction a as [|x a IH]; intros [|y b]; cbn; split; intros H;
    try reflexivity; try discriminate.
  - apply andb_true_iff in H as [H1 H2]. apply N.eqb_eq in H1. apply IH in H2. congruence.
  - inversion H; subst. rewrite N.eqb_refl. apply IH. reflexivity.
Qed.
Lemma bytes_eqb_refl a : bytes_eqb a a = true.
Proof. apply bytes_eqb_eq. reflexivity. Qed.

Lemma lenN_app {A} (a b : list A) : lenN (a ++ b) = lenN a + lenN b.
Proof. unfold lenN. rewrite app_length. lia. Qed.
Lemma lenN_cons {A} (x : A) l : lenN (x :: l) = 1 + lenN l.
Proof. unfold lenN. cbn [length]. lia. Qed.
Lemma lenN_nil {A} : lenN (@nil A) = 0.
Proof. reflexivity. Qed.

Lemma take_app a r : take (lenN a) (a ++ r) = Some (a, r).
Proof.
  induction a as [|x a IH]; cbn [app].
  - rewrite lenN_nil. destruct r; reflexivity.
  - rewrite lenN_cons. cbn [take].
    assert (E : (1 + lenN a =? 0) = false) by (apply N.eqb_neq; lia). rewrite E.
    replace (1 + lenN a - 1) with (lenN a) by lia. rewrite IH. reflexivity.
Qed.

Lemma take_app_n n a r : lenN a = n -> take n (a ++ r) = Some (a, r).
Proof. intros <-. apply take_app. Qed.

Lemma take_spec n bs a r : take n bs = Some (a, r) -> bs = a ++ r /\ lenN a = n.
Proof.
  revert n a r. induction bs as [|b bs IH]; intros n a r H; cbn [take] in H.
  - destruct (n =? 0) eqn:E; inversion H; subst. apply N.eqb_eq in E. split; [reflexivity|]. rewrite lenN_nil. lia.
  - destruct (n =? 0) eqn:E.
    + inversion H; subst. apply N.eqb_eq in E. split; [reflexivity|]. rewrite lenN_nil. lia.
    + destruct (take (n - 1) bs) as [[a' r']|] eqn:T; [|discriminate].
      inversion H; subst. apply IH in T as [-> L]. apply N.eqb_neq in E.
      split; [reflexivity|]. rewrite lenN_cons. lia.
Qed.

Lemma nth_N_spec {A} (l : list A) i : nth_N l (N.of_nat i) = nth_error l i.
Proof.
  revert i. induction l as [|x l IH]; intros i.
  - destruct i; reflexivity.
  - destruct i as [|i]; [reflexivity|].
    cbn [nth_error nth_N].
    assert (E : (N.of_nat (S i) =? 0) = false) by (apply N.eqb_neq; lia). rewrite E.
    replace (N.of_nat (S i) - 1) with (N.of_nat i) by lia. apply IH.
Qed.

Lemma nth_N_lt {A} (l : list A) i x : nth_N l i = Some x -> i < lenN l.
Proof.
  revert i. induction l as [|y l IH]; intros i H; cbn [nth_N] in H; [discriminate|].
  rewrite lenN_cons. destruct (i =? 0) eqn:E.
  - apply N.eqb_eq in E. lia.
  - apply IH in H. apply N.eqb_neq in E. lia.
Qed.

(* ---- little endian ---- *)
Lemma le_bytes_length n x : length (le_bytes n x) = n.
Proof. revert x. induction n as [|n IH]; intros x; cbn [le_bytes length]; [reflexivity|]. rewrite IH. reflexivity. Qed.

Lemma of_le_le_bytes n x : x < 256 ^ (N.of_nat n) -> of_le (le_bytes n x) = x.
Proof.
  revert x. induction n as [|n IH]; intros x H; cbn [le_bytes of_le].
  - cbn in H. lia.
  - rewrite IH.
    + pose proof (N.div_mod x 256 ltac:(lia)). lia.
    + replace (N.of_nat (S n)) with (N.of_nat n + 1) in H by lia.
      rewrite N.pow_add_r in H. change (256 ^ 1) with 256 in H.
      apply N.div_lt_upper_bound; lia.
Qed.

Lemma le_bytes_all n x : all_bytes (le_bytes n x) = true.
Proof.
  revert x. induction n as [|n IH]; intros x; cbn [le_bytes all_bytes]; [reflexivity|].
  rewrite IH. rewrite andb_true_r. apply N.ltb_lt. apply N.mod_lt. lia.
Qed.

(* ---- UTF-8: ASCII is valid ---- *)
Fixpoint all_ascii (bs : bytes) : bool :=
  match bs with [] => true | b :: r => (b <? 128) && all_ascii r end.
Lemma ascii_utf8 bs : all_ascii bs = true -> utf8_ok bs = true.
Proof.
  unfold utf8_ok. induction bs as [|b r IH]; cbn [all_ascii utf8_go]; intros H; [reflexivity|].
  apply andb_true_iff in H as [H1 H2]. rewrite H1. apply IH. assumption.
Qed.
Lemma all_ascii_app a b : all_ascii (a ++ b) = all_ascii a && all_ascii b.
Proof. induction a as [|x a IH]; cbn [app all_ascii]; [reflexivity|]. rewrite IH, andb_assoc. reflexivity. Qed.
Lemma all_ascii_bytes bs : all_ascii bs = true -> all_bytes bs = true.
Proof.
  induction bs as [|b r IH]; cbn [all_ascii all_bytes]; intros H; [reflexivity|].
  apply andb_true_iff in H as [H1 H2]. rewrite IH by assumption. rewrite andb_true_r.
  apply N.ltb_lt. apply N.ltb_lt in H1. lia.
Qed.

(* ---- two's complement ---- *)
Lemma minimal_nonempty bs : minimal bs <> [].
Proof.
  induction bs as [|b0 r IH]; cbn [minimal]; [discriminate|].
  destruct r as [|b1 r']; [discriminate|].
  destruct (((b0 =? 0) && (b1 <? 128)) || ((b0 =? 255) && (128 <=? b1))); [exact IH|discriminate].
Qed.

Lemma minimal_length bs : bs <> [] -> lenN (minimal bs) <= lenN bs.
Proof.
  induction bs as [|b0 r IH]; intros H; [congruence|].
  cbn [minimal]. destruct r as [|b1 r']; [lia|].
  destruct (((b0 =? 0) && (b1 <? 128)) || ((b0 =? 255) && (128 <=? b1))).
  - assert (L := IH ltac:(discriminate)). rewrite (lenN_cons b0). lia.
  - lia.
Qed.

(* sign-extending the minimal form back to the original length restores the original bytes *)
Lemma sign_extend_self bs : bs <> [] -> sign_extend (lenN bs) bs = Some bs.
Proof.
  unfold sign_extend. intros Hne.
  assert (L := minimal_length bs Hne). apply N.leb_le in L. rewrite L. f_equal.
  clear L. induction bs as [|b0 r IH]; [congruence|].
  cbn [minimal]. destruct r as [|b1 r'].
  - rewrite N.sub_diag. reflexivity.
  - destruct (((b0 =? 0) && (b1 <? 128)) || ((b0 =? 255) && (128 <=? b1))) eqn:E.
    + assert (IH' := IH ltac:(discriminate)). clear IH.
      assert (Hl := minimal_length (b1 :: r') ltac:(discriminate)).
      rewrite (lenN_cons b0).
      replace (1 + lenN (b1 :: r') - lenN (minimal (b1 :: r')))
        with (N.succ (lenN (b1 :: r') - lenN (minimal (b1 :: r')))) by lia.
      rewrite N2Nat.inj_succ. cbn [repeat_n app].
      assert (Hs : (if is_neg (b0 :: b1 :: r') then 255 else 0) = b0
                   /\ is_neg (b0 :: b1 :: r') = is_neg (b1 :: r')).
      { cbn [is_neg]. apply orb_true_iff in E as [E|E]; apply andb_true_iff in E as [E1 E2];
          apply N.eqb_eq in E1; subst b0.
        - apply N.ltb_lt in E2. assert (H1 : (128 <=? b1) = false) by (apply N.leb_gt; lia).
          rewrite H1. split; reflexivity.
        - rewrite E2. split; reflexivity. }
      destruct Hs as [Hs1 Hs2]. rewrite Hs2 in Hs1 |- *. f_equal; [exact Hs1 | exact IH'].
    + rewrite N.sub_diag. reflexivity.
Qed.

Lemma dec_to_vec_self bs : bs <> [] -> dec_to_vec bs = Some bs.
Proof.
  intros H. unfold dec_to_vec.
  assert (E : N.max 1 (lenN bs) = lenN bs) by (destruct bs; [congruence|rewrite lenN_cons; lia]).
  rewrite E. apply sign_extend_self. exact H.
Qed.

Lemma dec_to_vec_empty : dec_to_vec [] = Some [0].
Proof. reflexivity. Qed.

(* ---- UUID text ---- *)
Lemma hexdig_unhex n : n < 16 -> unhex (hexdig n) = Some n.
Proof.
  intros H. unfold hexdig, unhex.
  destruct (n <? 10) eqn:E.
  - apply N.ltb_lt in E.
    assert (A : ((48 <=? 48 + n) && (48 + n <=? 57)) = true) by lia.
    rewrite A. f_equal. lia.
  - apply N.ltb_ge in E.
    assert (A : ((48 <=? 87 + n) && (87 + n <=? 57)) = false) by lia.
    assert (B : ((97 <=? 87 + n) && (87 + n <=? 102)) = true) by lia.
    rewrite A, B. f_equal. lia.
Qed.

Lemma hexdig_ascii n : n < 16 -> hexdig n < 128.
Proof. intros H. unfold hexdig. destruct (n <? 10); lia. Qed.

Lemma unhex_pairs_hex l : all_bytes l = true -> unhex_pairs (hex_of l) = Some l.
Proof.
  induction l as [|b l IH]; cbn [all_bytes hex_of]; intros H; [reflexivity|].
  apply andb_true_iff in H as [Hb Hl]. apply N.ltb_lt in Hb.
  unfold hex2. cbn [app unhex_pairs].
  rewrite !hexdig_unhex by (try (apply N.div_lt_upper_bound; lia); try (apply N.mod_lt; lia)).
  rewrite (IH Hl). f_equal. f_equal. lia.
Qed.

Lemma hex_of_length l : lenN (hex_of l) = 2 * lenN l.
Proof.
  induction l as [|b l IH]; cbn [hex_of]; [reflexivity|].
  unfold hex2. cbn [app]. rewrite !lenN_cons, IH. lia.
Qed.

Lemma hex_of_app a b : hex_of (a ++ b) = hex_of a ++ hex_of b.
Proof. induction a as [|x a IH]; cbn [app hex_of]; [reflexivity|]. rewrite IH, app_assoc. reflexivity. Qed.

Lemma hex_of_ascii l : all_bytes l = true -> all_ascii (hex_of l) = true.
Proof.
  induction l as [|b l IH]; cbn [all_bytes hex_of]; intros H; [reflexivity|].
  apply andb_true_iff in H as [Hb Hl]. apply N.ltb_lt in Hb.
  unfold hex2. cbn [app all_ascii]. rewrite (IH Hl).
  assert (A : hexdig (b / 16) < 128) by (apply hexdig_ascii; apply N.div_lt_upper_bound; lia).
  assert (B : hexdig (b mod 16) < 128) by (apply hexdig_ascii; apply N.mod_lt; lia).
  apply N.ltb_lt in A, B. rewrite A, B. reflexivity.
Qed.

Lemma parse_hyphenated_ok g1 g2 g3 g4 g5 :
  lenN g1 = 4 -> lenN g2 = 2 -> lenN g3 = 2 -> lenN g4 = 2 -> lenN g5 = 6 ->
  all_bytes (g1 ++ g2 ++ g3 ++ g4 ++ g5) = true ->
  parse_hyphenated (hex_of g1 ++ 45 :: hex_of g2 ++ 45 :: hex_of g3 ++ 45 :: hex_of g4 ++ 45 :: hex_of g5)
  = Some (g1 ++ g2 ++ g3 ++ g4 ++ g5).
Proof.
  intros L1 L2 L3 L4 L5 A. unfold parse_hyphenated.
  rewrite (take_app_n 8) by (rewrite hex_of_length; lia).
  rewrite (take_app_n 4) by (rewrite hex_of_length; lia).
  rewrite (take_app_n 4) by (rewrite hex_of_length; lia).
  rewrite (take_app_n 4) by (rewrite hex_of_length; lia).
  assert (E : (lenN (hex_of g5) =? 12) = true) by (apply N.eqb_eq; rewrite hex_of_length; lia).
  rewrite E. cbn [N.eqb Pos.eqb andb]. rewrite <- !hex_of_app. apply unhex_pairs_hex. exact A.
Qed.

Lemma uuid_text_facts b : lenN b = 16 -> all_bytes b = true ->
  uuid_parse (uuid_text b) = Some b /\ lenN (uuid_text b) = 36 /\ all_ascii (uuid_text b) = true.
Proof.
  intros L A.
  do 16 (destruct b as [|? b]; [cbv in L; discriminate|]).
  destruct b; [|unfold lenN in L; cbn [length] in L; lia].
  cbn [uuid_text].
  match goal with |- context [hex_of ?a ++ 45 :: hex_of ?b ++ 45 :: hex_of ?c ++ 45 :: hex_of ?d ++ 45 :: hex_of ?e] =>
    set (g1 := a); set (g2 := b); set (g3 := c); set (g4 := d); set (g5 := e) end.
  assert (Len : lenN (hex_of g1 ++ 45 :: hex_of g2 ++ 45 :: hex_of g3 ++ 45 :: hex_of g4 ++ 45 :: hex_of g5) = 36).
  { rewrite !lenN_app, !lenN_cons, !lenN_app, !hex_of_length. subst g1 g2 g3 g4 g5. cbv. reflexivity. }
  split; [|split].
  - unfold uuid_parse. rewrite Len. cbn [N.eqb Pos.eqb].
    apply (parse_hyphenated_ok g1 g2 g3 g4 g5); try reflexivity. exact A.
  - exact Len.
  - assert (A' : all_bytes (g1 ++ g2 ++ g3 ++ g4 ++ g5) = true) by exact A.
    assert (Hsplit : forall a b, all_bytes (a ++ b) = true -> all_bytes a = true /\ all_bytes b = true).
    { induction a as [|x a IHa]; cbn [app all_bytes]; intros b0 H0; [split; [reflexivity|assumption]|].
      apply andb_true_iff in H0 as [H1 H2]. apply IHa in H2 as [H2 H3]. rewrite H1, H2. split; [reflexivity|assumption]. }
    apply Hsplit in A' as [A1 A']. apply Hsplit in A' as [A2 A']. apply Hsplit in A' as [A3 A'].
    apply Hsplit in A' as [A4 A5].
    rewrite !all_ascii_app. cbn [all_ascii]. rewrite !all_ascii_app. cbn [all_ascii].
    rewrite !all_ascii_app. cbn [all_ascii]. rewrite !all_ascii_app. cbn [all_ascii].
    rewrite !hex_of_ascii by assumption. reflexivity.
Qed.

(* sign-extension preserves the number (minimal form) and produces exactly [size] bytes *)
Lemma minimal_pad sb m n :
  m <> [] ->
  (sb = 0 /\ (match m with b :: _ => b <? 128 | [] => false end) = true) \/
  (sb = 255 /\ (match m with b :: _ => 128 <=? b | [] => false end) = true) ->
  minimal (repeat_n sb n ++ m) = minimal m.
Proof.
  intros Hne Hs. induction n as [|n IH]; cbn [repeat_n app]; [reflexivity|].
  destruct (repeat_n sb n ++ m) as [|b1 r] eqn:E.
  - destruct n; cbn [repeat_n app] in E; [congruence|discriminate].
  - cbn [minimal].
    assert (Hb1 : ((sb =? 0) && (b1 <? 128)) || ((sb =? 255) && (128 <=? b1)) = true).
    { destruct n as [|n'].
      - cbn [repeat_n app] in E. subst m.
        destruct Hs as [[-> H]|[-> H]]; rewrite H; reflexivity.
      - cbn [repeat_n app] in E. inversion E; subst b1.
        destruct Hs as [[-> _]|[-> _]]; reflexivity. }
    rewrite Hb1. exact IH.
Qed.

Lemma minimal_head_sign bs :
  match minimal bs with
  | b :: _ => (128 <=? b) = is_neg bs
  | [] => False
  end.
Proof.
  induction bs as [|b0 r IH]; [reflexivity|].
  cbn [minimal]. destruct r as [|b1 r']; [reflexivity|].
  destruct (((b0 =? 0) && (b1 <? 128)) || ((b0 =? 255) && (128 <=? b1))) eqn:E; [|reflexivity].
  destruct (minimal (b1 :: r')) as [|m0 mr]; [exact IH|].
  rewrite IH. cbn [is_neg].
  apply orb_true_iff in E as [E|E]; apply andb_true_iff in E as [E1 E2]; apply N.eqb_eq in E1; subst b0.
  - apply N.ltb_lt in E2. apply N.leb_gt in E2. rewrite E2. reflexivity.
  - rewrite E2. reflexivity.
Qed.

Lemma minimal_idem bs : minimal (minimal bs) = minimal bs.
Proof.
  induction bs as [|b0 r IH]; [reflexivity|].
  cbn [minimal]. destruct r as [|b1 r']; [reflexivity|].
  destruct (((b0 =? 0) && (b1 <? 128)) || ((b0 =? 255) && (128 <=? b1))) eqn:E; [exact IH|].
  cbn [minimal]. rewrite E. reflexivity.
Qed.

Lemma repeat_n_length {A} (x : A) n : length (repeat_n x n) = n.
Proof. induction n; cbn [repeat_n length]; congruence. Qed.

Lemma sign_extend_minimal (b e : bytes) (size : N) :
  sign_extend size b = Some e -> b <> [] -> minimal e = minimal b /\ lenN e = size.
Proof.
  unfold sign_extend. intros H Hne.
  destruct (lenN (minimal b) <=? size) eqn:L; [|discriminate]. inversion H; subst e. clear H.
  apply N.leb_le in L. split.
  - rewrite minimal_pad.
    + apply minimal_idem.
    + apply minimal_nonempty.
    + pose proof (minimal_head_sign b) as Hh.
      destruct (minimal b) as [|m0 mr]; [contradiction|].
      destruct (is_neg b) eqn:Hn.
      * right. split; [reflexivity|exact Hh].
      * left. split; [reflexivity|]. apply N.ltb_lt. apply N.leb_gt in Hh. exact Hh.
  - rewrite lenN_app. unfold lenN at 1. rewrite repeat_n_length. lia.
Qed.

Lemma minimal_all_bytes u : all_bytes u = true -> all_bytes (minimal u) = true.
Proof.
  induction u as [|b0 r IH]; intros H; [reflexivity|].
  cbn [minimal]. destruct r as [|b1 r']; [exact H|].
  destruct (((b0 =? 0) && (b1 <? 128)) || ((b0 =? 255) && (128 <=? b1))); [|exact H].
  apply IH. cbn [all_bytes] in H. apply andb_true_iff in H as [_ H]. exact H.
Qed.
