From AvroV Require Import Base Settings Varint Schema Bytes Codec Conforms VarintP BytesP CodecP.
From Coq Require Import ZifyN ZifyBool ZifyNat.
Open Scope N_scope.

Section S.
Context {V : Type}.

(* what every later call observes once the cell holds w *)
Definition observes (w : V) (o : @sop V) (out : @sout V) : Prop :=
  match o with
  | GetOrInit _ => out = Got w
  | TrySet v => out = Rejected v
  end.

Lemma srun_set : forall ops (w : V),
  fst (srun (Some w) ops) = Some w /\ Forall2 (observes w) ops (snd (srun (Some w) ops)).
Proof.
  induction ops as [|o r IH]; intros w; cbn [srun]; [split; [reflexivity|constructor]|].
  destruct o as [v|v]; cbn [sstep];
    destruct (IH w) as [H1 H2]; destruct (srun (Some w) r) as [c outs]; cbn [fst snd] in *;
    (split; [exact H1|constructor; [reflexivity|exact H2]]).
Qed.

(* first-set-wins: the first operation of the schedule decides the value for ever *)
Theorem first_wins : forall (o : @sop V) (rest : list sop),
  let '(c, outs) := srun None (o :: rest) in
  c = Some (op_value o) /\
  match outs with
  | first :: later =>
    first = (match o with GetOrInit v => Got v | TrySet _ => Accepted end) /\
    Forall2 (observes (op_value o)) rest later
  | [] => False
  end.
Proof.
  intros o rest. cbn [srun].
  destruct o as [v|v]; cbn [sstep op_value];
    destruct (srun_set rest v) as [H1 H2]; destruct (srun (Some v) rest) as [c outs]; cbn [fst snd] in *;
    (split; [exact H1|split; [reflexivity|exact H2]]).
Qed.

(* the value never changes afterwards, whatever is appended to the schedule *)
Theorem stable : forall (ops more : list (@sop V)) (w : V),
  fst (srun None ops) = Some w -> fst (srun None (ops ++ more)) = Some w.
Proof.
  intros ops more w H.
  assert (G : forall (c : option V) (ops1 ops2 : list (@sop V)), fst (srun c (ops1 ++ ops2)) = fst (srun (fst (srun c ops1)) ops2)).
  { intros c ops1. revert c. induction ops1 as [|o r IH]; intros c ops2; [reflexivity|].
    cbn [app srun]. destruct (sstep c o) as [c' out]. specialize (IH c' ops2).
    destruct (srun c' (r ++ ops2)) as [c2 o2]. destruct (srun c' r) as [c3 o3]. cbn [fst] in *. exact IH. }
  rewrite G, H. apply srun_set.
Qed.
End S.

(* ---- the limit in force is the one every decoder applies ---- *)
Lemma safe_len_iff c n : safe_len c n = true <-> n <= max_alloc c.
Proof. unfold safe_len. apply N.leb_le. Qed.

Lemma dec_len_limit c n r : n < 2 ^ 63 ->
  dec_len c (enc_long (Z.of_N n) ++ r) = if n <=? max_alloc c then Ok (n, r) else Err.
Proof.
  intros H. unfold dec_len. rewrite long_roundtrip by (apply in_i64_spec; lia).
  assert (E1 : (Z.of_N n <? 0)%Z = false) by lia. rewrite E1. unfold safe_len. rewrite N2Z.id.
  destruct (n <=? max_alloc c); reflexivity.
Qed.

Lemma dec_bytes_limit c b r : lenN b < 2 ^ 63 ->
  dec_bytes c (enc_bytes b ++ r) = if lenN b <=? max_alloc c then Ok (b, r) else Err.
Proof.
  intros H. unfold dec_bytes, enc_bytes. rewrite <- app_assoc, dec_len_limit by exact H.
  destruct (lenN b <=? max_alloc c); [cbn [bind]; rewrite take_app; reflexivity|reflexivity].
Qed.

Lemma seq_len_limit c n r : 0 < n -> n < 2 ^ 63 ->
  dec_seq_len c (enc_long (Z.of_N n) ++ r) = if n <=? max_alloc c then Ok (n, r) else Err.
Proof.
  intros Hp H. unfold dec_seq_len. rewrite long_roundtrip by (apply in_i64_spec; lia).
  assert (E0 : (Z.of_N n =? 0)%Z = false) by lia. assert (E1 : (Z.of_N n <? 0)%Z = false) by lia.
  rewrite E0, E1. unfold safe_len. rewrite N2Z.id. destruct (n <=? max_alloc c); reflexivity.
Qed.

Lemma safe_coll_iff c esize n :
  safe_coll c esize n = true <-> n * esize <= usize_max /\ n * esize <= max_alloc c.
Proof. unfold safe_coll. rewrite andb_true_iff, !N.leb_le. reflexivity. Qed.
