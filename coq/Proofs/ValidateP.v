(* Canonical conforming values pass validation (for every union-search function). *)
From AvroV Require Import Base Varint Schema Bytes Names Codec Conforms Validate VarintP BytesP CodecP.
From Coq Require Import ZifyN ZifyBool ZifyNat.
Open Scope N_scope.

Lemma all_res_true {A} (P : A -> bool) (p : A -> res bool) l :
  (forall x, In x l -> P x = true -> p x = Ok true) -> forallb P l = true -> all_res p l = Ok true.
Proof.
  induction l as [|x l IH]; intros Hx Hall; [reflexivity|].
  cbn [forallb] in Hall. apply andb_true_iff in Hall as [H1 H2].
  cbn [all_res]. rewrite (Hx x (or_introl eq_refl) H1). cbn [bind].
  rewrite IH; [reflexivity| |exact H2]. intros y Hy. apply Hx. right. exact Hy.
Qed.

Lemma conf_fields_length cf fs l : conf_fields cf fs l = true -> length l = length fs.
Proof.
  revert l. induction fs as [|[m s] fs IH]; intros [|[k v] l] H; try discriminate; [reflexivity|].
  cbn [conf_fields] in H. apply andb_true_iff in H as [_ H]. cbn [length]. rewrite (IH l H). reflexivity.
Qed.

Lemma filter_length_le {A} (p : A -> bool) l : (length (filter p l) <= length l)%nat.
Proof. induction l as [|x l IH]; cbn [filter length]; [lia|]. destruct (p x); cbn [length]; lia. Qed.

Lemma field_index_fresh k fs :
  existsb (bytes_eqb k) (map (fun ms : fmeta * schema => f_name (fst ms)) fs) = false ->
  field_index k fs = None.
Proof.
  induction fs as [|[m s] fs IH]; cbn [map existsb field_index fst]; intros H; [reflexivity|].
  apply orb_false_iff in H as [H1 H2]. rewrite H1. apply IH. exact H2.
Qed.

(* every (k, v) of a conforming field list validates, looked up in the *whole* field list *)
Lemma fields_validate (cf : schema -> value -> bool) (p : schema -> value -> res bool) :
  (forall s v, cf s v = true -> p s v = Ok true) ->
  forall fs l pre,
    nodup_strs (map (fun ms : fmeta * schema => f_name (fst ms)) (pre ++ fs)) = true ->
    conf_fields cf fs l = true ->
    all_res (fun kv : str * value => match field_index (fst kv) (pre ++ fs) with
                                    | Some fsch => p fsch (snd kv)
                                    | None => Ok false end) l = Ok true.
Proof.
  intros Hp. induction fs as [|[m s] fs IH]; intros [|[k v] l] pre Hnd Hc; try discriminate; [reflexivity|].
  cbn [conf_fields] in Hc. apply andb_true_iff in Hc as [Hc H3]. apply andb_true_iff in Hc as [H1 H2].
  apply bytes_eqb_eq in H1. subst k.
  cbn [all_res fst snd].
  assert (Hidx : field_index (f_name m) (pre ++ (m, s) :: fs) = Some s).
  { clear - Hnd. induction pre as [|[m' s'] pre IHp]; cbn [app field_index].
    - rewrite bytes_eqb_refl. reflexivity.
    - cbn [app map nodup_strs fst] in Hnd. apply andb_true_iff in Hnd as [Hn1 Hn2].
      apply negb_true_iff in Hn1. rewrite map_app in Hn1. rewrite existsb_app in Hn1.
      apply orb_false_iff in Hn1 as [_ Hn1]. cbn [map existsb fst] in Hn1.
      apply orb_false_iff in Hn1 as [Hn1 _].
      assert (E : bytes_eqb (f_name m) (f_name m') = false).
      { destruct (bytes_eqb (f_name m) (f_name m')) eqn:E0; [|reflexivity].
        apply bytes_eqb_eq in E0. rewrite E0, bytes_eqb_refl in Hn1. discriminate. }
      rewrite E. apply IHp. exact Hn2. }
  rewrite Hidx, (Hp s v H2). cbn [bind].
  specialize (IH l (pre ++ [(m, s)])). rewrite <- app_assoc in IH. cbn [app] in IH.
  rewrite IH by assumption. reflexivity.
Qed.

Theorem conforms_validates c nmz find :
  forall fe s v ev ed, agree ev ed s -> conforms fe c nmz ed s v = true ->
                       validate fe find nmz ev s v = Ok true.
Proof.
  induction fe as [|f IH]; intros s v ev ed Hag Hc; [discriminate|].
  destruct s.
  28: { cbn [conforms] in Hc. cbn [agree] in Hag. cbn [validate].
        rewrite (fqn_nsq n ev ed Hag).
        destruct (names_get (fqn n ed) nmz) as [s'|]; [|discriminate].
        apply (IH s' v _ (ns (fqn n ed))); [apply agree_of_nsq; reflexivity|exact Hc]. }
  all: try (destruct v; cbn [conforms] in Hc; try discriminate).
  all: try (destruct inner; cbn [conforms] in Hc; try discriminate).
  all: try (destruct u; cbn [conforms] in Hc; try discriminate).
  all: try reflexivity.
  - (* array *)
    apply andb_true_iff in Hc as [_ Hall]. cbn [validate].
    apply (all_res_true (conforms f c nmz ed s)); [|exact Hall].
    intros x _ Hx. apply (IH s x ev ed); [apply agree_of_nsq; exact Hag|exact Hx].
  - (* map *)
    apply andb_true_iff in Hc as [_ Hall]. cbn [validate].
    apply (all_res_true (fun kv : str * value => str_ok c (fst kv) && conforms f c nmz ed s (snd kv))); [|exact Hall].
    intros [k x] _ Hx. cbn [fst snd] in *. apply andb_true_iff in Hx as [_ Hx].
    apply (IH s x ev ed); [apply agree_of_nsq; exact Hag|exact Hx].
  - (* union *)
    apply andb_true_iff in Hc as [_ Hb]. cbn [validate].
    destruct (nth_N branches i) as [br|]; [|discriminate].
    apply (IH br v ev ed); [apply agree_of_nsq; exact Hag|exact Hb].
  - (* record *)
    apply andb_true_iff in Hc as [Hnd Hcf]. cbn [validate].
    assert (Hlen := conf_fields_length _ _ _ Hcf).
    assert (Hreq := filter_length_le (fun ms : fmeta * schema => negb (field_nullable (snd ms))) fields).
    assert (E1 : (length l <? length (filter (fun ms : fmeta * schema => negb (field_nullable (snd ms))) fields))%nat = false)
      by (apply Nat.ltb_ge; lia).
    assert (E2 : (length fields <? length l)%nat = false) by (apply Nat.ltb_ge; lia).
    rewrite E1, E2.
    apply (fields_validate (conforms f c nmz (ns (fqn n ed))) (validate f find nmz (ns_or n ev)) ) with (pre := []);
      [|exact Hnd|exact Hcf].
    intros s0 v0 H0. apply (IH s0 v0 _ (ns (fqn n ed))); [apply agree_of_nsq; exact Hag|exact H0].
  - (* enum *)
    apply andb_true_iff in Hc as [_ Hs]. cbn [validate].
    destruct (nth_N symbols i) as [y|]; [|discriminate].
    apply bytes_eqb_eq in Hs. subst. rewrite bytes_eqb_refl. reflexivity.
  - (* fixed *)
    apply andb_true_iff in Hc as [Hc _]. apply andb_true_iff in Hc as [Hn _]. cbn [validate]. rewrite Hn. reflexivity.
Qed.
